"""C07 / finding 2

A request handed to a (non-threading) `Application` is answered by the
application through `Application.send_answer()`; when `handle_request` raises
afterwards (here: writing its journal fails), the `except Exception` handler of
Node._receive_message transmits a second answer (5012) for the same request
without checking that the request has been answered already (its entry in
Node._peer_waiting_answer was consumed by route_answer()).

exit 1 = violation observed, exit 0 = behaviour conforms to the property.
"""
import socket
import sys
import time

from diameter.message import Message
from diameter.message.constants import *
from diameter.message.commands import (CapabilitiesExchangeRequest,
                                       CreditControlRequest)
from diameter.node import Node
from diameter.node.application import Application
from diameter.node.peer import PeerConnection, PEER_RECV, PEER_CONNECTED, \
    PEER_TRANSPORT_TCP, PEER_READY


class ChargingApp(Application):
    """Answers in `handle_request` as the base class documents ("the
    application is expected to send its answer messages back towards the
    network by using the `send_message` method") and then journals it."""
    def handle_request(self, message):
        answer = self.generate_answer(
            message, result_code=E_RESULT_CODE_DIAMETER_SUCCESS)
        self.send_answer(answer)
        # post-processing fails: e.g. journal disk full
        raise OSError(28, "No space left on device: charging journal")


node = Node("node.local.realm", "local.realm")
peer = node.add_peer("aaa://peer.local.realm", "local.realm")
app = ChargingApp(APP_DIAMETER_CREDIT_CONTROL_APPLICATION,
                  is_auth_application=True)
node.add_application(app, [peer])

s_node, s_peer = socket.socketpair()
conn = PeerConnection("127.0.0.1", 40000, PEER_RECV, node.interrupt_write)
conn.state = PEER_CONNECTED
node._add_peer_connection(conn, s_node, PEER_TRANSPORT_TCP)


def sent_messages():
    with conn.write_lock:
        buf = bytes(conn._write_buffer)
    out = []
    while len(buf) >= 20:
        ln = int.from_bytes(buf[1:4], "big")
        out.append(Message.from_bytes(buf[:ln]))
        buf = buf[ln:]
    return out


def wait_for(cond, timeout=10):
    end = time.monotonic() + timeout
    while time.monotonic() < end:
        if cond():
            return True
        time.sleep(0.02)
    return False


def base(msg, hbh, e2e):
    msg.header.hop_by_hop_identifier = hbh
    msg.header.end_to_end_identifier = e2e
    msg.origin_host = b"peer.local.realm"
    msg.origin_realm = b"local.realm"
    return msg


rc = 0
try:
    cer = base(CapabilitiesExchangeRequest(), 1, 1)
    cer.host_ip_address = ["127.0.0.1"]
    cer.vendor_id = 99
    cer.product_name = "demo"
    cer.auth_application_id = [APP_DIAMETER_CREDIT_CONTROL_APPLICATION]
    conn.add_in_bytes(cer.as_bytes())
    if not wait_for(lambda: conn.state == PEER_READY and len(sent_messages()) == 1):
        print("inconclusive: capabilities exchange did not complete")
        rc = 2
    else:
        ccr = base(CreditControlRequest(), 100, 100)
        ccr.header.application_id = APP_DIAMETER_CREDIT_CONTROL_APPLICATION
        ccr.session_id = "peer.local.realm;1;1"
        ccr.destination_realm = b"local.realm"
        ccr.auth_application_id = APP_DIAMETER_CREDIT_CONTROL_APPLICATION
        ccr.service_context_id = "demo@local.realm"
        ccr.cc_request_type = E_CC_REQUEST_TYPE_EVENT_REQUEST
        ccr.cc_request_number = 0
        conn.add_in_bytes(ccr.as_bytes())

        wait_for(lambda: len(sent_messages()) >= 2 and not conn.has_queued_messages)
        time.sleep(1.0)     # room for a possible second answer
        msgs = sent_messages()
        print("messages written to the connection:")
        for m in msgs:
            print(f"   cmd={m.header.command_code} request={m.header.is_request} "
                  f"hbh={m.header.hop_by_hop_identifier} e2e={m.header.end_to_end_identifier} "
                  f"result_code={getattr(m, 'result_code', None)}")
        ccas = [m for m in msgs if m.header.command_code == 272
                and not m.header.is_request and m.header.hop_by_hop_identifier == 100]
        print(f"received: exactly 1 CCR (hop-by-hop 100); transmitted answers for it: "
              f"{len(ccas)} (result codes {[m.result_code for m in ccas]})")
        print("property requires: 'The node never transmits two answers for one request' -> at most 1")
        if len(ccas) > 1:
            print("VIOLATION: two Credit-Control-Answers for one Credit-Control-Request")
            rc = 1
        else:
            print("OK")
finally:
    conn.close(signal_node=False)
    s_node.close()
    s_peer.close()
sys.exit(rc)
