"""
C13 finding 1: a CEA rejection that is followed by the peer closing the socket
can terminate the node's I/O thread (Node._handle_connections); afterwards no
table is ever updated again.

History (2 peers, 1 application):
  1. peer B connects, CER/CEA succeeds -> B ready, application ready
  2. node dials persistent peer A; A answers the CER with CEA 5010 and closes
     its socket (what every real peer does after rejecting a CER)
       - reader thread of A's connection: receive_cea -> close_connection_socket
       - node thread: recv() == b"" -> close_connection_socket
     Both threads close the same connection.  Schedule shown here: the node
     thread has fetched the socket from peer_sockets and is preempted before
     setsockopt(); the reader thread runs its close completely; the node
     thread continues -> setsockopt() on a closed socket -> OSError(EBADF),
     which nothing in _handle_connections catches: the thread ends.
     (The same happens without any help within a few hundred to a few thousand
     rejected dials, see finding.json; the two events below only pin the
     schedule, every thread executes its own unmodified code in order.)
  3. peer B goes away (closes its socket)

Property: B's connection must leave all tables, its socket must be closed,
Peer(B).connection must be None with disconnect reason/time set, and the
application must report not ready.  Observed: nothing happens any more.
"""
import logging
import os
import socket
import sys
import threading
import time

logging.disable(logging.CRITICAL)

node_in_close = threading.Event()
reader_done = threading.Event()
armed = {"thread": None}


class HookSocket(socket.socket):
    """socket.socket with a schedule point in front of setsockopt(SO_LINGER)"""
    def setsockopt(self, level, optname, *a):
        if (optname == socket.SO_LINGER and
                threading.current_thread() is armed["thread"] and
                not node_in_close.is_set()):
            # node thread is inside close_connection_socket, after
            # `peer_socket = self.peer_sockets.get(conn.ident)`
            node_in_close.set()
            reader_done.wait(10)
        return super().setsockopt(level, optname, *a)


socket.socket = HookSocket

from diameter.message import Message
from diameter.message.commands import CapabilitiesExchangeRequest
from diameter.node import Node
from diameter.node.application import SimpleThreadingApplication
from diameter.node.peer import PEER_READY_STATES
import diameter.node.node as nn


def free_port():
    s = socket.socket()
    s.bind(("127.0.0.1", 0))
    p = s.getsockname()[1]
    s.close()
    return p


def recv_msg(sock):
    sock.settimeout(5)
    buf = b""
    while len(buf) < 20 or len(buf) < int.from_bytes(buf[1:4], "big"):
        d = sock.recv(4096)
        if not d:
            return None
        buf += d
    return Message.from_bytes(buf[:int.from_bytes(buf[1:4], "big")])


died = []
threading.excepthook = lambda a: died.append(
    f"{a.thread.name}: {a.exc_value!r}")

node_port, a_port = free_port(), free_port()
a_srv = socket.socket()
a_srv.setsockopt(socket.SOL_SOCKET, socket.SO_REUSEADDR, 1)
a_srv.bind(("127.0.0.1", a_port))
a_srv.listen(5)
a_srv.settimeout(5)

node = Node("node.realm", "realm", ip_addresses=["127.0.0.1"],
            tcp_port=node_port)
node.wakeup_interval = 0.2
pa = node.add_peer(f"aaa://pa.realm:{a_port}", "realm",
                   ip_addresses=["127.0.0.1"], is_persistent=True)
pa.reconnect_wait = 1
pb = node.add_peer("aaa://pb.realm", "realm")
app = SimpleThreadingApplication(4, is_auth_application=True)
node.add_application(app, [pa, pb])

# schedule point 2: the reader thread handles the CEA once the node thread has
# noticed that the peer closed the socket
orig_receive_cea = node.receive_cea


def receive_cea(conn, message):
    node_in_close.wait(10)
    try:
        orig_receive_cea(conn, message)
    finally:
        reader_done.set()


node.receive_cea = receive_cea
armed["thread"] = node._connection_thread
node.start()

# -- peer A: accept the dial, reject the CER, close -------------------------
a_sock, _ = a_srv.accept()
cer = recv_msg(a_sock)
cea = cer.to_answer()
cea.origin_host = b"pa.realm"
cea.origin_realm = b"realm"
cea.result_code = 5010
cea.host_ip_address = "127.0.0.1"
cea.vendor_id = 1
cea.product_name = "A"

# -- peer B: connect and complete CER/CEA first ------------------------------
b_sock = socket.create_connection(("127.0.0.1", node_port))
b_cer = CapabilitiesExchangeRequest()
b_cer.header.hop_by_hop_identifier = 1
b_cer.header.end_to_end_identifier = 1
b_cer.origin_host = b"pb.realm"
b_cer.origin_realm = b"realm"
b_cer.host_ip_address = "127.0.0.1"
b_cer.vendor_id = 1
b_cer.product_name = "B"
b_cer.auth_application_id = [4]
b_sock.sendall(b_cer.as_bytes())
b_cea = recv_msg(b_sock)
time.sleep(0.3)
print(f"step 1: B got CEA {b_cea.result_code}; Peer(B).connection state="
      f"{nn.state_names[pb.connection.state]}, app ready="
      f"{app.is_ready.is_set()}")

a_sock.sendall(cea.as_bytes())
a_sock.close()
reader_done.wait(10)
time.sleep(1.0)
print(f"step 2: A rejected the CER with 5010 and closed its socket; "
      f"Peer(A).connection={pa.connection}, reason="
      f"{pa.disconnect_reason and hex(pa.disconnect_reason)}")
print(f"        node I/O thread alive: {node._connection_thread.is_alive()}"
      f"   uncaught: {died}")

# -- peer B goes away ----------------------------------------------------------
b_conn = pb.connection
b_node_socket = node.peer_sockets.get(b_conn.ident) if b_conn else None
b_sock.close()
time.sleep(2.0)       # ten wakeup intervals

problems = []
if not node._connection_thread.is_alive():
    problems.append("the node's connection thread has terminated")
if pb.connection is not None:
    problems.append(
        f"Peer(B).connection still references {pb.connection} "
        f"(state {nn.state_names[pb.connection.state]}) although B is gone")
if b_conn is not None and b_conn.ident in node.connections:
    problems.append("B's connection is still in Node.connections")
if b_conn is not None and b_conn.ident in node.peer_sockets:
    problems.append("B's socket is still in Node.peer_sockets")
if b_node_socket is not None and b_node_socket.fileno() != -1:
    problems.append("B's socket has not been closed by the node")
if pb.disconnect_reason is None or not pb.last_disconnect:
    problems.append("Peer(B) disconnect reason / time not set")
if app.is_ready.is_set():
    problems.append("application still reports ready with no peer connected")
time.sleep(1.5)
if pa.connection is None and not any(
        c.node_name == "pa.realm" for c in node.connections.values()):
    try:
        a_srv.settimeout(0.5)
        a_srv.accept()
    except socket.timeout:
        problems.append("persistent peer A is not dialled again "
                        "(reconnect_wait=1s)")

print("step 3: B closed its socket; 2 s later:")
print(f"        Node.connections={list(node.connections)} "
      f"Node.peer_sockets={list(node.peer_sockets)}")
print(f"        Peer(B).connection={pb.connection} disconnect_reason="
      f"{pb.disconnect_reason} last_disconnect={pb.last_disconnect}")
print(f"        app.is_ready={app.is_ready.is_set()}")
print("required: a closed connection is in none of the tables, its socket is "
      "closed, Peer.connection is None with reason/time set, and the "
      "application reports not ready once no configured peer has a connection")

# cleanup so that the process ends
for c in list(node.connections.values()):
    c.close(signal_node=False)
for s in list(node.peer_sockets.values()):
    try:
        s.close()
    except OSError:
        pass
node._connection_thread.stop()
node._stat_collect_thread.stop()
app.stop()

if problems:
    print("VIOLATION:")
    for p in problems:
        print("  -", p)
    sys.stdout.flush()
    os._exit(1)
print("OK: no violation")
sys.stdout.flush()
os._exit(0)
