"""C12 / finding 1

A persistent peer answers the node's CER with a rejecting CEA and closes the
socket straight away (what every server does that rejects a peer - this
library included). The CEA is handled on the connection's reader thread
(receive_cea -> close_connection_socket), the end-of-file is handled on the
node's I/O thread (recv() == b"" -> close_connection_socket). Both run
close_connection_socket() for the same connection without any lock:

    reader thread                      node I/O thread
    -------------                      ---------------
                                       recv() -> b""
    peer_sockets.get(ident) -> sock
    sock.setsockopt(SO_LINGER)
    sock.close()
                                       peer_sockets.get(ident) -> sock
                                       sock.setsockopt(SO_LINGER)  -> EBADF
                                       (nothing catches it: the I/O thread ends)
    remove_peer_connection()

After that nothing calls _reconnect_peers() any more: the persistent peer is
never dialled again, although its reconnect wait elapses many times over.

The schedule above is forced with an instrumented socket class (it only delays
the return of one recv() and of one close(); it changes no result).

exit 1 = violation observed, exit 0 = peer was dialled again
"""
import socket
import sys
import threading
import time

from diameter.message import Message, constants
from diameter.node import Node

HOST = "127.0.0.1"
dead_threads = []
_orig_hook = threading.excepthook


def hook(args):
    dead_threads.append((args.thread.name, repr(args.exc_value)))
    print(f"   thread {args.thread.name!r} ended with {args.exc_value!r}")


threading.excepthook = hook

# ---------------------------------------------------------------- fake peer
listener = socket.socket(socket.AF_INET, socket.SOCK_STREAM)
listener.setsockopt(socket.SOL_SOCKET, socket.SO_REUSEADDR, 1)
listener.bind((HOST, 0))
listener.listen(8)
PORT = listener.getsockname()[1]
dial_times = []
stop_server = threading.Event()


def read_msg(s):
    buf = b""
    while len(buf) < 20 or len(buf) < int.from_bytes(buf[1:4], "big"):
        chunk = s.recv(4096)
        if not chunk:
            return None
        buf += chunk
    return buf


def server():
    listener.settimeout(0.2)
    while not stop_server.is_set():
        try:
            c, _ = listener.accept()
        except socket.timeout:
            continue
        except OSError:
            return
        dial_times.append(time.time())
        c.settimeout(5)
        try:
            raw = read_msg(c)
            if raw:
                cer = Message.from_bytes(raw)
                cea = cer.to_answer()
                cea.origin_host = b"peer.example.net"
                cea.origin_realm = b"example.net"
                # "go away": any result code other than 2001
                cea.result_code = constants.E_RESULT_CODE_DIAMETER_UNKNOWN_PEER
                cea.host_ip_address = [HOST]
                cea.vendor_id = 1
                cea.product_name = "fake"
                c.sendall(cea.as_bytes())
        except Exception as e:
            print("   server:", e)
        # ... and hang up at once
        c.close()


srv = threading.Thread(target=server, daemon=True)
srv.start()

# ------------------------------------------------- schedule-forcing socket
RealSocket = socket.socket
node_thread = None
node_got_eof = threading.Event()
reader_closed = threading.Event()
node_went_on = threading.Event()
armed = {"recv": True, "close": True}


class SchedSocket(RealSocket):
    def recv(self, *a):
        data = super().recv(*a)
        if (data == b"" and armed["recv"]
                and threading.current_thread() is node_thread):
            armed["recv"] = False
            # the node's I/O thread has seen the end of file; before it goes
            # on, the reader thread (already busy with the CEA) gets the CPU
            node_got_eof.set()
            reader_closed.wait(10)
            threading.Timer(1.0, node_went_on.set).start()
        return data

    def close(self):
        me = threading.current_thread()
        if (armed["close"] and getattr(self, "_is_dial", False)
                and me is not node_thread and me is not srv
                and me is not threading.main_thread()):
            # = the connection's reader thread, in close_connection_socket()
            armed["close"] = False
            node_got_eof.wait(10)
            super().close()
            reader_closed.set()
            # the reader thread is descheduled here, between close() and
            # remove_peer_connection()
            node_went_on.wait(5)
            return
        super().close()

    def connect(self, addr):
        self._is_dial = True
        return super().connect(addr)


socket.socket = SchedSocket

# -------------------------------------------------------------------- node
node = Node("node.example.net", "example.net")
node.wakeup_interval = 1
peer = node.add_peer(f"aaa://peer.example.net:{PORT}", "example.net",
                     ip_addresses=[HOST], is_persistent=True)
peer.reconnect_wait = 1

node_thread = node._connection_thread
node.start()

# several reconnect cycles
deadline = time.time() + 12
while time.time() < deadline and len(dial_times) < 3:
    time.sleep(0.2)

alive = node._connection_thread.is_alive()
t0 = dial_times[0] if dial_times else None
print(f"observed: connect() calls that reached the peer: {len(dial_times)} "
      f"(at {[round(t - t0, 1) for t in dial_times]} s)")
print(f"observed: node I/O thread alive: {alive}; peer.connection="
      f"{peer.connection}; disconnect_reason={peer.disconnect_reason}; "
      f"persistent={peer.persistent}; reconnect_wait={peer.reconnect_wait}; "
      f"node stopping={node._stopping}")
print("required: a persistent peer whose connection is lost (CEA rejected / "
      "peer gone) is dialled again once its reconnect wait (1 s) has "
      "elapsed; it was not lost after a DPR, the node is not stopping and "
      "the peer has no connection")

violation = len(dial_times) < 2 or not alive

# tidy up
stop_server.set()
socket.socket = RealSocket
try:
    if alive:
        node.stop(wait_timeout=2, force=True)
    else:
        node._stopping = True
        node._stat_collect_thread.stop()
        for c in list(node.connections.values()):
            c.close(signal_node=False)
except Exception as e:
    print("cleanup:", e)
listener.close()

if violation:
    print("VIOLATION: the node's only I/O thread was ended by EBADF in "
          "close_connection_socket; the persistent peer is never dialled "
          "again")
    sys.stdout.flush()
    import os
    os._exit(1)
print("ok: peer was dialled again")
import os
sys.stdout.flush()
os._exit(0)
