"""C10 / finding 1: a request built the documented way for a command without
attribute access (UndefinedMessage subclass / base Message, AVPs assigned through
`.avps = [...]`) is routed by the LOCAL realm although it carries a
Destination-Realm AVP of another realm: it is written to a peer that is not
configured for the destination realm."""
import socket
import sys
import time

from diameter.message import Message, Avp
from diameter.message.constants import *
from diameter.message.commands import (CapabilitiesExchangeRequest,
                                       ProvideLocation, CreditControlRequest)
from diameter.node import Node
from diameter.node.node import NotRoutable
from diameter.node.application import SimpleThreadingApplication
from diameter.node.peer import (PeerConnection, PEER_RECV, PEER_CONNECTED,
                                PEER_READY, PEER_TRANSPORT_TCP)

APP_ID = APP_3GPP_SLG if "APP_3GPP_SLG" in globals() else 16777255

socks = []
conns = []
sent = []   # (peer name, message)


def connect_peer(node, host, realm):
    """An inbound connection of `host` that completes CER/CEA (no real I/O:
    the node is not started, bytes are handed to the connection directly)."""
    a, b = socket.socketpair()
    socks.extend([a, b])
    conn = PeerConnection("127.0.0.1", 3868, PEER_RECV,
                          interrupt_fileno=node.interrupt_write)
    conn.state = PEER_CONNECTED
    node._add_peer_connection(conn, a, PEER_TRANSPORT_TCP)
    conns.append(conn)
    orig = conn.add_out_msg

    def recorder(msg, _orig=orig, _host=host):
        sent.append((_host, msg))
        _orig(msg)
    conn.add_out_msg = recorder

    cer = CapabilitiesExchangeRequest()
    cer.header.hop_by_hop_identifier = 1
    cer.header.end_to_end_identifier = 1
    cer.origin_host = host.encode()
    cer.origin_realm = realm.encode()
    cer.host_ip_address = ["127.0.0.1"]
    cer.vendor_id = 99
    cer.product_name = "demo"
    cer.auth_application_id = [APP_ID, APP_DIAMETER_CREDIT_CONTROL_APPLICATION]
    conn.add_in_bytes(cer.as_bytes())
    deadline = time.time() + 5
    while conn.state != PEER_READY and time.time() < deadline:
        time.sleep(0.01)
    assert conn.state == PEER_READY, "CER/CEA did not complete"
    return conn


node = Node("node.realm1", "realm1")
p1 = node.add_peer("aaa://p1.realm1", "realm1")
p2 = node.add_peer("aaa://p2.realm2", "realm2")
app = SimpleThreadingApplication(APP_ID, is_auth_application=True)
node.add_application(app, [p1, p2])

c1 = connect_peer(node, "p1.realm1", "realm1")
c2 = connect_peer(node, "p2.realm2", "realm2")
assert p1.connection is c1 and p2.connection is c2
del sent[:]

failed = False


def try_send(msg, label):
    del sent[:]
    try:
        app.send_request(msg, timeout=0.2)
    except TimeoutError:
        outcome = "sent (no answer, timed out as expected in this demo)"
    except NotRoutable as e:
        outcome = f"NotRoutable: {e}"
    targets = [h for h, m in sent if m.header.is_request]
    print(f"{label}: {outcome}; written to: {targets}")
    return targets


# -- control: a typed request with destination_realm=realm2 goes to p2 only
ccr = CreditControlRequest()
ccr.session_id = "s;1"
ccr.origin_host = b"node.realm1"
ccr.origin_realm = b"realm1"
ccr.destination_realm = b"realm2"
ccr.auth_application_id = APP_ID
ccr.service_context_id = "x"
ccr.cc_request_type = 1
ccr.cc_request_number = 0
t = try_send(ccr, "control (typed CCR, Destination-Realm realm2)")
assert t == ["p2.realm2"], t

# -- 1a: Provide-Location-Request (no python implementation), built as shown
#        in docs/guide/message.md ("AVPs must be created manually and added to
#        the command": msg.avps = [...])
plr = ProvideLocation()
plr.header.is_request = True
plr.header.is_proxyable = True
plr.avps = [
    Avp.new(AVP_SESSION_ID, value="node.realm1;1;1"),
    Avp.new(AVP_AUTH_SESSION_STATE, value=1),
    Avp.new(AVP_ORIGIN_HOST, value=b"node.realm1"),
    Avp.new(AVP_ORIGIN_REALM, value=b"realm1"),
    Avp.new(AVP_DESTINATION_REALM, value=b"realm2"),
]
t1 = try_send(plr, "1a (Provide-Location-Request, Destination-Realm realm2, p1+p2 ready)")
if t1 != ["p2.realm2"]:
    failed = True
    print("   VIOLATION: the request carries Destination-Realm 'realm2' but was "
          "written to a peer configured for realm 'realm1' only")

# -- 1b: the only peer of realm2 is not ready any more -> NotRoutable expected
c2.close(signal_node=False)
node.remove_peer_connection(c2)
assert p2.connection is None
msg = Message()
msg.header.command_code = 8388620
msg.header.is_request = True
msg.avps = [
    Avp.new(AVP_SESSION_ID, value="node.realm1;1;2"),
    Avp.new(AVP_ORIGIN_HOST, value=b"node.realm1"),
    Avp.new(AVP_ORIGIN_REALM, value=b"realm1"),
    Avp.new(AVP_DESTINATION_REALM, value=b"realm2"),
]
t2 = try_send(msg, "1b (base Message, Destination-Realm realm2, realm2 peer down)")
if t2:
    failed = True
    print("   VIOLATION: no ready peer is configured for realm2; the property "
          "requires NotRoutable and nothing sent, but the request was written "
          f"to {t2}")

for c in conns:
    c.close(signal_node=False)
for s in socks:
    s.close()
app.stop()

print()
print("required: 'sent only to a peer that is configured for that application "
      "and destination realm ... when none exists the not-routable error is "
      "raised and nothing is sent'")
sys.exit(1 if failed else 0)
