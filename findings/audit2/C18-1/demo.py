"""C18 / finding 1

A connection that is still waiting for its capabilities exchange when
Node.stop() is called (here: an inbound connection of a configured peer whose
CER has not arrived yet) is neither closed nor refused: while the node is
stopping the CER is answered with CEA 2001, the connection becomes READY, the
application is flagged ready and the peer's requests are served.  The peer
that became ready during the shutdown never receives a DPR; stop() sits out
the complete wait timeout and the connection is then reset.

exit 1 = violation observed, exit 0 = behaviour as required by the property
"""
import logging
import socket
import sys
import threading
import time

from diameter.message import Message, constants
from diameter.message.commands import (CapabilitiesExchangeRequest,
                                       CreditControlRequest)
from diameter.node import Node
from diameter.node.application import SimpleThreadingApplication
from diameter.node.peer import PEER_CONNECTED, PEER_READY

logging.basicConfig(level=logging.CRITICAL)

WAIT_TIMEOUT = 6
PEER = "peer1.example.net"


def free_port():
    s = socket.socket()
    s.bind(("127.0.0.1", 0))
    p = s.getsockname()[1]
    s.close()
    return p


class FakePeer:
    def __init__(self, port):
        self.s = socket.create_connection(("127.0.0.1", port))
        self.buf = b""

    def send(self, m):
        self.s.sendall(m.as_bytes())

    def recv_msg(self, timeout):
        """Message, None (nothing within timeout), 'EOF' or 'RST'"""
        end = time.time() + timeout
        while True:
            if len(self.buf) >= 20:
                ln = int.from_bytes(self.buf[1:4], "big")
                if len(self.buf) >= ln:
                    raw, self.buf = self.buf[:ln], self.buf[ln:]
                    return Message.from_bytes(raw)
            left = end - time.time()
            if left <= 0:
                return None
            self.s.settimeout(left)
            try:
                d = self.s.recv(4096)
            except socket.timeout:
                return None
            except ConnectionResetError:
                return "RST"
            if not d:
                return "EOF"
            self.buf += d


port = free_port()
node = Node("node.example.net", "example.net",
            ip_addresses=["127.0.0.1"], tcp_port=port)
node.wakeup_interval = 1
peer = node.add_peer(f"aaa://{PEER}", "example.net")
app = SimpleThreadingApplication(
    constants.APP_DIAMETER_CREDIT_CONTROL_APPLICATION,
    is_auth_application=True,
    request_handler=lambda a, m: a.generate_answer(m, result_code=2001))
node.add_application(app, [peer])
node.start()

# the transport connection exists before stop() is called; the CER is late
p = FakePeer(port)
deadline = time.time() + 5
while time.time() < deadline and not node.connections:
    time.sleep(0.05)
conn = list(node.connections.values())[0]
assert conn.state == PEER_CONNECTED, conn.state
print(f"before stop(): 1 connection, state CONNECTED (awaiting CER)")

t0 = time.time()
stopper = threading.Thread(
    target=node.stop, kwargs={"wait_timeout": WAIT_TIMEOUT})
stopper.start()
limit = time.time() + 3
while not node._stopping and time.time() < limit:
    time.sleep(0.01)
time.sleep(0.5)
print(f"t={time.time()-t0:4.1f}s node is stopping, peer now sends its CER")

cer = CapabilitiesExchangeRequest()
cer.header.hop_by_hop_identifier = 1
cer.header.end_to_end_identifier = 1
cer.origin_host = PEER.encode()
cer.origin_realm = b"example.net"
cer.host_ip_address = ["127.0.0.1"]
cer.vendor_id = 1
cer.product_name = "fake"
cer.auth_application_id = [constants.APP_DIAMETER_CREDIT_CONTROL_APPLICATION]
try:
    p.send(cer)
    cea = p.recv_msg(3)
except OSError as e:
    cea = f"connection closed by the node ({e})"
cea_rc = getattr(cea, "result_code", None) if isinstance(cea, Message) else cea
print(f"t={time.time()-t0:4.1f}s answer to the CER while stopping: "
      f"{cea if not isinstance(cea, Message) else 'CEA result-code ' + str(cea_rc)}")
served_cea = isinstance(cea, Message) and cea_rc == 2001
became_ready = conn.state == PEER_READY
app_ready = app.is_ready.is_set()
print(f"           connection state READY: {became_ready}, "
      f"application flagged ready: {app_ready}")

cca_rc = None
if served_cea:
    ccr = CreditControlRequest()
    ccr.header.application_id = constants.APP_DIAMETER_CREDIT_CONTROL_APPLICATION
    ccr.header.hop_by_hop_identifier = 2
    ccr.header.end_to_end_identifier = 2
    ccr.session_id = f"{PEER};1;1"
    ccr.origin_host = PEER.encode()
    ccr.origin_realm = b"example.net"
    ccr.destination_realm = b"example.net"
    ccr.auth_application_id = constants.APP_DIAMETER_CREDIT_CONTROL_APPLICATION
    ccr.service_context_id = "ctx"
    ccr.cc_request_type = constants.E_CC_REQUEST_TYPE_EVENT_REQUEST
    ccr.cc_request_number = 0
    p.send(ccr)
    cca = p.recv_msg(3)
    if isinstance(cca, Message):
        cca_rc = getattr(cca, "result_code", None)
    print(f"t={time.time()-t0:4.1f}s CCR sent while stopping is answered: "
          f"{cca}, result-code {cca_rc}")

got_dpr = False
end_event = None
while True:
    m = p.recv_msg(WAIT_TIMEOUT + 10)
    if isinstance(m, Message):
        print(f"t={time.time()-t0:4.1f}s received {m}")
        if (m.header.command_code == constants.CMD_DISCONNECT_PEER and
                m.header.is_request):
            got_dpr = True
            a = m.to_answer()
            a.origin_host = PEER.encode()
            a.origin_realm = b"example.net"
            a.result_code = 2001
            p.send(a)
        continue
    end_event = m
    break
t_closed = time.time() - t0
print(f"t={t_closed:4.1f}s connection ended with {end_event}; "
      f"DPR received by the peer that became ready: {got_dpr}")
stopper.join(30)
print(f"t={time.time()-t0:4.1f}s stop() returned")
p.s.close()

print()
print("property C18: 'Stopping the node sends a DPR with cause REBOOTING to "
      "every ready peer, closes each connection once its DPA has arrived ... "
      "closes connections that arrive meanwhile without serving them, and "
      "... dials no peers while stopping'")
violation = served_cea and not got_dpr
if violation:
    print(f"OBSERVED : while stopping, the late CER was answered with 2001, "
          f"the connection became READY (app ready={app_ready}), a CCR was "
          f"served (result {cca_rc}); the now ready peer got NO DPR, stop() "
          f"waited the whole wait_timeout ({WAIT_TIMEOUT}s) and the "
          f"connection was ended by {end_event} after {t_closed:.1f}s")
    print("REQUIRED : a stopping node does not take new peers into service; "
          "the connection is closed without being served, or - if it is "
          "allowed to become ready - it gets its DPR and is closed after "
          "the DPA")
    sys.exit(1)
print("no violation: the late capabilities exchange was not served, or the "
      "peer received its DPR")
sys.exit(0)
