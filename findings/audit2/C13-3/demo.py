"""
C13 finding 3: a configured peer whose CER is rejected with
DIAMETER_NO_COMMON_APPLICATION (5010) keeps a live, registered connection that
Peer.connection does not reference.

History (1 peer, 1 application):
  1. configured peer B connects and sends a CER that shares no application
     with the node -> CEA 5010
Unlike the other rejections in receive_cer (unknown peer 3010, election lost
4003: state CLOSING, socket closed as soon as the CEA is written), the 5010
branch just returns.  The connection has been named after the peer
(conn.node_name = "pb.realm"), stays in Node.connections / peer_sockets /
socket_peers / _half_ready_connections in state CONNECTED with its socket
open, and only the CER timer (cer_timeout, per-peer configurable) removes it.

Property: "a peer's connection attribute references a live connection of that
peer exactly when one exists".  Observed at the quiescent point after the
CER/CEA step: a live connection of peer B exists, Peer(B).connection is None.
"""
import logging
import socket
import sys
import time

logging.disable(logging.CRITICAL)

from diameter.message import Message
from diameter.message.commands import CapabilitiesExchangeRequest
from diameter.node import Node
from diameter.node.application import SimpleThreadingApplication
from diameter.node.peer import PEER_CLOSED
import diameter.node.node as nn


def free_port():
    s = socket.socket()
    s.bind(("127.0.0.1", 0))
    p = s.getsockname()[1]
    s.close()
    return p


def recv_msg(sock):
    sock.settimeout(5)
    buf = b""
    while len(buf) < 20 or len(buf) < int.from_bytes(buf[1:4], "big"):
        d = sock.recv(4096)
        if not d:
            return None
        buf += d
    return Message.from_bytes(buf[:int.from_bytes(buf[1:4], "big")])


port = free_port()
node = Node("node.realm", "realm", ip_addresses=["127.0.0.1"], tcp_port=port)
node.wakeup_interval = 0.2
pb = node.add_peer("aaa://pb.realm", "realm")
pb.cer_timeout = 30
app = SimpleThreadingApplication(4, is_auth_application=True)
node.add_application(app, [pb])
node.start()

b_sock = socket.create_connection(("127.0.0.1", port))
cer = CapabilitiesExchangeRequest()
cer.header.hop_by_hop_identifier = 1
cer.header.end_to_end_identifier = 1
cer.origin_host = b"pb.realm"
cer.origin_realm = b"realm"
cer.host_ip_address = "127.0.0.1"
cer.vendor_id = 1
cer.product_name = "B"
cer.auth_application_id = [16777251]          # S6a, the node only has 4
b_sock.sendall(cer.as_bytes())
cea = recv_msg(b_sock)
print(f"B got CEA {cea.result_code}")

time.sleep(3.0)          # 15 wakeup intervals, nothing else is going to happen
b_sock.settimeout(0.2)
try:
    closed_by_node = b_sock.recv(1) == b""
except socket.timeout:
    closed_by_node = False
except OSError:
    closed_by_node = True

live = [c for c in node.connections.values()
        if c.node_name == pb.node_name and c.state != PEER_CLOSED]
print(f"3 s later: socket closed by the node: {closed_by_node}")
print(f"  Node.connections: "
      f"{[(c.ident, c.node_name, nn.state_names[c.state]) for c in node.connections.values()]}")
print(f"  Node.peer_sockets: {list(node.peer_sockets)}  "
      f"_half_ready_connections: {list(node._half_ready_connections)}")
print(f"  Peer(B).connection = {pb.connection}")
print("required: a peer's connection attribute references a live connection "
      "of that peer exactly when one exists (so either the rejected "
      "connection is closed and removed, as for 3010/4003, or it is the "
      "peer's connection)")

violation = bool(live) and pb.connection is None
b_sock.close()
node.stop(force=True)
if violation:
    print(f"VIOLATION: live connection {live[0]} of peer B exists in all "
          f"tables, Peer(B).connection is None")
    sys.exit(1)
print("OK: no violation")
sys.exit(0)
