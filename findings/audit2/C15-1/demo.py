"""
C15 / finding 1: a message that is already queued (and even already in the write
buffer) is never handed to the transport, because the I/O loop decides that a
PEER_CLOSING connection has "nothing left to write" with two unsynchronised reads
in the wrong order:

    node.py, interrupt branch of Node._handle_connections
        elif (len(conn.write_buffer) == 0 and          # (1) read the buffer
                not conn.has_queued_messages and       # (2) read the task counter
                conn.state == PEER_CLOSING):
            self.close_connection_socket(...)

The connection's writer does   buffer += bytes   and then   task_done().
If both writer steps run between (1) and (2), the loop sees "buffer empty" (stale)
and "no queued messages" (fresh) and resets the socket while the encoded message
sits in the write buffer.

Scenario (the one named in the repair commit 1ea6b29): a READY peer sends a DWR
immediately followed by a DPA.  The DWA is queued before the DPA is even looked
at, so the property demands that its bytes reach the transport.

The schedule is forced with sys.settrace line hooks only (pure delays of two
threads at source-line boundaries, no library code or state is altered):
  * writer thread is held in front of `with self.write_lock:` until the I/O loop
    has evaluated (1);
  * the I/O loop is held in front of (2) until the writer has done task_done().

exit 1: DWA never written to the socket (violation) / exit 0: DWA delivered.
"""
import os
import socket
import sys
import threading
import time

from diameter.message import Message
from diameter.message.commands import (CapabilitiesExchangeRequest,
                                       DeviceWatchdogRequest,
                                       DisconnectPeerAnswer)
from diameter.message.constants import *
from diameter.node import Node
from diameter.node.application import SimpleThreadingApplication
from diameter.node import node as node_mod, peer as peer_mod
from diameter.node.peer import PEER_CLOSING


def find_line(path, needle, occurrence=1):
    n = 0
    with open(path) as f:
        for i, line in enumerate(f, 1):
            if needle in line:
                n += 1
                if n == occurrence:
                    return i
    return None


NODE_FILE = node_mod.__file__
PEER_FILE = peer_mod.__file__
# first occurrence = the interrupt branch
IO_LINE = find_line(NODE_FILE, "not conn.has_queued_messages and", 1)
WR_LINE = find_line(PEER_FILE, "with self.write_lock:", 1)

armed = threading.Event()
io_after_buffer_check = threading.Event()
log = []


def local_trace(frame, event, arg):
    if event == "line" and armed.is_set():
        code = frame.f_code
        if (code.co_name == "work_write_queue" and frame.f_lineno == WR_LINE
                and not io_after_buffer_check.is_set()):
            msg = frame.f_locals.get("new_msg")
            if msg is not None and msg.header.command_code == 280:
                log.append("writer: holds the DWA in front of the write lock")
                io_after_buffer_check.wait(5)
                log.append("writer: released, appends DWA + task_done()")
        elif (code.co_name == "_handle_connections"
              and frame.f_lineno == IO_LINE
              and not io_after_buffer_check.is_set()):
            conn = frame.f_locals.get("conn")
            if conn is not None and conn.state == PEER_CLOSING:
                log.append(
                    f"I/O loop: len(write_buffer)==0 evaluated True "
                    f"(buffer {len(conn.write_buffer)} bytes, "
                    f"has_queued_messages={conn.has_queued_messages}); "
                    f"preempted before reading has_queued_messages")
                io_after_buffer_check.set()
                deadline = time.time() + 5
                while conn.has_queued_messages and time.time() < deadline:
                    time.sleep(0.001)
                log.append(
                    f"I/O loop: resumes (buffer now {len(conn.write_buffer)} "
                    f"bytes, has_queued_messages={conn.has_queued_messages})")
    return local_trace


def global_trace(frame, event, arg):
    if event == "call" and frame.f_code.co_name in (
            "work_write_queue", "_handle_connections"):
        return local_trace
    return None


def free_port():
    s = socket.socket()
    s.bind(("127.0.0.1", 0))
    p = s.getsockname()[1]
    s.close()
    return p


def read_frames(sock, want, timeout=8):
    """read from the socket until `want` complete diameter frames or EOF/RST"""
    buf = b""
    frames = []
    sock.settimeout(timeout)
    closed = None
    while len(frames) < want:
        try:
            data = sock.recv(65536)
        except socket.timeout:
            closed = "timeout"
            break
        except OSError as e:
            closed = f"reset ({e.__class__.__name__})"
            break
        if not data:
            closed = "EOF"
            break
        buf += data
        while len(buf) >= 20:
            ln = int.from_bytes(buf[1:4], "big")
            if len(buf) < ln:
                break
            frames.append(Message.from_bytes(buf[:ln]))
            buf = buf[ln:]
    return frames, closed


def run(force_schedule: bool):
    armed.clear()
    io_after_buffer_check.clear()
    log.clear()

    port = free_port()
    node = Node("server.example.org", "example.org",
                ip_addresses=["127.0.0.1"], tcp_port=port)
    node.idle_timeout = 600
    peer = node.add_peer("aaa://client.example.org", "example.org")
    app = SimpleThreadingApplication(
        APP_DIAMETER_CREDIT_CONTROL_APPLICATION, is_auth_application=True)
    node.add_application(app, [peer])
    node.start()
    try:
        c = socket.create_connection(("127.0.0.1", port))
        cer = CapabilitiesExchangeRequest()
        cer.header.hop_by_hop_identifier = 1
        cer.header.end_to_end_identifier = 1
        cer.origin_host = b"client.example.org"
        cer.origin_realm = b"example.org"
        cer.host_ip_address = "127.0.0.1"
        cer.vendor_id = 99999
        cer.product_name = "demo"
        cer.auth_application_id = [APP_DIAMETER_CREDIT_CONTROL_APPLICATION]
        c.sendall(cer.as_bytes())
        frames, closed = read_frames(c, 1)
        assert frames and frames[0].header.command_code == 257 \
            and frames[0].result_code == 2001, "capabilities exchange failed"
        # let the node consume the CEA's wake-up so that the next interrupt
        # it reads is the one sent by receive_dpa
        time.sleep(0.5)

        dwr = DeviceWatchdogRequest()
        dwr.header.hop_by_hop_identifier = 2
        dwr.header.end_to_end_identifier = 2
        dwr.origin_host = b"client.example.org"
        dwr.origin_realm = b"example.org"

        dpa = DisconnectPeerAnswer()
        dpa.header.hop_by_hop_identifier = 3
        dpa.header.end_to_end_identifier = 3
        dpa.origin_host = b"client.example.org"
        dpa.origin_realm = b"example.org"
        dpa.result_code = 2001

        if force_schedule:
            armed.set()
        # DWR immediately followed by DPA, in one segment
        c.sendall(dwr.as_bytes() + dpa.as_bytes())
        frames, closed = read_frames(c, 1)
        c.close()
        got_dwa = any(f.header.command_code == 280 and not f.header.is_request
                      for f in frames)
        return got_dwa, closed, list(log)
    finally:
        armed.clear()
        io_after_buffer_check.set()
        try:
            node.stop(wait_timeout=2, force=True)
        except Exception as e:
            print("node.stop:", e)


def main():
    if IO_LINE is None or WR_LINE is None:
        print("source lines for the schedule not found; running unforced only")
    threading.settrace(global_trace)

    got, closed, _ = run(force_schedule=False)
    print(f"control run (no forced schedule): DWA received={got}, "
          f"connection end={closed}")

    got, closed, steps = run(force_schedule=True)
    print(f"forced schedule (hooks at node.py:{IO_LINE}, peer.py:{WR_LINE}):")
    for s in steps:
        print("   ", s)
    print(f"observed: DWA received by the peer={got}, connection end={closed}")
    print("required: the DWA was queued (add_out_msg) before the DPA was even "
          "dispatched, so its encoding must be handed to the transport exactly "
          "once before the socket is closed")
    if not got:
        print("VIOLATION: the queued DWA was encoded into the write buffer and "
              "then thrown away with the connection")
        return 1
    print("ok: DWA delivered")
    return 0


if __name__ == "__main__":
    rc = main()
    sys.stdout.flush()
    os._exit(rc)
