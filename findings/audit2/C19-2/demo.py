"""C19 / finding 2

Fault: the worker threads of a new PeerConnection cannot be started
("RuntimeError: can't start new thread", i.e. the process is at its thread
limit).  The accept path closes the client socket in that case (repair
d871c24); the DIAL path (Node._connect_to_peer, TCP and SCTP branch alike) has
already created the peer socket, lets the RuntimeError escape and never closes
it: the connection "failed to be established" but its socket is not released
by the library.  Whoever still references the socket object (here: a
bookkeeping list, as any socket-wrapping layer or test double would) sees an
open descriptor per attempt; without such a reference CPython's finaliser
closes it and reports 'ResourceWarning: unclosed <socket ...>'.

exit 1 = sockets of failed dial attempts are left open by the library
exit 0 = every socket created for a failed attempt has been closed
"""
import gc
import logging
import os
import socket
import sys
import threading
import time
import warnings

import diameter.node.node as node_mod
from diameter.node import Node
from diameter.node.application import Application

logging.disable(logging.CRITICAL)
ATTEMPTS = (3, 12)

created = []
real_socket = socket.socket


class TrackedSocket(real_socket):
    def __init__(self, *a, **kw):
        super().__init__(*a, **kw)
        created.append(self)


real_start = threading.Thread.start
fault = {"on": False}


def failing_start(self):
    target = getattr(self, "_target", None)
    if fault["on"] and getattr(target, "__name__", "") in (
            "work_read_queue", "work_write_queue"):
        raise RuntimeError("can't start new thread")
    return real_start(self)


class App(Application):
    def handle_request(self, message):
        pass


def open_fds():
    return len(os.listdir("/proc/self/fd"))


def main():
    node = Node("client.realm.net", "realm.net")
    peer = node.add_peer("aaa://server.realm.net:3868", "realm.net",
                         ip_addresses=["127.0.0.1"], is_persistent=True)
    peer.reconnect_wait = 0
    peer.last_disconnect = int(time.time()) - 1   # "has been lost before"
    node.add_application(App(4, is_auth_application=True), [peer])

    threading.Thread.start = failing_start
    socket.socket = TrackedSocket
    fault["on"] = True
    results = []
    try:
        for n in ATTEMPTS:
            before_fds = open_fds()
            before = len(created)
            threads_before = threading.active_count()
            for _ in range(n):
                # what the I/O loop does at the end of every round
                node._reconnect_peers()
            made = created[before:]
            still_open = [s for s in made if s.fileno() != -1]
            results.append((n, len(made), len(still_open),
                            open_fds() - before_fds))
            print(f"{n} dial attempts that failed with \"can't start new "
                  f"thread\": sockets created={len(made)}, still open "
                  f"afterwards={len(still_open)}, process fd growth="
                  f"{open_fds() - before_fds}, node.connections="
                  f"{len(node.connections)}, peer.connection="
                  f"{peer.connection}, live threads "
                  f"{threads_before}->{threading.active_count()}")
    finally:
        fault["on"] = False
        threading.Thread.start = real_start
        socket.socket = real_socket

    # the same without anybody holding the sockets: the interpreter has to
    # clean up after the library
    created.clear()
    gc.collect()
    with warnings.catch_warnings(record=True) as caught:
        warnings.simplefilter("always")
        threading.Thread.start = failing_start
        fault["on"] = True
        try:
            for _ in range(3):
                node._reconnect_peers()
        finally:
            fault["on"] = False
            threading.Thread.start = real_start
        gc.collect()
    unclosed = [w for w in caught if issubclass(w.category, ResourceWarning)
                and "unclosed" in str(w.message)]
    print(f"3 more failed attempts without references: "
          f"{len(unclosed)} ResourceWarning 'unclosed socket' raised by the "
          f"interpreter's finaliser")

    print("property requires: the sockets a connection allocates are released "
          "when the connection fails to be established; open sockets "
          "independent of the number of attempts")
    leaked = sum(r[2] for r in results)
    if leaked or unclosed:
        print(f"VIOLATION: {leaked} sockets of {sum(r[1] for r in results)} "
              f"failed attempts were never closed by the library "
              f"(3 attempts -> {results[0][2]}, 12 attempts -> "
              f"{results[1][2]})")
        code = 1
    else:
        print("OK: every socket was closed")
        code = 0
    for s in list(created):
        s.close()
    sys.stdout.flush()
    os._exit(code)


if __name__ == "__main__":
    main()
