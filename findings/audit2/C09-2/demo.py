"""C09 / finding 2

The requester's connection is lost while Application.send_answer() is inside
Node.route_answer(), after the search of the pending tables has found the
request and before the entry is deleted (`del self._peer_waiting_answer
[waiting_conn_ident][message_id]`).  The node thread's
remove_peer_connection() has dropped the connection's whole table in the
meantime, so the statement raises KeyError(<connection ident>): the
submission does not fail with the not-routable error.

The interleaving is forced with a trace function on the submitting thread: it
stops on the line after the search loop, the client closes its socket, the
node thread (running freely) removes the connection, the submitting thread
continues.  Unmodified library, real sockets.
"""
import linecache
import logging
import socket
import sys
import time

from diameter.message import Message
from diameter.message.commands import (
    CapabilitiesExchangeRequest, CreditControlRequest)
from diameter.node import Node, NotRoutable
from diameter.node import node as node_mod
from diameter.node.application import Application


def free_port():
    s = socket.socket()
    s.bind(("127.0.0.1", 0))
    p = s.getsockname()[1]
    s.close()
    return p


class Client:
    def __init__(self, name, port):
        self.name = name
        self.sock = socket.create_connection(("127.0.0.1", port))
        self.buf = b""

    def send(self, msg):
        self.sock.sendall(msg.as_bytes())

    def recv_msg(self, timeout):
        self.sock.settimeout(timeout)
        try:
            while True:
                if len(self.buf) >= 20:
                    ln = int.from_bytes(self.buf[1:4], "big")
                    if len(self.buf) >= ln:
                        raw, self.buf = self.buf[:ln], self.buf[ln:]
                        return Message.from_bytes(raw)
                d = self.sock.recv(4096)
                if not d:
                    return None
                self.buf += d
        except (socket.timeout, OSError):
            return None

    def cer(self):
        m = CapabilitiesExchangeRequest()
        m.header.hop_by_hop_identifier = 1
        m.header.end_to_end_identifier = 1
        m.origin_host = self.name.encode()
        m.origin_realm = b"realm"
        m.host_ip_address = "127.0.0.1"
        m.vendor_id = 1
        m.product_name = "client"
        m.auth_application_id = [4]
        self.send(m)
        return self.recv_msg(5)

    def ccr(self, hbh, e2e):
        m = CreditControlRequest()
        m.header.application_id = 4
        m.header.hop_by_hop_identifier = hbh
        m.header.end_to_end_identifier = e2e
        m.session_id = "a.realm;1;1"
        m.origin_host = self.name.encode()
        m.origin_realm = b"realm"
        m.destination_realm = b"realm"
        m.auth_application_id = 4
        m.service_context_id = "ctx@realm"
        m.cc_request_type = 1
        m.cc_request_number = 0
        self.send(m)


class App(Application):
    def __init__(self):
        super().__init__(4, is_auth_application=True)
        self.requests = []

    def handle_request(self, message):
        self.requests.append(message)       # answered later


def main():
    logging.disable(logging.CRITICAL)     # keep the output readable
    port = free_port()
    node = Node("srv.realm", "realm", ip_addresses=["127.0.0.1"], tcp_port=port)
    node.wakeup_interval = 1
    pa = node.add_peer("aaa://a.realm")
    app = App()
    node.add_application(app, [pa])
    node.start()
    a = Client("a.realm", port)
    verdict = 0
    state = {"fired": False}

    def connection_lost_now():
        """The fault: the requester's TCP connection goes away."""
        ident = pa.connection.ident
        a.sock.close()
        t0 = time.time()
        while ident in node.connections and time.time() - t0 < 10:
            time.sleep(0.01)
        print(f"connection {ident} lost and removed by the node thread: "
              f"{ident not in node.connections}")

    def local_trace(frame, event, arg):
        if event == "line" and not state["fired"]:
            src = linecache.getline(frame.f_code.co_filename, frame.f_lineno)
            if "if waiting_conn_ident is None" in src:
                state["fired"] = True
                print(f"send_answer -> route_answer: search finished, found "
                      f"the request pending on connection "
                      f"{frame.f_locals.get('waiting_conn_ident')}")
                connection_lost_now()
        return local_trace

    def global_trace(frame, event, arg):
        if (frame.f_code.co_name == "route_answer" and
                frame.f_code.co_filename == node_mod.__file__):
            return local_trace
        return None

    try:
        cea = a.cer()
        assert cea.result_code == 2001, cea
        a.ccr(100, 200)
        t0 = time.time()
        while not app.requests and time.time() - t0 < 5:
            time.sleep(0.01)
        request = app.requests[0]

        answer = app.generate_answer(request, result_code=2001)
        answer.cc_request_type = request.cc_request_type
        answer.cc_request_number = request.cc_request_number

        raised = None
        sys.settrace(global_trace)
        try:
            app.send_answer(answer)
        except BaseException as e:
            raised = e
        finally:
            sys.settrace(None)

        print(f"app.send_answer() raised: {raised!r}")
        if not state["fired"]:
            print("INCONCLUSIVE: route_answer no longer has the search / "
                  "delete sequence this demonstration interleaves")
        elif isinstance(raised, NotRoutable):
            print("OK: the submission failed with the not-routable error")
        else:
            print(f"OBSERVED: the submission for a request whose connection "
                  f"has closed ended with {type(raised).__name__} instead of "
                  f"NotRoutable.")
            print("REQUIRED: 'if that connection has closed or is no longer "
                  "ready the submission fails with the not-routable error'.")
            verdict = 1
    finally:
        sys.settrace(None)
        try:
            a.sock.close()
        except OSError:
            pass
        node.stop(force=True)
    return verdict


if __name__ == "__main__":
    sys.exit(main())
