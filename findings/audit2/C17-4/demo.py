"""C17 / finding 4: in Node._receive_message the validation of mandatory AVPs
runs BEFORE the T-flag check and returns.  A request that the node answered
itself with 5005 (DIAMETER_MISSING_AVP) is remembered in the origin's window
like any other answered request, but its byte-identical retransmission with
the T flag never reaches the duplicate check: it is answered 5005 again
instead of 5012.  (Same for a T-flagged repeat of a request the application
has answered, if the repeat lacks a mandatory AVP.)

Run:  PYTHONPATH=/repo/src /venv/bin/python /repo/_audit/4/demo.py
exit 1 = violation observed, exit 0 = behaves as the property says.
"""
import os
import sys
import traceback

from diameter.message import Message, constants
from diameter.message.commands import (CapabilitiesExchangeRequest,
                                       CreditControlRequest)
from diameter.node import Node
from diameter.node.application import Application
from diameter.node.peer import (PeerConnection, PEER_RECV, PEER_CONNECTED,
                                PEER_READY, PEER_TRANSPORT_TCP)

X = b"client-x.example.com"
CONNS = []


class FakeSock:
    def fileno(self): return 4714
    def close(self): pass
    def setsockopt(self, *a): pass


class App(Application):
    def __init__(self):
        super().__init__(constants.APP_DIAMETER_CREDIT_CONTROL_APPLICATION,
                         is_auth_application=True)
        self.delivered = []

    def handle_request(self, message):
        self.delivered.append(message)


def ccr(hbh, e2e, t=False, complete=True):
    m = CreditControlRequest()
    m.header.application_id = 4
    m.header.hop_by_hop_identifier = hbh
    m.header.end_to_end_identifier = e2e
    m.header.is_retransmit = t
    m.session_id = "client-x.example.com;1;%d" % e2e
    m.origin_host = X
    m.origin_realm = b"example.com"
    m.destination_realm = b"example.com"
    m.auth_application_id = 4
    m.service_context_id = "ctx@example.com"
    m.cc_request_type = constants.E_CC_REQUEST_TYPE_EVENT_REQUEST
    if complete:
        m.cc_request_number = 0          # mandatory in a CCR
    return Message.from_bytes(m.as_bytes())


def main():
    node = Node("srv.example.com", "example.com")
    node.retransmit_queue_size = 4
    assert node.validate_received_request_avps is True       # the default
    peer = node.add_peer("aaa://relay.example.com", "example.com")
    app = App()
    node.add_application(app, [peer])

    conn = PeerConnection("10.0.0.1", 3868, PEER_RECV, node.interrupt_write)
    CONNS.append(conn)
    conn.state = PEER_CONNECTED
    node._add_peer_connection(conn, FakeSock(), PEER_TRANSPORT_TCP)
    wire = []
    conn.add_out_msg = wire.append

    cer = CapabilitiesExchangeRequest()
    cer.header.hop_by_hop_identifier = 1
    cer.header.end_to_end_identifier = 0x100
    cer.origin_host = b"relay.example.com"
    cer.origin_realm = b"example.com"
    cer.host_ip_address = ["10.0.0.1"]
    cer.vendor_id = 1
    cer.product_name = "relay"
    cer.auth_application_id = [4]
    node._receive_message(conn, Message.from_bytes(cer.as_bytes()))
    assert conn.state == PEER_READY

    results = {}

    # case A: request without CC-Request-Number, answered 5005 by the node;
    #         then the identical request again with the T flag
    node._receive_message(conn, ccr(11, 5, complete=False))
    first = [m.result_code for m in wire if m.header.end_to_end_identifier == 5]
    n = len(wire)
    node._receive_message(conn, ccr(11, 5, t=True, complete=False))
    results["A"] = [m.result_code for m in wire[n:]]
    print("case A: first transmission of e2e 5 answered by the node:", first)
    print("        window for the origin:", list(node._sent_answers.get(X, [])))
    print("        identical repeat with T flag answered:", results["A"],
          " [required: 5012]")

    # case B: complete request answered 2001 by the application; a T-flagged
    #         repeat (same origin, same end-to-end id) lacking a mandatory AVP
    req = ccr(12, 6)
    node._receive_message(conn, req)
    assert len(app.delivered) == 1
    app.send_answer(app.generate_answer(req, result_code=2001))
    n = len(wire)
    node._receive_message(conn, ccr(13, 6, t=True, complete=False))
    results["B"] = [m.result_code for m in wire[n:]]
    print("case B: e2e 6 answered 2001 by the application; T-flagged repeat "
          "answered:", results["B"], " [required: 5012]")
    print("deliveries to the application in total:", len(app.delivered))

    print("property requires: a T-flagged request whose origin host and "
          "end-to-end id equal those of an answered request within the "
          "window 'is answered 5012 by the node itself'")
    if results["A"] == [5012] and results["B"] == [5012]:
        print("OK: behaves as the property says")
        return 0
    print("VIOLATION: retransmitted duplicates of answered requests were "
          "answered %r / %r instead of 5012" % (results["A"], results["B"]))
    return 1


if __name__ == "__main__":
    rc = 2
    try:
        rc = main()
    except BaseException:
        traceback.print_exc()
    finally:
        for c in CONNS:
            c.close(signal_node=False)
    sys.stdout.flush()
    os._exit(rc)
