"""
C14 demo 1: the node's connection (I/O) thread deadlocks on its own wake-up
pipe.

Every PeerConnection.demand_attention() does a *blocking* os.write() of a
6-byte token to the node's interrupt pipe.  The node's connection thread is the
only reader of that pipe and removes exactly one token per round of its loop;
every message written by any connection adds one.  When tokens are produced
faster than one per round the 64 KiB pipe runs full and the writer threads
block - harmless so far.  But the connection thread writes to the same pipe
itself:
    _reconnect_peers() -> _connect_to_peer() -> conn.demand_attention()
        (each re-dial of a persistent peer: connect failure / lost connection)
    _handle_connections(): send() failed -> conn.close() -> demand_attention()
        (write error)
With a full pipe that os.write() never returns, because the only thread that
could make room is the one that is blocked.  From then on nothing is read,
written, accepted, timed out or re-dialled: the node is dead for every peer,
with all its threads "alive".

Schedule used here (deterministic): the connection thread is held up at its
log line "... reconnecting" (logging filter = a log sink that stalls for a
moment) while the application hands 12 000 messages to the public
Node.send_message(); the connection's writer thread turns them into bytes and
tokens until the pipe is full.  Then the connection thread continues with the
re-dial.  natural_load.py next to this file reaches the same state without any
hook, by load from a peer alone (9 of 14 runs within 7 s on the audit machine).

exit 1: connection thread stuck in demand_attention(), later peer gets no CEA
exit 0: the later peer completes its capabilities exchange
"""
import array, fcntl, logging, os, socket, sys, termios, threading, time, traceback

from diameter.message import Message, constants
from diameter.message.commands import (CapabilitiesExchangeRequest,
                                       DeviceWatchdogRequest)
from diameter.node import Node
from diameter.node.application import SimpleThreadingApplication

logging.basicConfig(level=logging.CRITICAL)


def free_port():
    s = socket.socket(); s.bind(("127.0.0.1", 0)); p = s.getsockname()[1]; s.close()
    return p


def cer(host: bytes) -> bytes:
    m = CapabilitiesExchangeRequest()
    m.header.hop_by_hop_identifier = 1
    m.header.end_to_end_identifier = 1
    m.origin_host = host
    m.origin_realm = b"example"
    m.host_ip_address = ["127.0.0.1"]
    m.vendor_id = 1
    m.product_name = "demo"
    m.auth_application_id = [4]
    return m.as_bytes()


def read_msg(s, timeout):
    s.settimeout(timeout)
    buf = b""
    try:
        while len(buf) < 20:
            d = s.recv(20 - len(buf))
            if not d:
                return None
            buf += d
        ln = int.from_bytes(buf[1:4], "big")
        while len(buf) < ln:
            d = s.recv(ln - len(buf))
            if not d:
                return None
            buf += d
    except (socket.timeout, OSError):
        return None
    return Message.from_bytes(buf)


port = free_port()
dead_port = free_port()          # nobody listens here: connect failure

node = Node("server.example", "example", ip_addresses=["127.0.0.1"], tcp_port=port)
node.wakeup_interval = 1
p_client = node.add_peer("aaa://client.example", "example")
p_late = node.add_peer("aaa://late.example", "example")
p_down = node.add_peer(f"aaa://down.example:{dead_port}", "example",
                       ip_addresses=["127.0.0.1"], is_persistent=True)
p_down.reconnect_wait = 1
app = SimpleThreadingApplication(
    constants.APP_DIAMETER_CREDIT_CONTROL_APPLICATION, is_auth_application=True,
    request_handler=lambda a, m: a.generate_answer(m, result_code=2001))
node.add_application(app, [p_client, p_late, p_down])

# --- schedule control: a log sink that stalls once ---------------------------
at_redial = threading.Event()
go_on = threading.Event()
armed = threading.Event()


class StallOnce(logging.Filter):
    def filter(self, record):
        if (armed.is_set() and not at_redial.is_set()
                and "reconnecting" in record.getMessage()
                and threading.current_thread() is node._connection_thread):
            at_redial.set()
            go_on.wait(30)
        return True


node_logger = logging.getLogger("diameter.node")
node_logger.setLevel(logging.INFO)
node_logger.addFilter(StallOnce())
node_logger.propagate = False
node_logger.addHandler(logging.NullHandler())

node.start()


def pipe_bytes() -> int:
    buf = array.array("i", [0])
    fcntl.ioctl(node.interrupt_read, termios.FIONREAD, buf)
    return buf[0]


def node_thread_frames() -> list[str]:
    frame = sys._current_frames().get(node._connection_thread.ident)
    return [f"{f.name}:{f.lineno}" for f in traceback.extract_stack(frame)] if frame else []


# client.example connects, completes CER/CEA and reads whatever it is sent
c = socket.create_connection(("127.0.0.1", port))
c.sendall(cer(b"client.example"))
cea = read_msg(c, 5)
assert cea is not None and cea.result_code == 2001, "baseline handshake failed"
print("client.example: CER/CEA completed, result", cea.result_code)
conn = p_client.connection


def drain():
    c.settimeout(None)
    try:
        while c.recv(65536):
            pass
    except OSError:
        pass


threading.Thread(target=drain, daemon=True).start()

# wait for the next re-dial of down.example (first connect has failed already)
armed.set()
assert at_redial.wait(15), "no re-dial of the persistent peer observed"
print("connection thread is about to re-dial down.example (held at its log line)")

# meanwhile the application sends a burst through the public API
for _ in range(12000):
    m = DeviceWatchdogRequest()
    m.header.hop_by_hop_identifier = conn.hop_by_hop_seq.next_sequence()
    m.header.end_to_end_identifier = node.end_to_end_seq.next_sequence()
    m.origin_host = b"server.example"
    m.origin_realm = b"example"
    node.send_message(conn, m)

last, same = -1, 0
deadline = time.time() + 20
while time.time() < deadline and same < 5:      # until the writer thread blocks
    time.sleep(0.1)
    cur = pipe_bytes()
    same = same + 1 if cur == last else 0
    last = cur
print(f"12000 messages handed to Node.send_message(); interrupt pipe holds "
      f"{last} bytes and no longer grows (writer thread blocked: pipe full)")

go_on.set()                                       # the log sink recovers
time.sleep(3)
print("connection thread alive:", node._connection_thread.is_alive())
print("connection thread stack:", " > ".join(node_thread_frames()[-4:]))
print("interrupt pipe still holds", pipe_bytes(), "bytes")

# --- probe: a configured peer that connects afterwards -----------------------
late = socket.create_connection(("127.0.0.1", port))
late.sendall(cer(b"late.example"))
answer = read_msg(late, 6)
late.close()

if answer is not None and getattr(answer, "result_code", None) == 2001:
    print("late.example: CER answered with", answer.result_code)
    print("OK: the node kept serving")
    code = 0
else:
    print("OBSERVED: late.example connected and sent its CER, no CEA within 6 s; "
          "the connection thread sits in PeerConnection.demand_attention() "
          "(blocking os.write to the full interrupt pipe that only this very "
          "thread reads), reached from _reconnect_peers/_connect_to_peer")
    print("REQUIRED: 'no processing capacity is consumed for good. A peer that "
          "connects afterwards completes its capabilities exchange'")
    code = 1
sys.stdout.flush()
os._exit(code)     # the node cannot be stopped any more, its thread is blocked
