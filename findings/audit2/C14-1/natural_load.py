"""
Supporting evidence for finding 1 (NOT the demonstration; outcome depends on scheduling):
the same deadlock reached by load alone, without any hook.

Every PeerConnection.demand_attention() does a *blocking* os.write() of 6 bytes
to the node's interrupt pipe; the node's connection thread is the only reader
and takes exactly one 6-byte token per round of its loop.  Under load (here: one
configured peer pipelining Device-Watchdog requests, one token per DWA) tokens
are produced faster than one per round and the 64 KiB pipe runs full.  The
connection thread itself also writes to that pipe: Node._connect_to_peer() ->
conn.demand_attention() (each re-dial of a persistent peer whose connect is in
progress) and conn.close() after a failed send().  When it does so with a full
pipe it blocks for ever: nobody else reads the pipe.  From then on nothing is
read, written, accepted, timed out or re-dialled - the whole node is dead,
although every thread is still "alive".

Sequence: server node, three persistent peers "downN.example" that refuse
connections (connect failure, each re-dialled every second), client.example and
client2.example connect, complete CER/CEA and pipeline DWRs.  Then the load stops and a second configured peer
connects and sends its CER.

exit 1: the connection thread is stuck inside demand_attention() and the new
        peer gets no CEA  (violation)
exit 0: the new peer completes its capabilities exchange
"""
import array, fcntl, logging, os, socket, sys, termios, threading, time, traceback

from diameter.message import Message, constants
from diameter.message.commands import (CapabilitiesExchangeRequest,
                                       DeviceWatchdogRequest)
from diameter.node import Node
from diameter.node.application import SimpleThreadingApplication

logging.basicConfig(level=logging.CRITICAL)


def free_port():
    s = socket.socket(); s.bind(("127.0.0.1", 0)); p = s.getsockname()[1]; s.close()
    return p


def cer(host: bytes) -> bytes:
    m = CapabilitiesExchangeRequest()
    m.header.hop_by_hop_identifier = 1
    m.header.end_to_end_identifier = 1
    m.origin_host = host
    m.origin_realm = b"example"
    m.host_ip_address = ["127.0.0.1"]
    m.vendor_id = 1
    m.product_name = "demo"
    m.auth_application_id = [4]
    return m.as_bytes()


def read_msg(s, timeout):
    s.settimeout(timeout)
    buf = b""
    try:
        while len(buf) < 20:
            d = s.recv(20 - len(buf))
            if not d:
                return None
            buf += d
        ln = int.from_bytes(buf[1:4], "big")
        while len(buf) < ln:
            d = s.recv(ln - len(buf))
            if not d:
                return None
            buf += d
    except (socket.timeout, OSError):
        return None
    return Message.from_bytes(buf)


port = free_port()
dead_port = free_port()          # nobody listens here: connect failure

node = Node("server.example", "example", ip_addresses=["127.0.0.1"], tcp_port=port)
node.wakeup_interval = 1
p_client = node.add_peer("aaa://client.example", "example")
p_late = node.add_peer("aaa://late.example", "example")
p_client2 = node.add_peer("aaa://client2.example", "example")
down_peers = []
for i in range(3):
    p_down = node.add_peer(f"aaa://down{i}.example:{dead_port}", "example",
                           ip_addresses=["127.0.0.1"], is_persistent=True)
    p_down.reconnect_wait = 1
    down_peers.append(p_down)
app = SimpleThreadingApplication(
    constants.APP_DIAMETER_CREDIT_CONTROL_APPLICATION, is_auth_application=True,
    request_handler=lambda a, m: a.generate_answer(m, result_code=2001))
node.add_application(app, [p_client, p_client2, p_late] + down_peers)
node.start()


def pipe_bytes() -> int:
    buf = array.array("i", [0])
    fcntl.ioctl(node.interrupt_read, termios.FIONREAD, buf)
    return buf[0]


def node_thread_frames() -> list[str]:
    frame = sys._current_frames().get(node._connection_thread.ident)
    return [f"{f.name}:{f.lineno}" for f in traceback.extract_stack(frame)] if frame else []


# --- load: client.example completes CER/CEA and pipelines DWRs ---------------
stop_load = threading.Event()
clients = []


def drain(c):
    c.settimeout(0.5)
    while not stop_load.is_set():
        try:
            if not c.recv(65536):
                return
        except socket.timeout:
            continue
        except OSError:
            return


def flood(c, raw):
    try:
        while not stop_load.is_set():
            c.sendall(raw)
    except OSError:
        pass


for host in (b"client.example", b"client2.example"):
    c = socket.create_connection(("127.0.0.1", port))
    c.sendall(cer(host))
    cea = read_msg(c, 5)
    assert cea is not None and cea.result_code == 2001, "baseline handshake failed"
    print(host.decode(), "CER/CEA completed, result", cea.result_code)
    dwr = DeviceWatchdogRequest()
    dwr.header.hop_by_hop_identifier = 5
    dwr.header.end_to_end_identifier = 5
    dwr.origin_host = host
    dwr.origin_realm = b"example"
    clients.append(c)
    threading.Thread(target=drain, args=(c,), daemon=True).start()
    threading.Thread(target=flood, args=(c, dwr.as_bytes() * 200), daemon=True).start()

stuck_since = None
max_pipe = 0
t0 = time.time()
while time.time() - t0 < 40:
    time.sleep(0.25)
    max_pipe = max(max_pipe, pipe_bytes())
    frames = node_thread_frames()
    if frames and frames[-1].startswith("demand_attention"):
        stuck_since = stuck_since or time.time()
        if time.time() - stuck_since > 3:
            break
    else:
        stuck_since = None

stop_load.set()
for c in clients:
    try:
        c.setsockopt(socket.SOL_SOCKET, socket.SO_LINGER,
                     b"\x01\x00\x00\x00\x00\x00\x00\x00")
        c.close()
    except OSError:
        pass
print(f"load stopped after {time.time() - t0:.1f}s; interrupt pipe peaked at "
      f"{max_pipe} bytes of the 64 KiB pipe, now {pipe_bytes()} bytes")
time.sleep(3)      # a healthy node is idle again long before this
print("connection thread alive:", node._connection_thread.is_alive())
print("connection thread stack:", " > ".join(node_thread_frames()[-4:]))

# --- probe: a configured peer that connects afterwards -----------------------
late = socket.create_connection(("127.0.0.1", port))
late.sendall(cer(b"late.example"))
answer = read_msg(late, 6)
late.close()

if answer is not None and getattr(answer, "result_code", None) == 2001:
    print("late.example: CER answered with", answer.result_code)
    print("OK: the node kept serving")
    code = 0
else:
    print("OBSERVED: late.example connected and sent its CER, no CEA within 6 s; "
          "the connection thread sits in PeerConnection.demand_attention() "
          "(blocking os.write to the full interrupt pipe that only this very "
          "thread reads) - reached from _reconnect_peers/_connect_to_peer")
    print("REQUIRED: 'no processing capacity is consumed for good. A peer that "
          "connects afterwards completes its capabilities exchange'")
    code = 1
sys.stdout.flush()
os._exit(code)     # the node cannot be stopped any more, its thread is blocked
