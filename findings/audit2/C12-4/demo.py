"""C12 / finding 4

Peer.last_disconnect is stored as int(time.time()) and Peer.disconnected_since
is int(time.time()) - last_disconnect: both ends of the interval are truncated
to whole seconds, so the measured wait is up to one second longer than the
real one and a persistent peer is dialled BEFORE its reconnect wait has
elapsed - with reconnect_wait = 1 practically without any wait at all.

Virtual clock and virtual socket layer; one I/O round (_check_timers for every
connection, then _reconnect_peers - what Node._handle_connections does on every
turn) per 0.05 s of virtual time.

exit 1 = dialled before the wait had elapsed, exit 0 = not
"""
import errno
import os
import socket
import sys
import time

from diameter.node import Node

clock = [0.0]
real_time = time.time
time.time = lambda: clock[0]

connect_calls = []
_fileno = [1000]


class FakeSocket:
    def __init__(self, *a, **kw):
        _fileno[0] += 1
        self._fd = _fileno[0]

    def setblocking(self, flag): pass
    def setsockopt(self, *a): pass
    def getsockname(self): return "127.0.0.1", 40000
    def fileno(self): return self._fd
    def close(self): self._fd = -1

    def connect(self, addr):
        connect_calls.append(clock[0])
        raise ConnectionRefusedError(errno.ECONNREFUSED, "Connection refused")


real_socket = socket.socket
socket.socket = FakeSocket

violations = []
for wait in (1, 5, 60):
    connect_calls.clear()
    clock[0] = 5000.90
    node = Node("node.example.net", "example.net")
    peer = node.add_peer("aaa://peer.example.net", "example.net",
                         ip_addresses=["10.0.0.1"], is_persistent=True)
    peer.reconnect_wait = wait

    node._connect_to_peer(peer)          # Node.start(): refused -> lost
    lost_at = clock[0]
    steps = 0
    while len(connect_calls) < 2 and steps < (wait + 3) * 20:
        steps += 1
        clock[0] = round(lost_at + steps * 0.05, 2)
        for c in list(node.connections.values()):
            node._check_timers(c)
        node._reconnect_peers()

    redial = connect_calls[1] if len(connect_calls) > 1 else None
    waited = None if redial is None else round(redial - lost_at, 2)
    print(f"observed: reconnect_wait={wait:2d} s: connection lost at "
          f"t={lost_at:.2f}, dialled again at t={redial}, i.e. after "
          f"{waited} s")
    if waited is not None and waited < wait:
        violations.append((wait, waited))
    for c in list(node.connections.values()):
        c.close(signal_node=False)

print("required: dialled again once its reconnect wait has elapsed (not "
      "before)")
socket.socket = real_socket
time.time = real_time
sys.stdout.flush()
if violations:
    print(f"VIOLATION: dialled before the reconnect wait had elapsed: "
          f"{violations}")
    sys.stdout.flush()
    os._exit(1)
print("ok")
sys.stdout.flush()
os._exit(0)
