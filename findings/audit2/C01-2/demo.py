"""C01 / finding 2: the address family of an Address value is ignored on encode.

AvpAddress.value returns (family, text).  Avp.new() explicitly accepts that
tuple back ("Be nice ... in case someone passes the return value of
AvpAddress.value back to another AvpAddress"), and the typed message classes do
exactly that when a decoded message is re-encoded.  But Avp.new() throws the
family away (value[1]) and the setter guesses a family from the text, so

  * a well-formed Address AVP of any family other than 1/2/8 (RFC 6733 4.3.1:
    "AddressType ... values from IANA Address Family Numbers") that is decoded
    and re-built from its own value comes out as family 8 (E.164) with the hex
    text as ASCII digits - no error;
  * an explicit (family, text) whose family contradicts the guess is silently
    re-typed: (8, "10.0.0.1") -> family 1, (1, "358401234567") -> family 8.
"""
import sys

from diameter.message import Message
from diameter.message.avp import Avp, AvpAddress
from diameter.message.commands import CapabilitiesExchangeRequest
from diameter.message.constants import AVP_HOST_IP_ADDRESS

violations = 0


def check(label, value, wire_expected):
    """Encoding `value` must give `wire_expected` or raise an error."""
    global violations
    try:
        got = Avp.new(AVP_HOST_IP_ADDRESS, value=value).as_bytes()
    except Exception as e:
        print(f"{label}: rejected with {type(e).__name__} - acceptable")
        return
    if wire_expected is None and Avp.from_bytes(got).value[0] == value[0]:
        print(f"{label}: encoded with the requested family - acceptable")
        return
    if got != wire_expected:
        violations += 1
        print(f"{label}: value {value!r}")
        print(f"   observed: accepted, encoded as {got.hex()} "
              f"(decodes as {Avp.from_bytes(got).value})")
        if wire_expected is None:
            print(f"   required: an error (family {value[0]} cannot carry "
                  f"that text), not another family")
        else:
            print(f"   required: {wire_expected.hex()} or an error")
    else:
        print(f"{label}: ok")


# 1. decode -> value -> encode of a well-formed family 6 (802 MAC) Address AVP
wire = bytes.fromhex("00000101" "40000010" "0006" "001122334455")
dec = Avp.from_bytes(wire)
assert isinstance(dec, AvpAddress) and dec.as_bytes() == wire
print(f"decoded {wire.hex()} -> value {dec.value}")
check("family 6 value fed back", dec.value, wire)

# 2. explicit family contradicting the text
check("E.164 family with dotted text", (8, "10.0.0.1"), None)
check("IPv4 family with digit text", (1, "358401234567"), None)

# 3. the same through the typed message classes: decode + encode of a CER
cer = CapabilitiesExchangeRequest()
cer.origin_host = b"a.example"
cer.origin_realm = b"example"
cer.vendor_id = 1
cer.product_name = "x"
cer.host_ip_address = ["10.0.0.1"]
plain = Message.from_bytes(cer.as_bytes(), plain_msg=True)
for i, a in enumerate(plain.avps):
    if a.code == AVP_HOST_IP_ADDRESS:
        plain.avps[i] = Avp.from_bytes(wire)
raw_in = plain.as_bytes()
raw_out = Message.from_bytes(raw_in).as_bytes()
addr_in = [a.payload.hex() for a in Message.from_bytes(raw_in, plain_msg=True).avps
           if a.code == AVP_HOST_IP_ADDRESS]
addr_out = [a.payload.hex() for a in Message.from_bytes(raw_out, plain_msg=True).avps
            if a.code == AVP_HOST_IP_ADDRESS]
if addr_in != addr_out:
    violations += 1
    print("CER decoded and re-encoded: Host-IP-Address data")
    print(f"   observed: {addr_in} -> {addr_out}")
    print(f"   required: unchanged data (or an error)")

if violations:
    print(f"\nVIOLATION: {violations} address values were neither encoded "
          f"faithfully nor rejected; the family was swapped silently")
    sys.exit(1)
print("address family is honoured or rejected")
sys.exit(0)
