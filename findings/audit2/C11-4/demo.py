"""C11 finding 4: the watchdog intervals are differences of int(time.time()) - the
adjustable wall clock - not of a monotonic clock. A step of the system clock
(ntpdate / chrony step, VM resume, an operator setting the time) while a
connection is ready

  (a) backwards: makes last_read_since / dwa_wait_time negative; a silent peer
      gets no DWR and is not closed until the wall clock has caught up again
      (step size + timeout), i.e. the watchdog is off for that long;
  (b) forwards while a DWA is awaited: dwa_wait_time jumps over the DWA timeout
      and a healthy connection is closed with DISCONNECT_REASON_DWA_TIMEOUT one
      second after the DWR, although the DWA timeout is 10 s.

The demo patches time.time with a wall clock that can be stepped; ELAPSED is
the real (monotonic) time that passes, 1 s per round of the node's I/O loop.
"""
import sys
import time

from diameter.message import constants
from diameter.message.commands import (CapabilitiesExchangeRequest,
                                       DeviceWatchdogRequest)
from diameter.node import Node
from diameter.node.application import SimpleThreadingApplication
from diameter.node.peer import (PeerConnection, PEER_RECV, PEER_CONNECTED,
                                PEER_READY, PEER_READY_WAITING_DWA,
                                PEER_CLOSED, PEER_TRANSPORT_TCP,
                                DISCONNECT_REASON_DWA_TIMEOUT)

real_time = time.time
WALL = [3_000_000.0]    # the adjustable system clock
MONO = [50_000.0]       # real elapsed time, what a monotonic clock reports
time.time = lambda: WALL[0]
# (threading and queue bound the real monotonic clock at import time and are
# not affected; a library measuring intervals with time.monotonic() sees MONO)
time.monotonic = lambda: MONO[0]


def tick(step=0):
    """One second of real time passes; the wall clock additionally steps."""
    MONO[0] += 1
    WALL[0] += 1 + step


def real_wait(cond, seconds=5.0):
    end = real_time() + seconds
    while real_time() < end:
        if cond():
            return True
        time.sleep(0.01)
    return False


class FakeSocket:
    def __init__(self, n): self.n = n
    def fileno(self): return self.n
    def close(self): pass
    def setsockopt(self, *a): pass


def cer():
    m = CapabilitiesExchangeRequest()
    m.header.hop_by_hop_identifier = 1
    m.header.end_to_end_identifier = 1
    m.origin_host = b"peer.local.realm"
    m.origin_realm = b"local.realm"
    m.host_ip_address = ["127.0.0.1"]
    m.vendor_id = 1
    m.product_name = "peer"
    m.auth_application_id = [4]
    return m.as_bytes()


def setup(idle, dwa, fileno):
    node = Node("node.local.realm", "local.realm")
    peer = node.add_peer("aaa://peer.local.realm", "local.realm")
    peer.idle_timeout = idle
    peer.dwa_timeout = dwa
    app = SimpleThreadingApplication(
        constants.APP_DIAMETER_CREDIT_CONTROL_APPLICATION,
        is_auth_application=True)
    node.add_application(app, [peer])
    sent = []
    conn = PeerConnection("127.0.0.1", 40000, PEER_RECV, node.interrupt_write)
    conn.state = PEER_CONNECTED
    node._add_peer_connection(conn, FakeSocket(fileno), PEER_TRANSPORT_TCP)
    conn.add_out_msg = lambda m: sent.append(m)
    conn.add_in_bytes(cer())
    assert real_wait(lambda: conn.state == PEER_READY), "CER/CEA failed"
    return node, peer, app, conn, sent


problems = []

# ---------------------------------------------------------------- (a) backwards
node, peer, app, conn, sent = setup(idle=3, dwa=2, fileno=930)
try:
    dwr_at = closed_at = None
    for elapsed in range(1, 61):
        # at +2 s the system clock is set back by 10 minutes
        tick(step=-600 if elapsed == 2 else 0)
        node._check_timers(conn)  # the peer stays silent all the time
        if dwr_at is None and any(isinstance(m, DeviceWatchdogRequest) for m in sent):
            dwr_at = elapsed
        if conn.state == PEER_CLOSED:
            closed_at = elapsed
            break
    print(f"(a) idle_timeout=3, dwa_timeout=2, peer silent, wall clock set "
          f"back 600 s at +2 s:")
    print(f"    after 60 s of real time: DWR sent at {dwr_at}, connection "
          f"closed at {closed_at}, state still "
          f"{'READY' if conn.state == PEER_READY else conn.state}, "
          f"conn.last_read_since={conn.last_read_since}")
    if dwr_at is None or dwr_at > 5:
        problems.append(
            "(a) nothing received for 60 s on a connection with idle timeout "
            "3 s, yet no DWR was sent and the connection was not closed")
finally:
    conn.close(signal_node=False)
    app.stop()

# ----------------------------------------------------------------- (b) forwards
node, peer, app, conn, sent = setup(idle=3, dwa=10, fileno=931)
try:
    elapsed = 0
    while conn.state == PEER_READY and elapsed < 10:
        elapsed += 1
        tick()
        node._check_timers(conn)
    assert conn.state == PEER_READY_WAITING_DWA
    dwr_at = elapsed
    elapsed += 1
    tick(step=30)                 # one second passes, the clock steps +30 s
    node._check_timers(conn)
    print(f"(b) idle_timeout=3, dwa_timeout=10: DWR sent at +{dwr_at} s; wall "
          f"clock stepped forward 30 s; at +{elapsed} s the connection is "
          f"{'CLOSED' if conn.state == PEER_CLOSED else 'still awaiting the DWA'}"
          f", disconnect_reason="
          f"{peer.disconnect_reason and hex(peer.disconnect_reason)}")
    if conn.state == PEER_CLOSED and peer.disconnect_reason == DISCONNECT_REASON_DWA_TIMEOUT:
        problems.append(
            f"(b) closed with DISCONNECT_REASON_DWA_TIMEOUT {elapsed - dwr_at} s "
            f"after the DWR although the DWA timeout is 10 s")
finally:
    conn.close(signal_node=False)
    app.stop()

print()
print("REQUIRED: 'nothing has been received for longer than its idle timeout "
      "[-> ] exactly one DWR at the next timer check'; closed only 'if none "
      "arrives within the DWA timeout'.")
if problems:
    print("OBSERVED (violation):")
    for p in problems:
        print("  -", p)
    sys.exit(1)
print("OBSERVED: intervals were measured independently of the wall clock - "
      "property holds")
sys.exit(0)
