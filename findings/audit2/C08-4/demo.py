"""C08 / finding 4: a request whose Destination-Realm is not valid UTF-8 (a
realm the node certainly does not serve) is answered 5012
DIAMETER_UNABLE_TO_COMPLY instead of 3003 DIAMETER_REALM_NOT_SERVED.

Run:  PYTHONPATH=/repo/src /venv/bin/python /repo/_audit/4/demo.py
"""
import logging
import socket
import sys
import time

from diameter.message import Message
from diameter.message.avp import Avp
from diameter.message.constants import *
from diameter.message.commands import (CapabilitiesExchangeRequest,
                                       CreditControlRequest,
                                       DeviceWatchdogRequest)
from diameter.node import Node
from diameter.node.application import Application
from diameter.node.peer import (PeerConnection, PEER_RECV, PEER_CONNECTED,
                                PEER_READY, PEER_TRANSPORT_TCP)

logging.disable(logging.CRITICAL)


class RecordingApp(Application):
    """Application registered for the peer; records what it is handed."""
    def __init__(self, app_id):
        super().__init__(app_id, is_auth_application=True)
        self.seen = []

    def handle_request(self, message):
        self.seen.append(message)


def split(data):
    msgs = []
    while data:
        ln = int.from_bytes(data[1:4], "big")
        msgs.append(Message.from_bytes(data[:ln]))
        data = data[ln:]
    return msgs


_fence = [0]


def exchange(conn, data, timeout=5):
    """Feed `data` as received from the network, followed by a DWR used as a
    fence: reader and writer work strictly in order, so once the DWA of the
    fence is in the write buffer everything before it has been handled.
    Returns the messages the node wrote, without the fence's DWA."""
    _fence[0] += 1
    fid = 0x7f000000 + _fence[0]
    dwr = DeviceWatchdogRequest()
    dwr.header.hop_by_hop_identifier = fid
    dwr.header.end_to_end_identifier = fid
    dwr.origin_host = b"client.realm.a"
    dwr.origin_realm = b"realm.a"
    conn.add_in_bytes(data + dwr.as_bytes())
    marker = fid.to_bytes(4, "big") * 2
    end = time.time() + timeout
    while time.time() < end:
        with conn.write_lock:
            if marker in conn.write_buffer:
                break
        time.sleep(0.002)
    else:
        print("harness: fence DWA not seen within timeout")
    with conn.write_lock:
        buf = conn.write_buffer
        conn.remove_out_bytes(len(buf))
    return [m for m in split(buf) if m.header.hop_by_hop_identifier != fid]


def setup(node_realm="realm.a"):
    """A node serving `node_realm` with one configured peer client.realm.a,
    one application (id 4) registered for that peer, and an inbound
    connection of that peer that has completed CER/CEA (state READY)."""
    node = Node("server.realm.a", node_realm)
    peer = node.add_peer("aaa://client.realm.a")
    app = RecordingApp(4)
    node.add_application(app, [peer])

    s1, s2 = socket.socketpair()
    conn = PeerConnection("127.0.0.1", 3868, PEER_RECV,
                          interrupt_fileno=node.interrupt_write)
    conn.state = PEER_CONNECTED
    node._add_peer_connection(conn, s1, PEER_TRANSPORT_TCP)

    cer = CapabilitiesExchangeRequest()
    cer.header.hop_by_hop_identifier = 1
    cer.header.end_to_end_identifier = 1
    cer.origin_host = b"client.realm.a"
    cer.origin_realm = b"realm.a"
    cer.host_ip_address = ["10.0.0.9"]
    cer.vendor_id = 1
    cer.product_name = "demo"
    cer.auth_application_id = [4]
    conn.add_in_bytes(cer.as_bytes())
    end = time.time() + 5
    while time.time() < end:
        # READY and the CEA written
        if conn.state == PEER_READY and len(conn.write_buffer) > 0:
            break
        time.sleep(0.002)
    assert conn.state == PEER_READY, "CER/CEA did not complete"
    with conn.write_lock:
        cea = split(conn.write_buffer)
        conn.remove_out_bytes(len(conn.write_buffer))
    assert len(cea) == 1 and cea[0].result_code == 2001, "CER was not accepted"
    return node, app, conn, (s1, s2)


_hbh = [100]


def ccr(realm=b"realm.a"):
    """A Credit-Control-Request carrying every AVP the command requires."""
    m = CreditControlRequest()
    _hbh[0] += 1
    m.header.hop_by_hop_identifier = _hbh[0]
    m.header.end_to_end_identifier = _hbh[0]
    m.header.application_id = 4
    m.session_id = "client.realm.a;1;1"
    m.origin_host = b"client.realm.a"
    m.origin_realm = b"realm.a"
    m.destination_realm = realm
    m.service_context_id = "demo@realm.a"
    m.cc_request_type = E_CC_REQUEST_TYPE_EVENT_REQUEST
    m.cc_request_number = 0
    return m


def describe(out):
    return [(o.name, "answer" if not o.header.is_request else "request",
             getattr(o, "result_code", None)) for o in out]


def main():
    node, app, conn, socks = setup()
    bad = []
    try:
        for realm in (b"realm.zz",                 # control: foreign realm
                      b"r\xe9alm.zz",              # latin-1 e-acute
                      b"\xff\xfe",
                      b"realm.a\xc0"):
            before = len(app.seen)
            out = exchange(conn, ccr(realm).as_bytes())
            codes = [o.result_code for o in out]
            print(f"Destination-Realm {realm!r}: application saw "
                  f"{len(app.seen) - before} request(s); node wrote "
                  f"{describe(out)}")
            if codes != [E_RESULT_CODE_DIAMETER_REALM_NOT_SERVED]:
                bad.append((realm, codes))
    finally:
        conn.close(signal_node=False)
        for s in socks:
            s.close()

    print()
    print("property requires: the node answers '3003 for a realm it does not "
          "serve'; 5012 is reserved for 'when handling fails'. The node serves "
          "realm.a only, none of these realms is served.")
    if bad:
        print(f"observed: not answered with 3003: {bad} (UnicodeDecodeError in "
              f"Node._receive_app_request, turned into 5012 'Message handling "
              f"error')")
        return 1
    print("observed: every unserved realm was answered 3003")
    return 0


if __name__ == "__main__":
    sys.exit(main())
