"""An AVP the class does not declare, received with the V flag set and a
Vendor-Id field of 0, is not carried over unchanged: the V flag and the four
Vendor-Id octets are dropped when the message is encoded again (16 -> 12 bytes),
and a declared AVP code received that way is taken for the IETF AVP.

exit 1: violation present, exit 0: behaves as the property says.
"""
import struct
import sys

from diameter.message import Message
from diameter.message.commands import CreditControlRequest
from diameter.message.constants import *

bad = []

ccr = CreditControlRequest()
ccr.session_id = "host.example;1;1"
ccr.origin_host = b"host.example"
ccr.origin_realm = b"example"
ccr.destination_realm = b"example"
ccr.service_context_id = "32251@3gpp.org"
ccr.cc_request_type = E_CC_REQUEST_TYPE_INITIAL_REQUEST
ccr.cc_request_number = 0
typed_bytes = ccr.as_bytes()

# undeclared AVP 99999, flags V (0x80), length 16, Vendor-Id 0, payload "zzzz"
extra = struct.pack("!IIII", 99999, (0x80 << 24) | 16, 0, 0x7a7a7a7a)
wire = typed_bytes + extra
wire = wire[:1] + struct.pack("!I", len(wire))[1:] + wire[4:]

dec = Message.from_bytes(wire)
print(f"decoded as {type(dec).__name__}, {len(wire)} bytes")
carried = [a for a in dec.avps if a.code == 99999]
print(f"undeclared AVP as received : {extra.hex()} ({len(extra)} bytes)")
print(f"undeclared AVP carried over: {carried[0].as_bytes().hex()} "
      f"({len(carried[0].as_bytes())} bytes)  {carried[0]}")
if carried[0].as_bytes() != extra:
    bad.append("the undeclared AVP is altered: V flag cleared, Vendor-Id field "
               "removed, length 16 -> 12")
again = dec.as_bytes()
print(f"message re-encoded: {len(again)} bytes, identical to the received "
      f"bytes: {again == wire}")
if again != wire:
    bad.append("decode + encode of a message made of set attributes plus one "
               "undeclared AVP does not reproduce the bytes")

# the same octets with a declared code: User-Name (1) with V flag / Vendor-Id 0
# is not the IETF AVP (1, no vendor field) on the wire, but ends up as user_name
# and is re-emitted as the plain IETF AVP
extra2 = struct.pack("!IIII", AVP_USER_NAME, (0x80 << 24) | 16, 0, 0x7a7a7a7a)
wire2 = typed_bytes + extra2
wire2 = wire2[:1] + struct.pack("!I", len(wire2))[1:] + wire2[4:]
dec2 = Message.from_bytes(wire2)
print(f"AVP code 1 with V flag and Vendor-Id 0: user_name = {dec2.user_name!r}, "
      f"re-encoded {len(dec2.as_bytes())} bytes (received {len(wire2)})")

print()
print("property requires: AVPs the class does not declare are carried over "
      "unchanged, and encoding the decoded message reproduces the bytes")
if bad:
    print("VIOLATION:")
    for b in bad:
        print("  -", b)
    sys.exit(1)
print("ok")
sys.exit(0)
