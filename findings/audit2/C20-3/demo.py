"""C20 / finding 3

Message.to_answer finds the answer class by class NAME only
(`<X>Request` -> a base called `<X>` in the MRO -> a direct subclass called
`<X>Answer`). A custom command registered through the public
`diameter.message.commands.register()` - built exactly like the example in
docs/guide/extending_the_stack.md, with a `type_factory` that names its
request and answer classes - is only paired when its classes happen to follow
that naming scheme. Otherwise to_answer returns

  (a) the generic `Message` (class names end in "Request"/"Answer" but the
      base is not called like the prefix), so the attributes set by
      Application.generate_answer are never encoded, or
  (b) ANOTHER INSTANCE OF THE REQUEST CLASS, whose constructor sets the R bit
      again (class name does not end in "Request"): the "answer" goes out as
      a request.

exit 1 = violation observed, exit 0 = behaves as the property says.
"""
import sys
from typing import Type

from diameter.message import Message, DefinedMessage, MessageHeader
from diameter.message.avp.generator import AvpGenDef, AvpGenType
from diameter.message.commands import register
from diameter.message.commands._attributes import assign_attr_from_defs
from diameter.message.constants import *
from diameter.node import Node
from diameter.node.application import SimpleThreadingApplication

ANSWER_DEF = (
    AvpGenDef("session_id", AVP_SESSION_ID, is_required=True),
    AvpGenDef("result_code", AVP_RESULT_CODE, is_required=True),
    AvpGenDef("origin_host", AVP_ORIGIN_HOST, is_required=True),
    AvpGenDef("origin_realm", AVP_ORIGIN_REALM, is_required=True),
)
REQUEST_DEF = (
    AvpGenDef("session_id", AVP_SESSION_ID, is_required=True),
    AvpGenDef("origin_host", AVP_ORIGIN_HOST, is_required=True),
    AvpGenDef("origin_realm", AVP_ORIGIN_REALM, is_required=True),
)


# ---- command 999: the docs example, only the class names differ ------------
class SpecialMessage(DefinedMessage):
    code: int = 999
    name: str = "Special-Message"
    avp_def: AvpGenType

    def __post_init__(self):
        self.header.command_code = self.code
        super().__post_init__()

    @classmethod
    def type_factory(cls, header: MessageHeader) -> Type[Message] | None:
        if header.is_request:
            return SpecialRequest
        return SpecialAnswer


class SpecialRequest(SpecialMessage):
    avp_def: AvpGenType = REQUEST_DEF

    def __post_init__(self):
        super().__post_init__()
        self.header.is_request = True
        self.header.is_proxyable = True
        assign_attr_from_defs(self, self._avps)
        self._avps = []


class SpecialAnswer(SpecialMessage):
    avp_def: AvpGenType = ANSWER_DEF

    def __post_init__(self):
        super().__post_init__()
        self.header.is_request = False
        self.header.is_proxyable = True
        assign_attr_from_defs(self, self._avps)
        self._avps = []


# ---- command 998: 3GPP-style short names -----------------------------------
class Xyz(DefinedMessage):
    code: int = 998
    name: str = "XYZ"
    avp_def: AvpGenType

    def __post_init__(self):
        self.header.command_code = self.code
        super().__post_init__()

    @classmethod
    def type_factory(cls, header: MessageHeader) -> Type[Message] | None:
        return Xyr if header.is_request else Xya


class Xyr(Xyz):
    avp_def: AvpGenType = REQUEST_DEF

    def __post_init__(self):
        super().__post_init__()
        self.header.is_request = True
        self.header.is_proxyable = True
        assign_attr_from_defs(self, self._avps)
        self._avps = []


class Xya(Xyz):
    avp_def: AvpGenType = ANSWER_DEF

    def __post_init__(self):
        super().__post_init__()
        self.header.is_request = False
        self.header.is_proxyable = True
        assign_attr_from_defs(self, self._avps)
        self._avps = []


register(SpecialMessage)
register(Xyz)

node = Node("server.realm.example", "realm.example")
app = SimpleThreadingApplication(16777999, is_auth_application=True)
app._node = node

failed = False
for req_cls, ans_cls in ((SpecialRequest, SpecialAnswer), (Xyr, Xya)):
    out = req_cls()
    out.session_id = "client.example;1;1"
    out.origin_host = b"client.example"
    out.origin_realm = b"example"
    out.header.application_id = 16777999
    out.header.hop_by_hop_identifier = 0x1234
    out.header.end_to_end_identifier = 0x5678

    req = Message.from_bytes(out.as_bytes())            # as received from a peer
    assert type(req) is req_cls and req.header.is_request
    # the registry knows the answer class of the command:
    assert type(Message.from_bytes(ans_cls().as_bytes())) is ans_cls

    ans = req.to_answer()
    gen = app.generate_answer(req, 2001)
    wire = Message.from_bytes(gen.as_bytes(), plain_msg=True)
    print(f"{req_cls.__name__}.to_answer() -> {type(ans).__name__} "
          f"(answer class of the command: {ans_cls.__name__}), "
          f"flags 0x{ans.header.command_flags:02x}")
    print(f"  Application.generate_answer(...).as_bytes(): flags "
          f"0x{wire.header.command_flags:02x}, {len(wire.avps)} AVPs, "
          f"Origin-Host={[a.value for a in wire.find_avps((AVP_ORIGIN_HOST, 0))]}, "
          f"Session-Id={[a.value for a in wire.find_avps((AVP_SESSION_ID, 0))]}")
    if type(ans) is not ans_cls:
        failed = True
    if ans.header.is_request or wire.header.is_request:
        print("  -> the 'answer' has the REQUEST bit set")
        failed = True
    if [a.value for a in wire.find_avps((AVP_ORIGIN_HOST, 0))] != [b"server.realm.example"]:
        failed = True

print("property requires: for every registered command class the answer is an "
      "instance of that command's answer class, has the request bit cleared, "
      "and (through an application) carries the local Origin-Host/Origin-Realm "
      "and the request's Session-Id")
if failed:
    print("VIOLATION")
    sys.exit(1)
print("ok")
sys.exit(0)
