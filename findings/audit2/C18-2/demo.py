"""C18 / finding 2

The _stopping flag is tested once, without a lock, and acted upon later
(_reconnect_peers / _add_peer_connection, likewise _check_timers before
send_dwr).  stop() running on the caller's thread between the test and the
action goes unnoticed: the I/O thread, already past both
`if self._stopping:` tests, goes on to connect() the socket of a persistent
peer - the peer is dialled while the node is stopping.

The schedule is fixed with a gate in Node._generate_connection_id, the first
thing _add_peer_connection does after testing the flag; nothing else is
altered.

exit 1 = violation observed, exit 0 = behaviour as required by the property
"""
import logging
import socket
import sys
import threading
import time

from diameter.message import Message, constants
from diameter.node import Node
from diameter.node.application import SimpleThreadingApplication

logging.basicConfig(level=logging.CRITICAL)
PEER = "peer1.example.net"

# the remote peer: a listening socket this program controls
srv = socket.socket()
srv.bind(("127.0.0.1", 0))
srv.listen(8)
srv_port = srv.getsockname()[1]

node = Node("node.example.net", "example.net")
node.wakeup_interval = 1
peer = node.add_peer(f"aaa://{PEER}:{srv_port}", "example.net",
                     ip_addresses=["127.0.0.1"], is_persistent=True)
peer.reconnect_wait = 1
app = SimpleThreadingApplication(
    constants.APP_DIAMETER_CREDIT_CONTROL_APPLICATION,
    is_auth_application=True,
    request_handler=lambda a, m: a.generate_answer(m, result_code=2001))
node.add_application(app, [peer])

# --- schedule gate -------------------------------------------------------
in_window = threading.Event()     # I/O thread is past the _stopping tests
stop_begun = threading.Event()    # stop() is under way
orig_gen = node._generate_connection_id


def gated_gen(*a, **kw):
    if (threading.current_thread() is node._connection_thread and
            not in_window.is_set()):
        in_window.set()
        stop_begun.wait(10)
    return orig_gen(*a, **kw)


node._generate_connection_id = gated_gen
# -------------------------------------------------------------------------

node.start()                      # first dial, from this thread
c1, _ = srv.accept()
c1.close()                        # the peer goes away: a reconnect is due
print("first connection accepted and dropped by the peer; the persistent "
      "peer is due for a reconnect after 1s")

if not in_window.wait(15):
    print("schedule could not be set up (no reconnect attempt)")
    node.stop(force=True)
    sys.exit(0)
print("I/O thread is reconnecting: past `if self._stopping` in "
      "_reconnect_peers and in _add_peer_connection, connect() not yet "
      "called")

srv.setblocking(False)
try:
    srv.accept()
    print("unexpected: a connection is pending already")
    sys.exit(0)
except BlockingIOError:
    print("no connection attempt has reached the peer so far")

t0 = time.time()
stopper = threading.Thread(target=node.stop, kwargs={"wait_timeout": 5})
stopper.start()
limit = time.time() + 3      # (a repaired stop() may wait for the I/O thread)
while not node._stopping and time.time() < limit:
    time.sleep(0.01)
time.sleep(0.2)
print(f"t={time.time()-t0:4.1f}s stop() is running, node._stopping = "
      f"{node._stopping}")
stop_begun.set()

srv.settimeout(5)
dialled = False
got = None
try:
    c2, addr = srv.accept()
    dialled = True
    t_dial = time.time() - t0
    print(f"t={t_dial:4.1f}s the peer's listening socket accepted a NEW "
          f"connection from the node ({addr[0]}:{addr[1]})")
    c2.settimeout(3)
    try:
        data = c2.recv(4096)
        if len(data) >= 20:
            got = Message.from_bytes(data)
            print(f"t={time.time()-t0:4.1f}s ... and received on it: {got}")
        elif not data:
            print(f"t={time.time()-t0:4.1f}s ... which was closed again")
    except ConnectionResetError:
        print(f"t={time.time()-t0:4.1f}s ... which was reset again")
    except socket.timeout:
        pass
    c2.close()
except socket.timeout:
    print("no connection attempt reached the peer")
stopper.join(30)
print(f"t={time.time()-t0:4.1f}s stop() returned")
srv.close()

print()
print("property C18: '... and sends no watchdogs and dials no peers while "
      "stopping'")
if dialled:
    print(f"OBSERVED : {t_dial:.1f}s after stop() had set _stopping the node "
          f"dialled its persistent peer (TCP connection established"
          + (f", {got.name} sent" if got is not None else "") + ")")
    print("REQUIRED : no peer is dialled once stop() has begun; the test of "
          "the flag and the connect() must not be separable by stop() "
          "(same lock in stop() and in _add_peer_connection/_check_timers, "
          "or a re-test right before connect()/send_dwr())")
    sys.exit(1)
print("no violation: the node did not dial while stopping")
sys.exit(0)
