"""C12 / finding 2

A persistent peer (always_reconnect = False) that the node has dialled sends a
Disconnect-Peer-Request and closes its socket right after it, without waiting
for the DPA (cf. the docstring of Node.stop: "Some diameter vendors may also
already close the socket from their end immediately").

The node's I/O thread only *queues* the received bytes for the connection's
reader thread, but handles the end-of-file itself, at once. The end-of-file
therefore overtakes the DPR that was received before it:

    node I/O thread                           reader thread of the connection
    ---------------                           -------------------------------
    recv() -> DPR bytes -> add_in_bytes()
    recv() -> b""
    close_connection_socket(GONE_AWAY)
      peer.disconnect_reason = GONE_AWAY
      conn.state = CLOSED
                                              parses the DPR
                                              "connection is closing, ignoring
                                              received message"

The loss followed a DPR, but the peer's disconnect reason says "gone away" and
the peer is dialled again after reconnect_wait.

The schedule is forced by delaying the reader thread just before it parses the
DPR (bounded, 5 s at most). Without any forcing, 9 of 40 runs of the same
exchange ended this way.

exit 1 = violation observed, exit 0 = the DPR was recorded and no redial
"""
import os
import socket
import sys
import threading
import time

from diameter.message import Message, constants
from diameter.message.commands import DisconnectPeerRequest
from diameter.node import Node
from diameter.node import peer as peer_mod
from diameter.node.peer import DISCONNECT_REASON_DPR

HOST = "127.0.0.1"
threading.excepthook = lambda a: print(
    f"   thread {a.thread.name!r} ended with {a.exc_value!r}")

listener = socket.socket(socket.AF_INET, socket.SOCK_STREAM)
listener.setsockopt(socket.SOL_SOCKET, socket.SO_REUSEADDR, 1)
listener.bind((HOST, 0))
listener.listen(8)
PORT = listener.getsockname()[1]
dial_times = []
dpr_sent_at = []
stop_server = threading.Event()


def read_msg(s):
    buf = b""
    while len(buf) < 20 or len(buf) < int.from_bytes(buf[1:4], "big"):
        chunk = s.recv(4096)
        if not chunk:
            return None
        buf += chunk
    return buf


def server():
    listener.settimeout(0.2)
    while not stop_server.is_set():
        try:
            c, _ = listener.accept()
        except socket.timeout:
            continue
        except OSError:
            return
        dial_times.append(time.time())
        c.settimeout(5)
        try:
            raw = read_msg(c)
            if raw is None:
                c.close()
                continue
            cer = Message.from_bytes(raw)
            cea = cer.to_answer()
            cea.origin_host = b"peer.example.net"
            cea.origin_realm = b"example.net"
            cea.result_code = constants.E_RESULT_CODE_DIAMETER_SUCCESS
            cea.host_ip_address = [HOST]
            cea.vendor_id = 1
            cea.product_name = "fake"
            c.sendall(cea.as_bytes())
            time.sleep(0.3)

            dpr = DisconnectPeerRequest()
            dpr.header.hop_by_hop_identifier = 7
            dpr.header.end_to_end_identifier = 7007
            dpr.origin_host = b"peer.example.net"
            dpr.origin_realm = b"example.net"
            dpr.disconnect_cause = constants.E_DISCONNECT_CAUSE_DO_NOT_WANT_TO_TALK_TO_YOU
            c.sendall(dpr.as_bytes())
            dpr_sent_at.append(time.time())
        except Exception as e:
            print("   server:", e)
        # hang up without waiting for the DPA
        c.close()


srv = threading.Thread(target=server, daemon=True)
srv.start()

node = Node("node.example.net", "example.net")
node.wakeup_interval = 1
peer = node.add_peer(f"aaa://peer.example.net:{PORT}", "example.net",
                     ip_addresses=[HOST], is_persistent=True)
peer.reconnect_wait = 1
peer.always_reconnect = False

# ---- delay the reader thread in front of the DPR (scheduling only) --------
RealHeader = peer_mod.MessageHeader
armed = [True]


class GatedHeader(RealHeader):
    @classmethod
    def from_bytes(cls, data):
        hdr = RealHeader.from_bytes(data)
        if (armed[0] and hdr.command_code == constants.CMD_DISCONNECT_PEER
                and hdr.is_request and len(data) >= hdr.length):
            t = time.time()
            # descheduled until the I/O thread has dealt with the end-of-file
            while peer.connection is not None and time.time() - t < 5:
                time.sleep(0.01)
        return hdr


peer_mod.MessageHeader = GatedHeader

node.start()

deadline = time.time() + 15
while time.time() < deadline and not dpr_sent_at:
    time.sleep(0.005)
# what the node has recorded once the first connection is gone
while time.time() < deadline and not (peer.connection is None
                                      and peer.last_disconnect):
    time.sleep(0.005)
first_loss_reason = peer.disconnect_reason
first_loss_dpr_count = peer.counters.dpr
# several reconnect cycles after the DPR
t_end = time.time() + 7
while time.time() < t_end:
    time.sleep(0.2)

t0 = dial_times[0]
print(f"observed: the peer was dialled {len(dial_times)} time(s), at "
      f"{[round(t - t0, 1) for t in dial_times]} s; DPR + close happened at "
      f"{[round(t - t0, 1) for t in dpr_sent_at]} s")
print(f"observed: after the first loss peer.disconnect_reason = "
      f"{hex(first_loss_reason) if first_loss_reason else None} "
      f"(GONE_AWAY is 0x31, DPR would be {hex(DISCONNECT_REASON_DPR)}); DPRs "
      f"handled = {first_loss_dpr_count}; always_reconnect = "
      f"{peer.always_reconnect}")
print("required: the peer's disconnect reason records the DPR, and a "
      "persistent peer is NOT dialled again when the loss followed a DPR and "
      "it is not marked always-reconnect")

violation = (len(dial_times) > 1
             or first_loss_reason != DISCONNECT_REASON_DPR)

stop_server.set()
try:
    node.stop(wait_timeout=2, force=True)
except Exception as e:
    print("cleanup:", e)
listener.close()
sys.stdout.flush()
if violation:
    print("VIOLATION: the end-of-file overtook the queued DPR; the loss is "
          "recorded as 'gone away' and the peer is dialled again")
    sys.stdout.flush()
    os._exit(1)
print("ok: DPR recorded, peer left alone")
sys.stdout.flush()
os._exit(0)
