"""SupplementaryService.aoc_information (container class AocInformation) is bound
to AoC-Subscription-Information (2314) instead of AoC-Information (2054).

exit 1: violation present, exit 0: behaves as the property says.
"""
import re
import sys

from diameter.message import Message
from diameter.message.avp import Avp
from diameter.message.avp.dictionary import AVP_VENDOR_DICTIONARY
from diameter.message.avp.grouped import (
    AocInformation, AocSubscriptionInformation, MmtelInformation,
    ServiceInformation, SupplementaryService)
from diameter.message.commands import CreditControlRequest
from diameter.message.constants import *

ATTR = "aoc_information"
bad = []


def base_ccr() -> CreditControlRequest:
    ccr = CreditControlRequest()
    ccr.session_id = "host.example;1;1"
    ccr.origin_host = b"host.example"
    ccr.origin_realm = b"example"
    ccr.destination_realm = b"example"
    ccr.service_context_id = "32275@3gpp.org"
    ccr.cc_request_type = E_CC_REQUEST_TYPE_EVENT_REQUEST
    ccr.cc_request_number = 0
    return ccr


# --- 1. the table ------------------------------------------------------------
gen_def = [d for d in SupplementaryService.avp_def if d.attr_name == ATTR][0]
denoted = AVP_VENDOR_DICTIONARY[gen_def.vendor_id][gen_def.avp_code]
container_avp = re.search(r'"([^"]+)" \((\d+)\)', gen_def.type_class.__doc__)
print(f"SupplementaryService.{ATTR}: container class "
      f"{gen_def.type_class.__name__} (documented as the "
      f"{container_avp.group(1)} ({container_avp.group(2)}) grouped AVP), "
      f"defined as AVP ({gen_def.avp_code}, {gen_def.vendor_id}) = {denoted['name']}")
others = [(d.attr_name, d.type_class.__name__) for d in AocInformation.avp_def
          if (d.avp_code, d.vendor_id) == (gen_def.avp_code, gen_def.vendor_id)]
print(f"the same AVP ({gen_def.avp_code}, {gen_def.vendor_id}) is what "
      f"AocInformation itself declares as {others}")
if gen_def.avp_code != AVP_TGPP_AOC_INFORMATION:
    bad.append("aoc_information / AocInformation does not denote the dictionary "
               "AVP AoC-Information (2054) but AoC-Subscription-Information (2314)")

# --- 2. encoding ---------------------------------------------------------------
ccr = base_ccr()
ccr.service_information = ServiceInformation(
    mmtel_information=MmtelInformation(supplementary_service=[
        SupplementaryService(
            mmtel_service_type=1,
            aoc_information=AocInformation(
                aoc_subscription_information=AocSubscriptionInformation(
                    aoc_format=E_AOC_FORMAT_MONETARY)))]))
ccr.as_bytes()
ss = ccr.find_avps((AVP_TGPP_SERVICE_INFORMATION, VENDOR_TGPP),
                   (AVP_TGPP_MMTEL_INFORMATION, VENDOR_TGPP),
                   (AVP_TGPP_SUPPLEMENTARY_SERVICE, VENDOR_TGPP))[0]


def dump(avp, indent=2):
    print(" " * indent + str(avp))
    if isinstance(avp.value, list):
        for a in avp.value:
            dump(a, indent + 2)


print("encoding SupplementaryService(aoc_information=AocInformation("
      "aoc_subscription_information=AocSubscriptionInformation(aoc_format=0))) gives:")
dump(ss)
emitted = [a for a in ss.value if a.code != AVP_TGPP_MMTEL_SERVICE_TYPE]
if not emitted or emitted[0].code != AVP_TGPP_AOC_INFORMATION:
    bad.append("the AVP emitted for aoc_information is AoC-Subscription-Information "
               "(with another AoC-Subscription-Information nested in it), not "
               "AoC-Information")

# --- 3. decoding a conformant Supplementary-Service (TS 32.299) ---------------
ccr = base_ccr()
ccr.append_avp(Avp.new(AVP_TGPP_SERVICE_INFORMATION, VENDOR_TGPP, value=[
    Avp.new(AVP_TGPP_MMTEL_INFORMATION, VENDOR_TGPP, value=[
        Avp.new(AVP_TGPP_SUPPLEMENTARY_SERVICE, VENDOR_TGPP, value=[
            Avp.new(AVP_TGPP_AOC_INFORMATION, VENDOR_TGPP, value=[
                Avp.new(AVP_TGPP_AOC_SUBSCRIPTION_INFORMATION, VENDOR_TGPP, value=[
                    Avp.new(AVP_TGPP_AOC_FORMAT, VENDOR_TGPP,
                            value=E_AOC_FORMAT_MONETARY)])])])])]))
wire = ccr.as_bytes()
dec = Message.from_bytes(wire)
dec_ss = dec.service_information.mmtel_information.supplementary_service[0]
print(f"decoding Supplementary-Service {{ AoC-Information {{ AoC-Subscription-"
      f"Information {{ AoC-Format }} }} }}: aoc_information = "
      f"{dec_ss.aoc_information!r}; re-encoded length {len(dec.as_bytes())} "
      f"(received {len(wire)})")
if dec_ss.aoc_information is None:
    bad.append("a received AoC-Information is not exposed through "
               "SupplementaryService.aoc_information")

print()
print("property requires: each declared attribute denotes exactly one dictionary "
      "AVP (a grouped one whenever the attribute has a container class) - "
      "aoc_information with container AocInformation must map onto AoC-Information "
      "(2054/10415), be emitted with that code and restored on decode")
if bad:
    print("VIOLATION:")
    for b in bad:
        print("  -", b)
    sys.exit(1)
print("ok")
sys.exit(0)
