"""PsInformation.pdn_connection_charging_id is bound to PDN-Connection-ID (1065)
instead of the dictionary AVP of its own name, PDN-Connection-Charging-ID (2050).

exit 1: violation present, exit 0: behaves as the property says.
"""
import sys

from diameter.message import Message
from diameter.message.avp import Avp
from diameter.message.avp.dictionary import AVP_VENDOR_DICTIONARY
from diameter.message.avp.grouped import PsInformation, ServiceInformation
from diameter.message.commands import CreditControlRequest
from diameter.message.constants import *

ATTR = "pdn_connection_charging_id"
bad = []


def base_ccr() -> CreditControlRequest:
    ccr = CreditControlRequest()
    ccr.session_id = "host.example;1;1"
    ccr.origin_host = b"host.example"
    ccr.origin_realm = b"example"
    ccr.destination_realm = b"example"
    ccr.service_context_id = "32251@3gpp.org"
    ccr.cc_request_type = E_CC_REQUEST_TYPE_INITIAL_REQUEST
    ccr.cc_request_number = 0
    return ccr


# --- 1. the table: which dictionary AVP does the attribute denote? ----------
gen_def = [d for d in PsInformation.avp_def if d.attr_name == ATTR][0]
denoted = AVP_VENDOR_DICTIONARY[gen_def.vendor_id][gen_def.avp_code]
same_name = [(code, vendor, e) for vendor, entries in AVP_VENDOR_DICTIONARY.items()
             for code, e in entries.items()
             if e["name"].replace("-", "_").lower() == ATTR]
print(f"PsInformation.{ATTR} is defined as AVP ({gen_def.avp_code}, "
      f"{gen_def.vendor_id}) = {denoted['name']} / {denoted['type'].__name__}")
for code, vendor, e in same_name:
    print(f"the dictionary AVP of that name is ({code}, {vendor}) = "
          f"{e['name']} / {e['type'].__name__}")
if (gen_def.avp_code, gen_def.vendor_id) not in [(c, v) for c, v, _ in same_name]:
    bad.append("attribute denotes a different dictionary AVP than the one "
               "carrying its name")

# --- 2. encoding: which AVP is put on the wire for the attribute? ------------
emitted = None
for value in (7, b"\x00\x00\x00\x07"):
    ccr = base_ccr()
    ccr.service_information = ServiceInformation(
        ps_information=PsInformation(**{ATTR: value}))
    try:
        ccr.as_bytes()
    except Exception as e:
        print(f"setting {ATTR}={value!r}: {type(e).__name__}: {e}")
        continue
    found = ccr.find_avps((AVP_TGPP_SERVICE_INFORMATION, VENDOR_TGPP),
                          (AVP_TGPP_PS_INFORMATION, VENDOR_TGPP))[0].value
    emitted = found[0]
    print(f"setting {ATTR}={value!r} emits: {emitted}")
    break
if emitted is None or emitted.code != AVP_TGPP_PDN_CONNECTION_CHARGING_ID:
    bad.append("the AVP emitted for the attribute is not "
               "PDN-Connection-Charging-ID (2050)")

# --- 3. decoding a conformant PS-Information (TS 32.299) ----------------------
ccr = base_ccr()
ccr.append_avp(Avp.new(AVP_TGPP_SERVICE_INFORMATION, VENDOR_TGPP, value=[
    Avp.new(AVP_TGPP_PS_INFORMATION, VENDOR_TGPP, value=[
        Avp.new(AVP_TGPP_PDN_CONNECTION_CHARGING_ID, VENDOR_TGPP, value=7),
    ])
]))
wire = ccr.as_bytes()
dec = Message.from_bytes(wire)
got = getattr(dec.service_information.ps_information, ATTR)
print(f"decoding PS-Information {{ PDN-Connection-Charging-ID = 7 }}: "
      f"ps_information.{ATTR} = {got!r}; re-encoded length {len(dec.as_bytes())} "
      f"(received {len(wire)})")
if got != 7:
    bad.append("a received PDN-Connection-Charging-ID is not exposed through "
               "the attribute of that name")

print()
print("property requires: each declared attribute denotes exactly one dictionary "
      "AVP - pdn_connection_charging_id must map 1:1 onto PDN-Connection-Charging-ID "
      "(2050/10415, Unsigned32), be emitted with that code and restored on decode")
if bad:
    print("VIOLATION:")
    for b in bad:
        print("  -", b)
    sys.exit(1)
print("ok")
sys.exit(0)
