"""C19 / finding 1

A request that an application thread is routing (Node.route_request) while the
node thread removes the selected connection is registered in
Node._app_waiting_answer AFTER remove_peer_connection has swept the table.
The entry is keyed by the ident of a connection that no longer exists, so no
answer can ever pop it and no later removal sweeps it: it stays for ever, one
more for every connection loss that hits the window.

Scheduling device: the documented, subclassable SequenceGenerator of the
connection (conn.hop_by_hop_seq) is replaced by a subclass whose
next_sequence() is slow (think "persists the counter"); route_request calls it
after it has chosen the connection and before it registers the request. While
it runs, the peer closes the socket and the node's I/O loop removes the
connection. Nothing private is touched; real TCP sockets on loopback.

exit 1 = entries of dead connections are retained (violation)
exit 0 = nothing retained
"""
import logging
import os
import socket
import sys
import threading
import time

from diameter.message import Message
from diameter.message.commands import CreditControlRequest
from diameter.node import Node
from diameter.node.application import Application
from diameter.node._helpers import SequenceGenerator
from diameter.node.peer import PEER_READY

logging.disable(logging.CRITICAL)
ROUNDS = 5


def recv_msg(s):
    buf = b""
    while len(buf) < 20:
        c = s.recv(4096)
        if not c:
            return None
        buf += c
    ln = int.from_bytes(buf[1:4], "big")
    while len(buf) < ln:
        c = s.recv(4096)
        if not c:
            return None
        buf += c
    return Message.from_bytes(buf[:ln])


class Server:
    """A peer that completes CER/CEA and closes the socket when told to."""
    def __init__(self):
        self.ls = socket.socket()
        self.ls.setsockopt(socket.SOL_SOCKET, socket.SO_REUSEADDR, 1)
        self.ls.bind(("127.0.0.1", 0))
        self.ls.listen(5)
        self.port = self.ls.getsockname()[1]
        self.current = None
        self.running = True
        threading.Thread(target=self.run, daemon=True).start()

    def run(self):
        while self.running:
            try:
                s, _ = self.ls.accept()
            except OSError:
                return
            try:
                cer = recv_msg(s)
                cea = cer.to_answer()
                cea.origin_host = b"server.realm.net"
                cea.origin_realm = b"realm.net"
                cea.result_code = 2001
                cea.host_ip_address = ["127.0.0.1"]
                cea.vendor_id = 1
                cea.product_name = "demo"
                cea.auth_application_id = [4]
                s.sendall(cea.as_bytes())
                self.current = s
            except Exception:
                s.close()

    def close_current(self):
        s, self.current = self.current, None
        if s:
            s.close()


class SlowSeq(SequenceGenerator):
    """A hop-by-hop generator whose next_sequence() takes a while."""
    def __init__(self, while_busy):
        super().__init__()
        self.while_busy = while_busy

    def next_sequence(self) -> int:
        self.while_busy()
        return super().next_sequence()


class App(Application):
    def handle_request(self, message):
        pass


def ccr():
    m = CreditControlRequest()
    m.header.application_id = 4
    m.session_id = "demo;1"
    m.origin_host = b"client.realm.net"
    m.origin_realm = b"realm.net"
    m.destination_realm = b"realm.net"
    m.auth_application_id = 4
    m.service_context_id = "demo"
    m.cc_request_type = 1
    m.cc_request_number = 0
    return m


def wait_for(cond, timeout=15):
    end = time.time() + timeout
    while time.time() < end:
        if cond():
            return True
        time.sleep(0.02)
    return False


def main():
    srv = Server()
    node = Node("client.realm.net", "realm.net")
    node.wakeup_interval = 1
    peer = node.add_peer(f"aaa://server.realm.net:{srv.port}", "realm.net",
                         ip_addresses=["127.0.0.1"], is_persistent=True)
    peer.reconnect_wait = 0
    app = App(4, is_auth_application=True)
    node.add_application(app, [peer])
    node.start()

    sizes = []
    old = None
    for rnd in range(1, ROUNDS + 1):
        if not wait_for(lambda: peer.connection is not None and
                        peer.connection is not old and
                        peer.connection.state == PEER_READY and
                        srv.current is not None):
            print("setup failed: no ready connection")
            os._exit(2)
        conn = old = peer.connection

        def peer_goes_away(conn=conn):
            # the peer closes the socket; wait until the node's own I/O loop
            # has read the EOF and removed the connection
            srv.close_current()
            if not wait_for(lambda: conn.ident not in node.connections):
                print("setup failed: connection was not removed")
                os._exit(2)

        conn.hop_by_hop_seq = SlowSeq(peer_goes_away)
        try:
            app.send_request(ccr(), timeout=1)
            outcome = "answered?!"
        except TimeoutError:
            outcome = "TimeoutError"
        except Exception as e:
            outcome = repr(e)
        dead = [k for k in node._app_waiting_answer
                if k.split(":")[0] not in node.connections]
        sizes.append(len(dead))
        print(f"round {rnd}: connection {conn.ident} lost while a request was "
              f"being routed; send_request -> {outcome}; entries of dead "
              f"connections in Node._app_waiting_answer: {len(dead)}")

    peer.persistent = False
    srv.running = False
    srv.close_current()
    wait_for(lambda: not node.connections, 10)
    for c in list(node.connections.values()):
        node.close_connection_socket(c)
    node.stop(wait_timeout=2)
    srv.ls.close()

    retained = len(node._app_waiting_answer)
    print(f"after every connection has ended and the node was stopped: "
          f"len(node.connections)={len(node.connections)}, "
          f"len(node._app_waiting_answer)={retained}, "
          f"len(app._answer_waiting)={len(app._answer_waiting)}")
    print("keys:", list(node._app_waiting_answer))
    print("property requires: table entries of a connection are released when "
          "the connection closes; retained state independent of the number of "
          "connection losses (expected 0 entries)")
    if retained > 0:
        print(f"VIOLATION: {retained} entries after {ROUNDS} connection "
              f"losses (growth per round: {sizes})")
        code = 1
    else:
        print("OK: nothing retained")
        code = 0
    sys.stdout.flush()
    os._exit(code)


if __name__ == "__main__":
    main()
