"""
C14 demo 3: a request handler of a basic `Application` that ends with an
exception which is not an `Exception` subclass (SystemExit from a stray
sys.exit(), asyncio.CancelledError, ...) terminates the connection's reader
thread.

ThreadingApplication got exactly this repair (commit 4dfff0b: "the thread slot
is returned whatever ends the request handler", naming SystemExit and
asyncio.CancelledError); the sibling path did not: a basic Application's
handle_request() runs on PeerConnection.work_read_queue via
Node._receive_message, and both only catch `Exception`.  The reader thread
ends, the connection stays READY in every table with its socket open, and every
further request the peer sends on it is read from the socket, queued and never
looked at (until, much later, the node's own watchdog gives up on the
connection).

exit 1: reader thread dead and the next request on the connection unanswered
exit 0: reader thread alive and the next request answered
"""
import asyncio, logging, os, socket, sys, threading, time

from diameter.message import Message, constants
from diameter.message.commands import (CapabilitiesExchangeRequest,
                                       CreditControlRequest)
from diameter.node import Node
from diameter.node.application import Application

logging.basicConfig(level=logging.CRITICAL)


def free_port():
    s = socket.socket(); s.bind(("127.0.0.1", 0)); p = s.getsockname()[1]; s.close()
    return p


def read_msg(s, timeout):
    s.settimeout(timeout)
    buf = b""
    try:
        while len(buf) < 20:
            d = s.recv(20 - len(buf))
            if not d:
                return None
            buf += d
        ln = int.from_bytes(buf[1:4], "big")
        while len(buf) < ln:
            d = s.recv(ln - len(buf))
            if not d:
                return None
            buf += d
    except (socket.timeout, OSError):
        return None
    return Message.from_bytes(buf)


def cer() -> bytes:
    m = CapabilitiesExchangeRequest()
    m.header.hop_by_hop_identifier = 1
    m.header.end_to_end_identifier = 1
    m.origin_host = b"client.example"
    m.origin_realm = b"example"
    m.host_ip_address = ["127.0.0.1"]
    m.vendor_id = 1
    m.product_name = "demo"
    m.auth_application_id = [4]
    return m.as_bytes()


def ccr(n: int) -> bytes:
    m = CreditControlRequest()
    m.header.application_id = 4
    m.header.hop_by_hop_identifier = n
    m.header.end_to_end_identifier = n
    m.session_id = f"demo;{n}"
    m.origin_host = b"client.example"
    m.origin_realm = b"example"
    m.destination_realm = b"example"
    m.auth_application_id = 4
    m.service_context_id = "demo"
    m.cc_request_type = 1
    m.cc_request_number = 0
    return m.as_bytes()


class MyApp(Application):
    """The documented way of using the basic application: override
    handle_request and send the answer with send_answer."""
    calls = 0

    def handle_request(self, message):
        MyApp.calls += 1
        if MyApp.calls == 1:
            # e.g. a handler bridging into asyncio whose task was cancelled;
            # `raise SystemExit` (a stray sys.exit()) behaves the same
            raise asyncio.CancelledError()
        self.send_answer(self.generate_answer(message, result_code=2001))


port = free_port()
node = Node("server.example", "example", ip_addresses=["127.0.0.1"], tcp_port=port)
node.wakeup_interval = 1
peer = node.add_peer("aaa://client.example", "example")
app = MyApp(constants.APP_DIAMETER_CREDIT_CONTROL_APPLICATION, is_auth_application=True)
node.add_application(app, [peer])
node.start()

thread_errors = []
threading.excepthook = lambda a: thread_errors.append(
    f"{a.thread.name}: {a.exc_type.__name__}")

c = socket.create_connection(("127.0.0.1", port))
c.sendall(cer())
cea = read_msg(c, 5)
assert cea is not None and cea.result_code == 2001, "baseline handshake failed"
conn = peer.connection

c.sendall(ccr(10))             # handler raises CancelledError
time.sleep(1.0)
c.sendall(ccr(11))             # handler would answer 2001
answer = read_msg(c, 4)
# (adapted after the repair: the request whose handler ended abnormally is answered 5012 by
# the node now; the answer of interest is the one to the second request)
if answer is not None and answer.header.hop_by_hop_identifier != 11 and answer.result_code == 5012:
    answer = read_msg(c, 4)

reader_alive = conn._read_thread.is_alive()
print("handler calls:", MyApp.calls)
print("uncaught in thread ->", thread_errors)
print("reader thread of the connection alive:", reader_alive)
print("connection still in node tables:", conn.ident in node.connections,
      "state READY:", conn.state == 0x12)
print("answer to the second request:",
      answer.result_code if answer is not None else "none within 4 s")

if reader_alive and answer is not None and answer.result_code == 2001:
    print("OK: the reader survived the handler outcome")
    code = 0
else:
    print("OBSERVED: the handler outcome ended PeerConnection.work_read_queue; "
          "the connection stays READY but nothing reads its queue any more")
    print("REQUIRED: 'a request handler raises ... no node, connection or "
          "application worker thread terminates abnormally'")
    code = 1

c.close()
sys.stdout.flush()
os._exit(code)
