"""C17 / finding 3: Node._origin_waiting_answer is keyed by
'<connection>:<hop-by-hop>:<end-to-end>' and stores ONE origin host per key.
Two outstanding requests of two origin hosts that arrive over the same
connection (a relay) under the same identifier pair share the entry: the later
request overwrites the earlier one's origin.  The answer to the first request
is then entered into the OTHER origin's window:

  * the T-flagged repeat of the answered request (origin X) is delivered to
    the application again instead of being answered 5012;
  * the T-flagged repeat of the request that was never answered (origin Y) is
    rejected as a duplicate.

Commit 5284325 repaired exactly this for two connections; inside one
connection it is still there (both identifiers are chosen by the peer).

Run:  PYTHONPATH=/repo/src /venv/bin/python /repo/_audit/3/demo.py
exit 1 = violation observed, exit 0 = behaves as the property says.
"""
import os
import sys
import traceback

from diameter.message import Message, constants
from diameter.message.commands import (CapabilitiesExchangeRequest,
                                       CreditControlRequest)
from diameter.node import Node
from diameter.node.node import NotRoutable
from diameter.node.application import Application
from diameter.node.peer import (PeerConnection, PEER_RECV, PEER_CONNECTED,
                                PEER_READY, PEER_TRANSPORT_TCP)

X = b"client-x.example.com"
Y = b"client-y.example.com"
CONNS = []


class FakeSock:
    def fileno(self): return 4713
    def close(self): pass
    def setsockopt(self, *a): pass


class App(Application):
    def __init__(self):
        super().__init__(constants.APP_DIAMETER_CREDIT_CONTROL_APPLICATION,
                         is_auth_application=True)
        self.delivered = []

    def handle_request(self, message):
        self.delivered.append(message)


def ccr(origin, hbh, e2e, t=False):
    m = CreditControlRequest()
    m.header.application_id = 4
    m.header.hop_by_hop_identifier = hbh
    m.header.end_to_end_identifier = e2e
    m.header.is_retransmit = t
    m.session_id = origin.decode() + ";1;1"
    m.origin_host = origin
    m.origin_realm = b"example.com"
    m.destination_realm = b"example.com"
    m.auth_application_id = 4
    m.service_context_id = "ctx@example.com"
    m.cc_request_type = constants.E_CC_REQUEST_TYPE_EVENT_REQUEST
    m.cc_request_number = 0
    return Message.from_bytes(m.as_bytes())


def main():
    node = Node("srv.example.com", "example.com")
    node.retransmit_queue_size = 4
    peer = node.add_peer("aaa://relay.example.com", "example.com")
    app = App()
    node.add_application(app, [peer])

    conn = PeerConnection("10.0.0.1", 3868, PEER_RECV, node.interrupt_write)
    CONNS.append(conn)
    conn.state = PEER_CONNECTED
    node._add_peer_connection(conn, FakeSock(), PEER_TRANSPORT_TCP)
    wire = []
    conn.add_out_msg = wire.append

    cer = CapabilitiesExchangeRequest()
    cer.header.hop_by_hop_identifier = 1
    cer.header.end_to_end_identifier = 0x100
    cer.origin_host = b"relay.example.com"
    cer.origin_realm = b"example.com"
    cer.host_ip_address = ["10.0.0.1"]
    cer.vendor_id = 1
    cer.product_name = "relay"
    cer.auth_application_id = [4]
    node._receive_message(conn, Message.from_bytes(cer.as_bytes()))
    assert conn.state == PEER_READY

    req_x = ccr(X, 7, 5)
    req_y = ccr(Y, 7, 5)          # same (hop-by-hop, end-to-end), other origin
    node._receive_message(conn, req_x)
    node._receive_message(conn, req_y)
    assert len(app.delivered) == 2

    # the application answers X's request; its answer to Y's cannot be routed
    # any more (one routing entry per pair) - Y's request stays unanswered
    app.send_answer(app.generate_answer(req_x, result_code=2001))
    y_answered = True
    try:
        app.send_answer(app.generate_answer(req_y, result_code=2001))
    except NotRoutable as e:
        y_answered = False
        print("answer to Y's request was refused by the node:", e)

    ccas = [m for m in wire if m.header.command_code == 272]
    print("answers on the wire (session, result):",
          [(m.session_id, m.result_code) for m in ccas])
    print("retransmission windows:",
          {k: list(v) for k, v in node._sent_answers.items()
           if k in (X, Y)})

    # T-flagged repeat of X's answered request
    n_del, n_wire = len(app.delivered), len(wire)
    node._receive_message(conn, ccr(X, 21, 5, t=True))
    x_redelivered = len(app.delivered) - n_del
    x_results = [m.result_code for m in wire[n_wire:]]
    print("repeat (T) of X's answered request: delivered %d time(s), node "
          "answers %r   [required: 0 deliveries, answer 5012]"
          % (x_redelivered, x_results))

    # T-flagged repeat of Y's request
    n_del, n_wire = len(app.delivered), len(wire)
    node._receive_message(conn, ccr(Y, 22, 5, t=True))
    y_redelivered = len(app.delivered) - n_del
    y_results = [m.result_code for m in wire[n_wire:]]
    print("repeat (T) of Y's %s request: delivered %d time(s), node answers "
          "%r" % ("answered" if y_answered else "never answered",
                  y_redelivered, y_results))

    bad = []
    if x_redelivered or x_results != [5012]:
        bad.append("X's request was answered (2001 on the wire) but its "
                   "T-flagged repeat was delivered to the application again")
    if not y_answered and 5012 in y_results and not y_redelivered:
        bad.append("Y's request was never answered but its T-flagged repeat "
                   "was rejected as a duplicate (5012)")
    if not bad:
        print("OK: behaves as the property says")
        return 0
    for b in bad:
        print("VIOLATION:", b)
    return 1


if __name__ == "__main__":
    rc = 2
    try:
        rc = main()
    except BaseException:
        traceback.print_exc()
    finally:
        for c in CONNS:
            c.close(signal_node=False)
    sys.stdout.flush()
    os._exit(rc)
