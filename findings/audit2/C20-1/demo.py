"""C20 / finding 1

A request whose Session-Id (or one of its Proxy-Info AVPs) is present but has a
value the typed decoder cannot convert is answered WITHOUT that AVP: the
answer helpers copy the decoded python attribute (None after the decode
error), not the AVP of the request.

exit 1 = violation observed, exit 0 = behaves as the property says.
"""
import struct
import sys

from diameter.message import Message, Avp
from diameter.message.commands import CreditControlRequest, CreditControlAnswer
from diameter.message.constants import *
from diameter.node import Node
from diameter.node.application import SimpleThreadingApplication


def raw_avp(code: int, flags: int, payload: bytes) -> bytes:
    length = 8 + len(payload)
    pad = (4 - length % 4) % 4
    return struct.pack("!II", code, (flags << 24) | length) + payload + b"\x00" * pad


# Session-Id as sent by a peer that encodes its host name in latin-1
SESSION_ID_RAW = "höst.example;1;2".encode("latin-1")      # not valid UTF-8
session_id = raw_avp(AVP_SESSION_ID, 0x40, SESSION_ID_RAW)

good_proxy = raw_avp(AVP_PROXY_INFO, 0x40,
                     raw_avp(AVP_PROXY_HOST, 0x40, b"relay1.example") +
                     raw_avp(AVP_PROXY_STATE, 0x40, b"state-1"))
# second Proxy-Info: the member's length field runs past the group
bad_member = struct.pack("!II", AVP_PROXY_STATE, (0x40 << 24) | 64) + b"xx\x00\x00"
bad_proxy = raw_avp(AVP_PROXY_INFO, 0x40,
                    raw_avp(AVP_PROXY_HOST, 0x40, b"relay2.example") + bad_member)

body = (session_id +
        Avp.new(AVP_ORIGIN_HOST, value=b"client.example").as_bytes() +
        Avp.new(AVP_ORIGIN_REALM, value=b"example").as_bytes() +
        Avp.new(AVP_DESTINATION_REALM, value=b"realm.example").as_bytes() +
        Avp.new(AVP_AUTH_APPLICATION_ID, value=4).as_bytes() +
        Avp.new(AVP_SERVICE_CONTEXT_ID, value="ctx").as_bytes() +
        Avp.new(AVP_CC_REQUEST_TYPE, value=1).as_bytes() +
        Avp.new(AVP_CC_REQUEST_NUMBER, value=0).as_bytes() +
        good_proxy + bad_proxy)
wire = struct.pack("!IIIII", (1 << 24) | (20 + len(body)), (0xc0 << 24) | 272,
                   4, 0x11, 0x22) + body

req = Message.from_bytes(wire)
assert isinstance(req, CreditControlRequest)
n_sid_req = len(Message.from_bytes(wire, plain_msg=True).find_avps((AVP_SESSION_ID, 0)))
n_pi_req = len(Message.from_bytes(wire, plain_msg=True).find_avps((AVP_PROXY_INFO, 0)))
print(f"request: {n_sid_req} Session-Id AVP (raw {SESSION_ID_RAW!r}), "
      f"{n_pi_req} Proxy-Info AVPs")

node = Node("server.realm.example", "realm.example")
app = SimpleThreadingApplication(4, is_auth_application=True)
app._node = node

failed = False
for how, make in (("Node._generate_answer", lambda: node._generate_answer(None, req)),
                  ("Application.generate_answer", lambda: app.generate_answer(req, 2001))):
    ans = make()
    assert isinstance(ans, CreditControlAnswer)
    dec = Message.from_bytes(ans.as_bytes(), plain_msg=True)
    sids = dec.find_avps((AVP_SESSION_ID, 0))
    pis = dec.find_avps((AVP_PROXY_INFO, 0))
    print(f"{how}: answer carries {len(sids)} Session-Id AVP(s) "
          f"and {len(pis)} Proxy-Info AVP(s)")
    if len(sids) != n_sid_req:
        failed = True
    if len(pis) != n_pi_req:
        failed = True

print("property requires: answers generated through a node or application "
      "copy Session-Id and Proxy-Info from the request (1 Session-Id, 2 Proxy-Info)")
if failed:
    print("VIOLATION: the Session-Id / Proxy-Info present in the request is "
          "missing from the answer")
    sys.exit(1)
print("ok")
sys.exit(0)
