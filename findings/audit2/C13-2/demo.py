"""
C13 finding 2: an application that is registered (Node.add_application) for a
peer whose connection is already ready never reports ready.

History (2 peers, 2 applications):
  1. node started with application app_a (Credit-Control, id 4) for peer A
  2. peer B connects, CER (Auth-Application-Id 4) / CEA 2001 -> B is READY
  3. node.add_application(app_b, [peer B])     (second application of the same
     type for a different peer, as the application guide describes)

Property: "An application reports ready whenever at least one of its
configured peers has a ready connection".  Observed: app_b.is_ready stays
unset (wait_for_ready raises) although Peer(B).connection is READY and
route_request(app_b, ...) routes to it.  Readiness is only ever computed in
_flag_connection_as_ready / remove_peer_connection, i.e. when some connection
changes, never when the application's peer list is configured.
"""
import logging
import socket
import sys
import time

logging.disable(logging.CRITICAL)

from diameter.message import Message
from diameter.message.commands import (CapabilitiesExchangeRequest,
                                       CreditControlRequest)
from diameter.node import Node
from diameter.node.application import (SimpleThreadingApplication,
                                       ApplicationError)
from diameter.node.peer import PEER_READY_STATES
import diameter.node.node as nn


def free_port():
    s = socket.socket()
    s.bind(("127.0.0.1", 0))
    p = s.getsockname()[1]
    s.close()
    return p


def recv_msg(sock):
    sock.settimeout(5)
    buf = b""
    while len(buf) < 20 or len(buf) < int.from_bytes(buf[1:4], "big"):
        d = sock.recv(4096)
        if not d:
            return None
        buf += d
    return Message.from_bytes(buf[:int.from_bytes(buf[1:4], "big")])


port = free_port()
node = Node("node.realm", "realm", ip_addresses=["127.0.0.1"], tcp_port=port)
node.wakeup_interval = 0.2
pa = node.add_peer("aaa://pa.realm", "realm")
pb = node.add_peer("aaa://pb.realm", "realm")
app_a = SimpleThreadingApplication(4, is_auth_application=True)
node.add_application(app_a, [pa])
node.start()

b_sock = socket.create_connection(("127.0.0.1", port))
cer = CapabilitiesExchangeRequest()
cer.header.hop_by_hop_identifier = 1
cer.header.end_to_end_identifier = 1
cer.origin_host = b"pb.realm"
cer.origin_realm = b"realm"
cer.host_ip_address = "127.0.0.1"
cer.vendor_id = 1
cer.product_name = "B"
cer.auth_application_id = [4]
b_sock.sendall(cer.as_bytes())
cea = recv_msg(b_sock)
time.sleep(0.3)
print(f"B got CEA {cea.result_code}; Peer(B).connection state="
      f"{nn.state_names[pb.connection.state]}, supported auth apps "
      f"{pb.connection.auth_application_ids}")

app_b = SimpleThreadingApplication(4, is_auth_application=True)
node.add_application(app_b, [pb])
time.sleep(1.0)       # several wakeup intervals: nothing recomputes it either

peer_ready = (pb.connection is not None and
              pb.connection.state in PEER_READY_STATES)
try:
    app_b.wait_for_ready(timeout=1)
    waited = "returned"
except ApplicationError as e:
    waited = f"raised ApplicationError({e})"

ccr = CreditControlRequest()
ccr.header.end_to_end_identifier = 77
ccr.destination_realm = b"realm"
try:
    conn, _ = node.route_request(app_b, ccr)
    routed = f"routes to {conn} (state {nn.state_names[conn.state]})"
except Exception as e:
    routed = f"raised {e!r}"

print(f"after add_application(app_b, [B]): configured peer B has a ready "
      f"connection: {peer_ready}")
print(f"  app_b.is_ready.is_set() = {app_b.is_ready.is_set()}")
print(f"  app_b.wait_for_ready(1)  {waited}")
print(f"  node.route_request(app_b, ccr) {routed}")
print("required: an application reports ready whenever at least one of its "
      "configured peers has a ready connection")

violation = peer_ready and not app_b.is_ready.is_set()
b_sock.close()
node.stop(force=True)
if violation:
    print("VIOLATION: app_b is not ready although its configured peer B has "
          "a ready connection")
    sys.exit(1)
print("OK: no violation")
sys.exit(0)
