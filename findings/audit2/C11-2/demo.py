"""C11 finding 2: Peer.cer_timeout (the per-peer 'timeout waiting for a CER after
receiving a connection attempt') never takes precedence over Node.cer_timeout.

The only connections the setting is meant for are inbound connections that
have not sent their CER yet. For exactly those Node._find_connection_peer()
returns None (node_name and host_identity are both still empty; the source
address is not compared with Peer.ip_addresses), so Node._check_timers uses the
node default. Shown in both directions with a virtual clock.
"""
import sys
import time

from diameter.node import Node
from diameter.node.peer import (PeerConnection, PEER_RECV, PEER_CONNECTED,
                                PEER_CLOSED, PEER_TRANSPORT_TCP)

VT = [2_000_000.0]
time.time = lambda: VT[0]


class FakeSocket:
    def __init__(self, n): self.n = n
    def fileno(self): return self.n
    def close(self): pass
    def setsockopt(self, *a): pass


def run(node_cer_timeout, peer_cer_timeout, fileno):
    """Accept a connection from the configured peer's address, let `virtual`
    seconds pass without a CER, run the timer check every second; return the
    second at which the connection was closed (or None)."""
    node = Node("node.local.realm", "local.realm")
    node.cer_timeout = node_cer_timeout
    peer = node.add_peer("aaa://peer.local.realm", "local.realm",
                         ip_addresses=["10.1.2.3"])
    peer.cer_timeout = peer_cer_timeout

    t0 = VT[0]
    # what Node._handle_connections does after accept()
    conn = PeerConnection("10.1.2.3", 40000, PEER_RECV, node.interrupt_write)
    conn.state = PEER_CONNECTED
    node._add_peer_connection(conn, FakeSocket(fileno), PEER_TRANSPORT_TCP)
    closed_at = None
    try:
        for sec in range(1, 70):
            VT[0] = t0 + sec
            node._check_timers(conn)
            if conn.state == PEER_CLOSED:
                closed_at = sec
                break
    finally:
        conn.close(signal_node=False)
    return closed_at


problems = []

closed = run(node_cer_timeout=4, peer_cer_timeout=20, fileno=910)
print(f"node.cer_timeout=4,  peer.cer_timeout=20: connection from the peer's "
      f"address without CER closed after {closed} s (peer setting demands 21)")
if closed != 21:
    problems.append(
        f"peer.cer_timeout=20 ignored: closed after {closed} s, the node "
        f"default 4 s was applied")

closed = run(node_cer_timeout=60, peer_cer_timeout=2, fileno=911)
print(f"node.cer_timeout=60, peer.cer_timeout=2:  connection from the peer's "
      f"address without CER closed after {closed} s (peer setting demands 3)")
if closed != 3:
    problems.append(
        f"peer.cer_timeout=2 ignored: closed after {closed} s, the node "
        f"default 60 s was applied")

print()
print("REQUIRED: 'per-peer timer settings take precedence over the node "
      "defaults' (cer timeout, inbound connections).")
if problems:
    print("OBSERVED (violation):")
    for p in problems:
        print("  -", p)
    sys.exit(1)
print("OBSERVED: the per-peer CER timeout was applied - property holds")
sys.exit(0)
