"""C18 / finding 3

Node.close_connection_socket is run by the I/O thread (peer closed its end:
0 bytes read) and by a connection's reader thread (CEA with a failure result:
receive_cea) at the same time when a peer rejects the CER and closes - the
ordinary behaviour of a rejecting peer.  Both fetch the socket from
peer_sockets; the second one to reach setsockopt()/close() works on a closed
socket and gets OSError(EBADF).  In the I/O thread nothing catches it (commit
8b715c0 protected only the select() call): Node._handle_connections ends.

From then on nothing writes, reads, accepts or closes.  A later stop() queues
its DPR into a connection nobody serves, sits out the wait timeout, "stops"
and joins the dead thread - whose stop branch, the only code that closes the
peer sockets and ends the connection workers, never runs.  stop() returns
with the peer socket open and the connection's two worker threads alive for
ever (they are non-daemon threads: the interpreter cannot exit either).

The interleaving is fixed with logging filters (objects any user may attach
to the library's loggers; a slow log sink has the same effect): one holds the
reader thread before it dispatches the CEA, one holds the I/O thread at the
"shutting down socket" log line between the lookup and setsockopt().

exit 1 = violation observed, exit 0 = behaviour as required by the property
"""
import logging
import os
import socket
import sys
import threading
import time

from diameter.message import Message, constants
from diameter.message.commands import CapabilitiesExchangeRequest
from diameter.node import Node
from diameter.node.application import SimpleThreadingApplication
from diameter.node.peer import PEER_READY

PEER_OUT = "rejecting.example.net"     # dialled by the node, rejects the CER
PEER_IN = "peer1.example.net"          # healthy peer, connects to the node

logging.getLogger("diameter").setLevel(logging.INFO)
logging.getLogger("diameter").addHandler(logging.NullHandler())
logging.getLogger("diameter").propagate = False
threading.excepthook = lambda a: print(
    f"   [thread {a.thread.name} ended with {a.exc_type.__name__}: "
    f"{a.exc_value}]")


def free_port():
    s = socket.socket()
    s.bind(("127.0.0.1", 0))
    p = s.getsockname()[1]
    s.close()
    return p


def read_msg(sock, timeout):
    """Message, None (nothing within timeout), 'EOF' or 'RST'"""
    buf = b""
    end = time.time() + timeout
    while True:
        if len(buf) >= 20 and len(buf) >= int.from_bytes(buf[1:4], "big"):
            return Message.from_bytes(buf[:int.from_bytes(buf[1:4], "big")])
        left = end - time.time()
        if left <= 0:
            return None
        sock.settimeout(left)
        try:
            d = sock.recv(4096)
        except socket.timeout:
            return None
        except ConnectionResetError:
            return "RST"
        if not d:
            return "EOF"
        buf += d


# the rejecting peer
srv = socket.socket()
srv.bind(("127.0.0.1", 0))
srv.listen(8)
srv_port = srv.getsockname()[1]

port = free_port()
node = Node("node.example.net", "example.net",
            ip_addresses=["127.0.0.1"], tcp_port=port)
node.wakeup_interval = 1
p_in = node.add_peer(f"aaa://{PEER_IN}", "example.net")
p_out = node.add_peer(f"aaa://{PEER_OUT}:{srv_port}", "example.net",
                      ip_addresses=["127.0.0.1"], is_persistent=True)
p_out.reconnect_wait = 3600
app = SimpleThreadingApplication(
    constants.APP_DIAMETER_CREDIT_CONTROL_APPLICATION,
    is_auth_application=True,
    request_handler=lambda a, m: a.generate_answer(m, result_code=2001))
node.add_application(app, [p_in, p_out])

# --- schedule -------------------------------------------------------------
io_in_window = threading.Event()
reader_closed = threading.Event()
armed = threading.Event()


class HoldReader(logging.Filter):
    def filter(self, record):
        if (armed.is_set() and "received a message" in record.getMessage()
                and "Capabilities-Exchange" in record.getMessage()
                and "work_read_queue" in threading.current_thread().name):
            io_in_window.wait(10)
        return True


class HoldIo(logging.Filter):
    def filter(self, record):
        if (armed.is_set() and
                threading.current_thread() is node._connection_thread and
                "shutting down socket" in record.getMessage() and
                not io_in_window.is_set()):
            io_in_window.set()
            reader_closed.wait(10)
        return True


logging.getLogger("diameter.peer").addFilter(HoldReader())
logging.getLogger("diameter.connection").addFilter(HoldIo())
# ---------------------------------------------------------------------------

node.start()

# 1. the healthy peer connects and becomes ready
hp = socket.create_connection(("127.0.0.1", port))
cer = CapabilitiesExchangeRequest()
cer.header.hop_by_hop_identifier = 1
cer.header.end_to_end_identifier = 1
cer.origin_host = PEER_IN.encode()
cer.origin_realm = b"example.net"
cer.host_ip_address = ["127.0.0.1"]
cer.vendor_id = 1
cer.product_name = "fake"
cer.auth_application_id = [constants.APP_DIAMETER_CREDIT_CONTROL_APPLICATION]
hp.sendall(cer.as_bytes())
cea = read_msg(hp, 5)
assert isinstance(cea, Message) and cea.result_code == 2001, cea
healthy_conn = p_in.connection
assert healthy_conn.state == PEER_READY
print(f"healthy peer {PEER_IN}: connected, READY")

# 2. the dialled peer rejects the CER and closes - as rejecting peers do
rc, _ = srv.accept()
node_cer = read_msg(rc, 5)
assert isinstance(node_cer, Message), node_cer
out_ident = [i for i, c in list(node.connections.items())
             if c is not healthy_conn]
armed.set()
rej = node_cer.to_answer()
rej.origin_host = PEER_OUT.encode()
rej.origin_realm = b"example.net"
rej.result_code = constants.E_RESULT_CODE_DIAMETER_NO_COMMON_APPLICATION
rej.host_ip_address = ["127.0.0.1"]
rej.vendor_id = 1
rej.product_name = "fake"
rc.sendall(rej.as_bytes())
rc.close()
print(f"dialled peer {PEER_OUT}: answered the CER with 5010 and closed")

if not io_in_window.wait(10) or not out_ident:
    print("schedule could not be set up")
    sys.stdout.flush()
    os._exit(0)
deadline = time.time() + 10
while out_ident[0] in node.connections and time.time() < deadline:
    time.sleep(0.01)
reader_closed.set()
time.sleep(1.5)
io_alive = node._connection_thread.is_alive()
print(f"I/O thread (Node._handle_connections) alive: {io_alive}")

# 3. stop the node
t0 = time.time()
node.stop(wait_timeout=3)
t_stop = time.time() - t0
print(f"stop(wait_timeout=3) returned after {t_stop:.1f}s")

time.sleep(7)           # connection workers poll their stop flag every 5s
m = read_msg(hp, 1)
peer_socket_open = m is None        # neither DPR, nor EOF, nor RST
workers = [t.name for t in threading.enumerate()
           if "work_read_queue" in t.name or "work_write_queue" in t.name]
print(f"7s later, healthy peer's view of its connection: "
      f"{'still open, nothing received (no DPR, no FIN, no RST)' if m is None else m}")
print(f"connection worker threads still alive: {workers}")
print(f"node.connections: {len(node.connections)} entr(y/ies), "
      f"Peer.connection of {PEER_IN}: {p_in.connection}")

print()
print("property C18: 'When stop returns every listening and peer socket is "
      "closed and the applications are stopped, and all node and connection "
      "worker threads terminate.'")
violation = peer_socket_open or bool(workers)
sys.stdout.flush()
if violation:
    print("OBSERVED : the I/O thread had ended with OSError(EBADF) in "
          "close_connection_socket (two threads closing the same "
          "connection); stop() returned although the peer socket is still "
          f"open and {len(workers)} connection worker thread(s) keep running")
    print("REQUIRED : after stop() every peer socket is closed and every "
          "worker thread ends - stop() must close what is left itself when "
          "the I/O thread is gone, and close_connection_socket must tolerate "
          "a socket that another thread has closed")
    sys.stdout.flush()
    os._exit(1)          # the leaked non-daemon threads would block exit
os._exit(0)
