"""C02 / finding 1: an AVP appended to (or an AVP list assigned to) a
plain-decoded message of a command that has a python implementation is not
emitted by as_bytes().

Message.from_bytes(wire, plain_msg=True) is the documented way to get a
byte-exact copy of a received message (what a relay or proxy needs).  For a
command with a python implementation it returns the command's base class
(e.g. CreditControl), a DefinedMessage.  DefinedMessage.append_avp() and the
`avps` setter store into `_additional_avps`, but the `avps` getter - which is
what as_bytes() encodes - returns only `_avps` as soon as that list is not
empty.  The appended AVP silently disappears from the encoded message.
"""
import struct
import sys

from diameter.message import Message, Avp
from diameter.message.constants import *


def avp(code, flags, payload, vendor=0):
    ln = 8 + (4 if vendor else 0) + len(payload)
    b = struct.pack(">II", code, (flags << 24) | ln)
    if vendor:
        b += struct.pack(">I", vendor)
    return b + payload + b"\x00" * (-len(payload) % 4)


def message(code, flags, body):
    return struct.pack(">IIIII", (1 << 24) | (20 + len(body)),
                       (flags << 24) | code, 4, 0x1111, 0x2222) + body


body = (avp(263, 0x40, b"client.example;1;1") +
        avp(264, 0x40, b"client.example") +
        avp(296, 0x40, b"example") +
        avp(283, 0x40, b"example") +
        avp(258, 0x40, struct.pack(">I", 4)))

failed = False
for code, label in ((272, "Credit-Control (python implementation)"),
                    (8388645, "MO-Forward-Short-Message (no implementation)"),
                    (7777, "unknown command code")):
    wire = message(code, 0xc0, body)
    msg = Message.from_bytes(wire, plain_msg=True)
    assert msg.as_bytes() == wire      # byte exact before the change

    # what a relay agent does before forwarding (rfc6733 6.1.9)
    route_record = Avp.new(AVP_ROUTE_RECORD, value=b"relay.example")
    msg.append_avp(route_record)
    out = msg.as_bytes()
    expected = message(code, 0xc0, body + route_record.as_bytes())

    ok = out == expected
    print(f"{label}: class {type(msg).__name__}; append_avp(Route-Record) "
          f"then as_bytes(): {len(out)} bytes, expected {len(expected)} "
          f"bytes; Route-Record emitted: {route_record.as_bytes() in out}")
    if not ok:
        failed = True

# the same through the `avps` setter
wire = message(272, 0xc0, body)
msg = Message.from_bytes(wire, plain_msg=True)
only = Avp.new(AVP_SESSION_ID, value="other;1")
msg.avps = [only]
out = msg.as_bytes()
expected = message(272, 0xc0, only.as_bytes())
print(f"Credit-Control plain decoded, msg.avps = [Session-Id]: as_bytes() "
      f"emits {len(out)} bytes (still the old AVP list: {out == wire}), "
      f"expected {len(expected)} bytes")
if out != expected:
    failed = True

if failed:
    print("VIOLATION: the property requires that encoding emits the 20-byte "
          "header followed by the AVPs of the message with a matching length "
          "field; AVPs added through append_avp()/avps= to a plain-decoded "
          "known command are left out (the generic classes do emit them).")
    sys.exit(1)
print("OK: appended AVPs are emitted")
sys.exit(0)
