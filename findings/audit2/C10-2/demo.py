"""C10 / finding 2: a request object that is submitted again (after its first
submission timed out) leaves with the SAME hop-by-hop identifier as the first
transmission, which is still outstanding on the same connection; the two
transactions become indistinguishable: the late answer to #1 is handed to the
sender of #2 and the real answer to #2 reaches nobody."""
import socket
import sys
import threading
import time

from diameter.message import Message
from diameter.message.constants import *
from diameter.message.commands import (CapabilitiesExchangeRequest,
                                       CreditControlRequest)
from diameter.node import Node
from diameter.node.application import SimpleThreadingApplication
from diameter.node.peer import (PeerConnection, PEER_RECV, PEER_CONNECTED,
                                PEER_READY, PEER_TRANSPORT_TCP)

APP_ID = APP_DIAMETER_CREDIT_CONTROL_APPLICATION
socks, conns = [], []
sent = []    # bytes of every request written to the peer


class App(SimpleThreadingApplication):
    unexpected = []

    def handle_answer(self, message):
        self.unexpected.append(message)


def connect_peer(node, host, realm):
    a, b = socket.socketpair()
    socks.extend([a, b])
    conn = PeerConnection("127.0.0.1", 3868, PEER_RECV,
                          interrupt_fileno=node.interrupt_write)
    conn.state = PEER_CONNECTED
    node._add_peer_connection(conn, a, PEER_TRANSPORT_TCP)
    conns.append(conn)
    orig = conn.add_out_msg

    def recorder(msg):
        if msg.header.is_request:
            sent.append(Message.from_bytes(msg.as_bytes()))
        orig(msg)
    conn.add_out_msg = recorder
    cer = CapabilitiesExchangeRequest()
    cer.header.hop_by_hop_identifier = 1
    cer.header.end_to_end_identifier = 1
    cer.origin_host = host.encode()
    cer.origin_realm = realm.encode()
    cer.host_ip_address = ["127.0.0.1"]
    cer.vendor_id = 99
    cer.product_name = "demo"
    cer.auth_application_id = [APP_ID]
    conn.add_in_bytes(cer.as_bytes())
    deadline = time.time() + 5
    while conn.state != PEER_READY and time.time() < deadline:
        time.sleep(0.01)
    assert conn.state == PEER_READY
    return conn


node = Node("node.realm1", "realm1")
p1 = node.add_peer("aaa://p1.realm1", "realm1")
app = App(APP_ID, is_auth_application=True)
node.add_application(app, [p1])
c1 = connect_peer(node, "p1.realm1", "realm1")

ccr = CreditControlRequest()
ccr.session_id = "node.realm1;1;1"
ccr.origin_host = b"node.realm1"
ccr.origin_realm = b"realm1"
ccr.destination_realm = b"realm1"
ccr.auth_application_id = APP_ID
ccr.service_context_id = "demo@3gpp.org"
ccr.cc_request_type = E_CC_REQUEST_TYPE_UPDATE_REQUEST
ccr.cc_request_number = 1

# --- transaction #1: the peer is slow, the sender gives up after 0.3 s
try:
    app.send_request(ccr, timeout=0.3)
    raise SystemExit("unexpected answer")
except TimeoutError:
    pass
req1 = sent[-1]
print(f"#1 (CC-Request-Number 1) left with hop-by-hop "
      f"{hex(req1.header.hop_by_hop_identifier)}, timed out, the peer has not "
      f"answered it: it is still outstanding on the connection")

# --- transaction #2: the application goes on with the same request object
ccr.cc_request_number = 2
result = {}


def sender():
    try:
        result["answer"] = app.send_request(ccr, timeout=5)
    except Exception as e:
        result["error"] = e


t = threading.Thread(target=sender)
t.start()
deadline = time.time() + 5
while len(sent) < 2 and time.time() < deadline:
    time.sleep(0.01)
req2 = sent[-1]
print(f"#2 (CC-Request-Number 2) left with hop-by-hop "
      f"{hex(req2.header.hop_by_hop_identifier)} on the same connection")

same = req1.header.hop_by_hop_identifier == req2.header.hop_by_hop_identifier


def answer_for(req, number):
    cca = req.to_answer()
    cca.session_id = req.session_id
    cca.origin_host = b"p1.realm1"
    cca.origin_realm = b"realm1"
    cca.result_code = E_RESULT_CODE_DIAMETER_SUCCESS
    cca.auth_application_id = APP_ID
    cca.cc_request_type = E_CC_REQUEST_TYPE_UPDATE_REQUEST
    cca.cc_request_number = number
    return cca.as_bytes()


# the peer now answers #1 (late) and then #2
c1.add_in_bytes(answer_for(req1, 1))
t.join(6)
c1.add_in_bytes(answer_for(req2, 2))
time.sleep(0.5)

got = result.get("answer")
print(f"sender of #2 received: "
      f"{'answer with CC-Request-Number ' + str(got.cc_request_number) if got else result}")
print(f"answers passed to handle_answer: "
      f"{[m.cc_request_number for m in app.unexpected]}")

for c in conns:
    c.close(signal_node=False)
for s in socks:
    s.close()
app.stop()

print()
if same:
    print("VIOLATION: two requests outstanding on one connection carry the same "
          "hop-by-hop identifier; the sender of #2 was given the answer to #1 "
          "and the answer to #2 reached neither a sender nor handle_answer")
print("required: 'Each request leaves with a non-zero hop-by-hop identifier "
      "unique among the requests outstanding on its connection' (and then: late "
      "answer #1 -> handle_answer, answer #2 -> sender of #2)")
sys.exit(1 if same else 0)
