"""C01 / finding 1: RFC 6733 Unsigned32 AVPs are declared Integer32 in the AVP dictionary.

RFC 6733 defines Authorization-Lifetime (291), Result-Code (268),
Inband-Security-Id (299) and Session-Binding (270) as Unsigned32.  Section 8.9
even gives the value 2^32-1 of Authorization-Lifetime a meaning ("no
re-authorization is expected").  The dictionary maps the four codes to
AvpInteger32, so the upper half of the RFC domain cannot be encoded and is
decoded as a negative number.
"""
import struct
import sys

from diameter.message.avp import Avp, AvpUnsigned32, AvpEncodeError
from diameter.message.constants import (AVP_AUTHORIZATION_LIFETIME,
                                        AVP_RESULT_CODE,
                                        AVP_INBAND_SECURITY_ID,
                                        AVP_SESSION_BINDING)

RFC6733_UNSIGNED32 = {
    "Authorization-Lifetime": AVP_AUTHORIZATION_LIFETIME,   # RFC 6733 8.9
    "Result-Code": AVP_RESULT_CODE,                         # RFC 6733 7.1
    "Inband-Security-Id": AVP_INBAND_SECURITY_ID,           # RFC 6733 6.10
    "Session-Binding": AVP_SESSION_BINDING,                 # RFC 6733 8.17
}

violations = 0
for name, code in RFC6733_UNSIGNED32.items():
    for value in (2**32 - 1, 2**31):
        # RFC 6733 wire form: code, flags M, 24-bit length 12, 4 octets unsigned
        rfc_wire = struct.pack(">IB3sI", code, 0x40, (12).to_bytes(3, "big"), value)

        # --- encode ---------------------------------------------------
        try:
            got = Avp.new(code, value=value, is_mandatory=True).as_bytes()
            enc = "ok" if got == rfc_wire else f"wrong bytes {got.hex()}"
        except AvpEncodeError as e:
            enc = f"REJECTED ({str(e).split(': ')[-1]})"
        # --- decode ---------------------------------------------------
        dec = Avp.from_bytes(rfc_wire)
        dec_ok = isinstance(dec, AvpUnsigned32) and dec.value == value

        if enc != "ok" or not dec_ok:
            violations += 1
            print(f"{name} ({code}) = {value}:")
            print(f"   observed: encode -> {enc}")
            print(f"   observed: decode of RFC wire form {rfc_wire.hex()} -> "
                  f"{type(dec).__name__} value {dec.value}")
            print(f"   required: Unsigned32 (RFC 6733); encode gives "
                  f"{rfc_wire.hex()}, decode gives {value}")

if violations:
    print(f"\nVIOLATION: {violations} value/AVP combinations of RFC 6733's own "
          f"Unsigned32 AVPs are rejected on encode and decoded as negative "
          f"numbers")
    sys.exit(1)
print("all RFC 6733 Unsigned32 AVPs carry the full unsigned range")
sys.exit(0)
