"""C02 / finding 3: Message.find_avps() caches results by the path alone; the
`alt_list` argument (the documented way to search an arbitrary AVP list, e.g.
the members of one grouped AVP) is not part of the cache key.  Searching the
same path in the members of a second group returns the AVPs of the first
group, and a later search of the message itself with that path returns the
group-local result as well.
"""
import struct
import sys

from diameter.message import Message


def avp(code, flags, payload, vendor=0):
    ln = 8 + (4 if vendor else 0) + len(payload)
    b = struct.pack(">II", code, (flags << 24) | ln)
    if vendor:
        b += struct.pack(">I", vendor)
    return b + payload + b"\x00" * (-len(payload) % 4)


u32 = lambda v: struct.pack(">I", v)
RATING_GROUP, MSCC, RESULT_CODE, SESSION_ID = 432, 456, 268, 263

# a CCA: message level Result-Code 2001, two MSCC each with its own
# Rating-Group and Result-Code
mscc1 = avp(MSCC, 0x40, avp(RATING_GROUP, 0x40, u32(100)) + avp(RESULT_CODE, 0x40, u32(2001)))
mscc2 = avp(MSCC, 0x40, avp(RATING_GROUP, 0x40, u32(200)) + avp(RESULT_CODE, 0x40, u32(4012)))
body = (avp(SESSION_ID, 0x40, b"a.example;1;1") + avp(RESULT_CODE, 0x40, u32(2001)) +
        mscc1 + mscc2)
wire = struct.pack(">IIIII", (1 << 24) | (20 + len(body)), (0x40 << 24) | 272,
                   4, 1, 2) + body

failed = False
for plain in (True, False):
    msg = Message.from_bytes(wire, plain_msg=plain)
    seen = []
    for group in msg.find_avps((MSCC, 0)):
        rg = msg.find_avps((RATING_GROUP, 0), alt_list=group.value)
        rc = msg.find_avps((RESULT_CODE, 0), alt_list=group.value)
        seen.append(([a.value for a in rg], [a.value for a in rc]))
    top = [a.value for a in msg.find_avps((RESULT_CODE, 0))]
    print(f"{type(msg).__name__} (plain_msg={plain}):")
    print(f"  per MSCC (rating group, result code): observed {seen}")
    print(f"                                        required [([100], [2001]), ([200], [4012])]")
    print(f"  find_avps((Result-Code, 0)) on the message afterwards: observed "
          f"{top} (an AVP of MSCC #1: "
          f"{msg.find_avps((RESULT_CODE, 0))[0] is msg.find_avps((MSCC, 0))[0].value[1]}), "
          f"required [2001] = the message level AVP")
    if seen != [([100], [2001]), ([200], [4012])]:
        failed = True
    msg2 = Message.from_bytes(wire, plain_msg=plain)
    msg2.find_avps((RESULT_CODE, 0), alt_list=msg2.find_avps((MSCC, 0))[1].value)
    r = msg2.find_avps((RESULT_CODE, 0))
    if [a.value for a in r] != [2001]:
        print(f"  fresh message: search MSCC #2 members first, then the message: "
              f"find_avps((Result-Code, 0)) -> {[a.value for a in r]}, required [2001]")
        failed = True

if failed:
    print("VIOLATION: a search by a (code, vendor) path must return exactly the "
          "AVPs located at that path of the searched tree; the per-message "
          "cache ignores which list was searched.")
    sys.exit(1)
print("OK")
sys.exit(0)
