"""C02 / finding 2: an AVP whose V flag is set and whose Vendor-ID field is 0
is neither rejected nor preserved: it is decoded with the V flag cleared, is
found as the base (IETF) AVP of that code, and is re-encoded 4 bytes shorter.

The wire format is structurally sound (V bit set -> 4-byte Vendor-ID field
present -> AVP length 12 + data).  rfc6733 4.1.1 tells *senders* not to use
Vendor-ID 0, so a receiver may reject it; the library accepts it silently and
changes it.
"""
import struct
import sys

from diameter.message import Message


def avp(code, flags, payload, vendor=None):
    ln = 8 + (4 if vendor is not None else 0) + len(payload)
    b = struct.pack(">II", code, (flags << 24) | ln)
    if vendor is not None:
        b += struct.pack(">I", vendor)
    return b + payload + b"\x00" * (-len(payload) % 4)


body = (avp(263, 0x40, b"a.example;1;1") +
        # Origin-Host code 264, V and M flags set, Vendor-ID field = 0
        avp(264, 0xc0, b"spoofed.example", vendor=0) +
        avp(296, 0x40, b"example"))
wire = struct.pack(">IIIII", (1 << 24) | (20 + len(body)),
                   (0x80 << 24) | 7777, 0, 1, 2) + body

msg = Message.from_bytes(wire, plain_msg=True)
a = msg.avps[1]
out = msg.as_bytes()

print(f"wire AVP #2   : code 264, flags 0xc0 (V,M), Vendor-ID field 0, "
      f"AVP length {12 + 15}")
print(f"decoded AVP #2: code {a.code}, flags 0x{a.flags:02x}, vendor_id "
      f"{a.vendor_id}, length {a.length}, name {a.name}, type "
      f"{type(a).__name__}")
print(f"find_avps((264, 0)) -> {[str(x) for x in msg.find_avps((264, 0))]}")
print(f"re-encoded message: {len(out)} bytes, input {len(wire)} bytes, "
      f"identical: {out == wire}")

bad = []
if a.flags != 0xc0:
    bad.append("AVP flags differ from the wire (0xc0 -> 0x%02x)" % a.flags)
if out != wire:
    bad.append("re-encoding the generically decoded message does not "
               "reproduce the input (%d -> %d bytes)" % (len(wire), len(out)))
if bad:
    print("VIOLATION: " + "; ".join(bad))
    print("The property requires the decoded flags to be identical to the "
          "wire and re-encoding of a generically decoded message to "
          "reproduce the input byte for byte.")
    sys.exit(1)
print("OK")
sys.exit(0)
