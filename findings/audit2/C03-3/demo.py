"""The dictionary names AVP (3815, 10415) - ProSe-Validity-Timer, constant
AVP_TGPP_PROSE_VALIDITY_TIMER, Unsigned32 - "Application-Specific-Data", the
name of the different AVP (3458, 10415, OctetString).

Consequences: in a command without typed implementation the two distinct AVPs
are folded into ONE attribute `application_specific_data` as if one AVP had been
repeated, nothing is exposed as `prose_validity_timer`; and two attributes of
ProseInformation denote a dictionary AVP called "Application-Specific-Data".

exit 1: violation present, exit 0: behaves as the property says.
"""
import sys

from diameter.message import Message, MessageHeader
from diameter.message.avp import Avp
from diameter.message.avp.avp import get_avp_dictionary_entry
from diameter.message.avp.grouped import ProseInformation
from diameter.message.constants import *

bad = []

# --- 1. a command without typed implementation ---------------------------------
# 8388668 = ProSe-Authorization: only a placeholder class, no typed implementation
req = Message(MessageHeader(command_code=8388668, application_id=16777340,
                            command_flags=0x80))
req.append_avp(Avp.new(AVP_SESSION_ID, value="host.example;1;1"))
req.append_avp(Avp.new(AVP_TGPP_APPLICATION_SPECIFIC_DATA, VENDOR_TGPP,
                       value=b"app-data"))
req.append_avp(Avp.new(AVP_TGPP_PROSE_VALIDITY_TIMER, VENDOR_TGPP, value=3600))
dec = Message.from_bytes(req.as_bytes())
print(f"decoded as {type(dec).__name__}; received AVPs:")
for a in dec.avps:
    print("  ", a)
public = {k: v for k, v in vars(dec).items()
          if not k.startswith("_") and k != "header"}
print("attributes exposed:", public)

asd = getattr(dec, "application_specific_data", None)
if isinstance(asd, list):
    bad.append(f"Application-Specific-Data was received ONCE but is exposed as "
               f"the list {asd!r}: a different AVP (code 3815) has been folded "
               f"into it as if the AVP were repeated")
if not hasattr(dec, "prose_validity_timer"):
    bad.append("the received ProSe-Validity-Timer (3815) is not exposed under "
               "its own name")

# --- 2. the typed container -----------------------------------------------------
names = {}
for d in ProseInformation.avp_def:
    entry = get_avp_dictionary_entry(d.avp_code, d.vendor_id)
    names.setdefault(entry["name"], []).append(
        (d.attr_name, d.avp_code, entry["type"].__name__))
for name, attrs in names.items():
    if len(attrs) > 1:
        print(f"ProseInformation: dictionary AVP name {name!r} is denoted by "
              f"{attrs}")
        bad.append(f"two attributes of ProseInformation denote a dictionary AVP "
                   f"named {name}")

print()
print("property requires: every received AVP of a command without typed "
      "implementation is exposed under its (own) lower-case, underscore-normalised "
      "name, only REPEATED AVPs become lists; no two attributes of a class denote "
      "the same dictionary AVP")
if bad:
    print("VIOLATION:")
    for b in bad:
        print("  -", b)
    sys.exit(1)
print("ok")
sys.exit(0)
