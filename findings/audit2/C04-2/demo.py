"""
C04 / finding 2: a typed message that Message.from_bytes() has decoded cannot
be rendered as text (dump) - and its AVP list cannot even be listed - when it
carries an Address AVP of family 8 (E.164) whose digits contain '.' or ':'.

AvpAddress.value decodes family 8 as free UTF-8 text, so the payload
00 08 '1' '.' '2' reads as (8, '1.2') and ends up in the message attribute.
Typed messages throw the received AVPs away (`self._avps = []`) and rebuild
them from the attributes whenever `.avps` is read; the AvpAddress setter
treats any string with '.' or ':' as an IP literal and raises AvpEncodeError.
dump(msg) starts with msg.avps, so rendering the decoded message raises.

Property clause: "rendering any decoded AVP or message header as text never
raises" (and decoding "either returns a result or raises one of the library's
own decode errors" - here the result that was returned cannot be looked at).
"""
import logging
import struct
import sys

logging.disable(logging.CRITICAL)

from diameter.message import Message, dump
from diameter.message.avp import Avp


def raw_avp(code: int, payload: bytes, flags: int = 0x40) -> bytes:
    head = struct.pack(">II", code, (flags << 24) | (8 + len(payload)))
    return head + payload + b"\x00" * ((4 - len(payload) % 4) % 4)


def raw_msg(cmd: int, flags: int, app: int, body: bytes) -> bytes:
    return struct.pack(">IIIII", (1 << 24) | (20 + len(body)),
                       (flags << 24) | cmd, app, 0x1111, 0x2222) + body


hostile_address = raw_avp(257, b"\x00\x08" + b"1.2")      # Host-IP-Address
cer = raw_msg(257, 0x80, 0,
              raw_avp(264, b"peer.example.net") +           # Origin-Host
              raw_avp(296, b"example.net") +                # Origin-Realm
              hostile_address +
              raw_avp(266, struct.pack(">I", 99)) +         # Vendor-Id
              raw_avp(269, b"fuzz", flags=0))               # Product-Name

# the AVP on its own decodes and renders fine
single = Avp.from_bytes(hostile_address)
print("single AVP          :", str(single))

msg = Message.from_bytes(cer)
print("decoded             :", type(msg).__name__, "-", str(msg))
print("msg.host_ip_address :", msg.host_ip_address)

violations = 0
try:
    avps = msg.avps
    print("msg.avps            :", len(avps), "AVPs")
except Exception as e:
    violations += 1
    print(f"OBSERVED: msg.avps raised {type(e).__name__}: {e}")

try:
    text = dump(msg)
    print("dump(msg):")
    print(text)
except Exception as e:
    violations += 1
    print(f"OBSERVED: dump(msg) raised {type(e).__name__}: {e}")

print()
print("REQUIRED (C04): 'rendering any decoded AVP or message header as text "
      "never raises' - a message returned by Message.from_bytes() must be "
      "renderable; either the value is rejected while decoding (attribute "
      "None, like every other undecodable value) or it is rendered.")
if violations:
    print("VIOLATION: the decoded Capabilities-Exchange-Request cannot be "
          "rendered")
    sys.exit(1)
print("no violation")
sys.exit(0)
