"""
C15 / finding 2: Node.receive_cer marks the connection PEER_CLOSING *before* it
queues the CEA that announces the rejection:

        answer.result_code = constants.E_RESULT_CODE_DIAMETER_UNKNOWN_PEER
        conn.state = PEER_CLOSING          # <- from here on the I/O loop may close
        self.send_message(conn, answer)    # <- the CEA is queued only here

(The same two lines appear in the "election lost" branch.)  The I/O loop closes a
PEER_CLOSING connection as soon as its write buffer is empty and
Queue.unfinished_tasks is 0 - which is true in the window between the two
statements if the loop happens to finish flushing an earlier message of that
connection right then.  The CEA is then queued on (and encoded into the write
buffer of) a connection whose socket has already been reset: its bytes are never
handed to the transport.

Scenario: a client connects and sends, in one TCP segment,
   CER #1 without the mandatory Product-Name/Vendor-Id  -> node answers 5005,
                                                            connection stays CONNECTED
   CER #2 with an Origin-Host the node does not know     -> node answers 3010 and closes
Both answers are queued with add_out_msg, in this order, so the property demands
both to be written, 5005 first, 3010 second, before the socket is closed.

The schedule is forced with sys.settrace line hooks only (pure delays of threads
at source-line boundaries, nothing in the library is altered):
  * the connection's writer is held in front of `with self.write_lock:` for the
    first answer until the reader thread has executed `conn.state = PEER_CLOSING`;
  * the reader thread is held in front of `self.send_message(conn, answer)` until
    the I/O loop has dropped the connection (or 5 s have passed).

exit 1: the 3010 CEA is never written (violation) / exit 0: both answers arrive.
"""
import os
import socket
import sys
import threading
import time

from diameter.message import Message, Avp
from diameter.message.constants import *
from diameter.node import Node
from diameter.node.application import SimpleThreadingApplication
from diameter.node import node as node_mod, peer as peer_mod

NODE_FILE = node_mod.__file__
PEER_FILE = peer_mod.__file__


def find_line(path, needle, after=0):
    with open(path) as f:
        for i, line in enumerate(f, 1):
            if i > after and needle in line:
                return i
    return None


_unknown = find_line(NODE_FILE, "E_RESULT_CODE_DIAMETER_UNKNOWN_PEER")
SEND_LINE = find_line(NODE_FILE, "self.send_message(conn, answer)", _unknown or 0)
WR_LINE = find_line(PEER_FILE, "with self.write_lock:")

armed = threading.Event()
reader_in_window = threading.Event()
the_node = []
log = []


def local_trace(frame, event, arg):
    if event == "line" and armed.is_set():
        code = frame.f_code
        if (code.co_name == "work_write_queue" and frame.f_lineno == WR_LINE
                and not reader_in_window.is_set()):
            log.append("writer: holds answer #1 (5005) in front of the write lock")
            reader_in_window.wait(5)
            log.append("writer: released, appends answer #1, task_done(), wakes the node")
        elif (code.co_name == "receive_cer" and frame.f_lineno == SEND_LINE
              and not reader_in_window.is_set()):
            conn = frame.f_locals["conn"]
            node = the_node[0]
            log.append(
                f"reader: conn.state = PEER_CLOSING done (state {conn.state:#x}), "
                f"preempted before send_message(3010 CEA)")
            reader_in_window.set()
            deadline = time.time() + 5
            while conn.ident in node.connections and time.time() < deadline:
                time.sleep(0.001)
            log.append(
                f"reader: resumes; connection still registered with the node: "
                f"{conn.ident in node.connections}; now queues the 3010 CEA")
    return local_trace


def global_trace(frame, event, arg):
    if event == "call" and frame.f_code.co_name in (
            "work_write_queue", "receive_cer"):
        return local_trace
    return None


def free_port():
    s = socket.socket()
    s.bind(("127.0.0.1", 0))
    p = s.getsockname()[1]
    s.close()
    return p


def read_frames(sock, want, timeout=8):
    buf = b""
    frames = []
    sock.settimeout(timeout)
    closed = None
    while len(frames) < want:
        try:
            data = sock.recv(65536)
        except socket.timeout:
            closed = "timeout"
            break
        except OSError as e:
            closed = f"reset ({e.__class__.__name__})"
            break
        if not data:
            closed = "EOF"
            break
        buf += data
        while len(buf) >= 20:
            ln = int.from_bytes(buf[1:4], "big")
            if len(buf) < ln:
                break
            frames.append(Message.from_bytes(buf[:ln]))
            buf = buf[ln:]
    return frames, closed


def make_cer(origin_host: bytes, hbh: int, complete: bool) -> bytes:
    m = Message()
    m.header.command_code = 257
    m.header.is_request = True
    m.header.hop_by_hop_identifier = hbh
    m.header.end_to_end_identifier = hbh
    m.append_avp(Avp.new(AVP_ORIGIN_HOST, value=origin_host))
    m.append_avp(Avp.new(AVP_ORIGIN_REALM, value=b"example.org"))
    m.append_avp(Avp.new(AVP_HOST_IP_ADDRESS, value="127.0.0.1"))
    if complete:
        m.append_avp(Avp.new(AVP_VENDOR_ID, value=99999))
        m.append_avp(Avp.new(AVP_PRODUCT_NAME, value="demo"))
    m.append_avp(Avp.new(AVP_AUTH_APPLICATION_ID,
                         value=APP_DIAMETER_CREDIT_CONTROL_APPLICATION))
    return m.as_bytes()


def run(force_schedule: bool):
    armed.clear()
    reader_in_window.clear()
    log.clear()
    the_node.clear()

    port = free_port()
    node = Node("server.example.org", "example.org",
                ip_addresses=["127.0.0.1"], tcp_port=port)
    node.idle_timeout = 600
    the_node.append(node)
    peer = node.add_peer("aaa://client.example.org", "example.org")
    app = SimpleThreadingApplication(
        APP_DIAMETER_CREDIT_CONTROL_APPLICATION, is_auth_application=True)
    node.add_application(app, [peer])
    node.start()
    try:
        c = socket.create_connection(("127.0.0.1", port))
        if force_schedule:
            armed.set()
        c.sendall(make_cer(b"client.example.org", 1, complete=False) +
                  make_cer(b"stranger.example.org", 2, complete=True))
        frames, closed = read_frames(c, 2)
        c.close()
        time.sleep(0.5)   # let the held threads finish, for a complete log
        codes = [(f.header.hop_by_hop_identifier, f.result_code) for f in frames]
        return codes, closed, list(log)
    finally:
        armed.clear()
        reader_in_window.set()
        try:
            node.stop(wait_timeout=2, force=True)
        except Exception as e:
            print("node.stop:", e)


def main():
    threading.settrace(global_trace)
    expected = [(1, 5005), (2, 3010)]

    codes, closed, _ = run(force_schedule=False)
    print(f"control run (no forced schedule): answers received "
          f"(hop-by-hop, Result-Code) = {codes}, connection end={closed}")

    codes, closed, steps = run(force_schedule=True)
    print(f"forced schedule (hooks at node.py:{SEND_LINE}, peer.py:{WR_LINE}):")
    for s in steps:
        print("   ", s)
    print(f"observed: answers received (hop-by-hop, Result-Code) = {codes}, "
          f"connection end={closed}")
    print(f"required: {expected} - both answers were queued for the connection, "
          f"each must be handed to the transport exactly once, in order")
    if codes != expected:
        print("VIOLATION: the queued 3010 CEA never reached the transport; the "
              "socket was reset between `conn.state = PEER_CLOSING` and "
              "`send_message`")
        return 1
    print("ok")
    return 0


if __name__ == "__main__":
    rc = main()
    sys.stdout.flush()
    os._exit(rc)
