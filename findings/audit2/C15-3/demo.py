"""
C15 / finding 3: a message that cannot be encoded as a Diameter message - its
total length does not fit the 24-bit Message Length field of the header - is NOT
dropped alone.  Message.as_bytes() / MessageHeader.as_packed() pack
`(version << 24) | length` without checking the length, so the length silently
wraps modulo 2^24 (for >= 32 MiB it additionally corrupts the Version octet).
The connection's writer appends these bytes to the write buffer, and because the
header now claims a much shorter frame, every message queued *behind* it is
mis-framed by the receiver: the stream is corrupted for the others as well.

(The sibling overflow on AVP level was repaired in d3787ab "an AVP longer than
the 24-bit length field is rejected instead of wrapped"; the message header did
not get that repair.  Each AVP used here is well below the AVP limit.)

The demo drives a PeerConnection directly: three messages are queued with
add_out_msg (DWR, an 18 MiB request made of two 9 MiB Class AVPs, DWR) and the
bytes that the connection offers to the transport (its write buffer, which the
I/O loop passes to socket.send unchanged) are re-framed the way any receiver -
including this library's own work_read_queue - does it: by the header's length.

exit 1: the oversized message was emitted and the following DWR cannot be
        recovered from the stream / exit 0: stream == DWR #1 + DWR #2.
"""
import os
import sys
import time

from diameter.message import Message, Avp
from diameter.message._base import MessageHeader
from diameter.message.commands import DeviceWatchdogRequest
from diameter.message.constants import *
from diameter.node.peer import PeerConnection, PEER_RECV, PEER_READY


def dwr(n):
    m = DeviceWatchdogRequest()
    m.header.hop_by_hop_identifier = n
    m.header.end_to_end_identifier = n
    m.origin_host = b"node.example.org"
    m.origin_realm = b"example.org"
    return m


def main():
    rfd, wfd = os.pipe()
    conn = PeerConnection("127.0.0.1", 3868, PEER_RECV, wfd)
    conn.state = PEER_READY
    try:
        first, last = dwr(1), dwr(3)
        big = Message()
        big.header.command_code = 272
        big.header.application_id = 4
        big.header.is_request = True
        big.header.hop_by_hop_identifier = 2
        big.header.end_to_end_identifier = 2
        for _ in range(2):
            # 9 MiB each: a legal AVP (limit 16 MiB), two of them are not a
            # legal message any more
            big.append_avp(Avp.new(AVP_CLASS, value=b"\x00" * (9 * 1024 * 1024)))

        for m in (first, big, last):
            conn.add_out_msg(m)
        deadline = time.time() + 30
        while conn.has_queued_messages and time.time() < deadline:
            time.sleep(0.01)
        stream = conn.write_buffer
    finally:
        conn.close(signal_node=False)

    want = first.as_bytes() + last.as_bytes()
    print(f"queued: DWR#1 ({len(first.as_bytes())} bytes), an oversized request "
          f"(real size {big.header.length} bytes = {big.header.length:#x}, "
          f"limit 0xffffff), DWR#3 ({len(last.as_bytes())} bytes)")
    print(f"bytes offered to the transport: {len(stream)}")

    # re-frame like a receiver
    frames = []
    pos = 0
    while pos + 20 <= len(stream) and len(frames) < 6:
        h = MessageHeader.from_bytes(stream[pos:pos + 20])
        frames.append((h.version, h.command_code, h.length,
                       h.hop_by_hop_identifier))
        if h.length < 20:
            break
        pos += h.length
    print("receiver's view of the stream (version, command, length, hop-by-hop):")
    for f in frames:
        print("   ", f)

    recovered_last = any(f[1] == 280 and f[3] == 3 for f in frames)
    print("required: the message that cannot be encoded is dropped alone; the "
          "stream is exactly DWR#1 + DWR#3 "
          f"({len(want)} bytes) and both are recoverable")
    if stream == want:
        print("ok: oversized message dropped alone")
        return 0
    print(f"observed: the oversized message was written with a header claiming "
          f"{frames[1][2] if len(frames) > 1 else '?'} bytes; DWR#3 recoverable "
          f"by the receiver: {recovered_last}")
    print("VIOLATION: not dropped, and the framing of every later message on the "
          "connection is destroyed")
    return 1


if __name__ == "__main__":
    rc = main()
    sys.stdout.flush()
    os._exit(rc)
