"""C20 / finding 2

The node answers DWR, DPR and CER itself through Node._generate_answer. These
three command pairs do not declare session_id / proxy_info, so
`hasattr(msg, "session_id")` is False and a Session-Id / Proxy-Info carried by
such a request is not copied into the DWA / DPA / CEA.

exit 1 = violation observed, exit 0 = behaves as the property says.
"""
import struct
import sys

from diameter.message import Message, Avp
from diameter.message.constants import *
from diameter.node import Node


class RecordingConn:
    """Stands in for a PeerConnection: records what the node queues."""
    ident = "aabbccddeeff"
    state = None
    node_name = ""
    host_identity = ""
    origin_host = ""

    def __init__(self):
        self.out = []

    def add_out_msg(self, m):
        self.out.append(m)

    def __str__(self):
        return "<recording conn>"


def proxy(host: bytes, state: bytes) -> bytes:
    return Avp.new(AVP_PROXY_INFO, value=[
        Avp.new(AVP_PROXY_HOST, value=host),
        Avp.new(AVP_PROXY_STATE, value=state)]).as_bytes()


def build(code: int, extra: bytes) -> bytes:
    body = (Avp.new(AVP_SESSION_ID, value="peer.example;7;7").as_bytes() +
            Avp.new(AVP_ORIGIN_HOST, value=b"peer.example").as_bytes() +
            Avp.new(AVP_ORIGIN_REALM, value=b"example").as_bytes() +
            extra + proxy(b"relay1.example", b"s1") + proxy(b"relay2.example", b"s2"))
    return struct.pack("!IIIII", (1 << 24) | (20 + len(body)), (0x80 << 24) | code,
                       0, 0x1001, 0x2002) + body


node = Node("server.realm.example", "realm.example")
failed = False

cases = (
    ("Device-Watchdog", 280, b""),
    ("Disconnect-Peer", 282, Avp.new(AVP_DISCONNECT_CAUSE, value=0).as_bytes()),
)
for name, code, extra in cases:
    conn = RecordingConn()
    req = Message.from_bytes(build(code, extra))
    node._receive_message(conn, req)          # what the reader thread does
    assert len(conn.out) == 1, conn.out
    ans = Message.from_bytes(conn.out[0].as_bytes(), plain_msg=True)
    sid = [a.value for a in ans.find_avps((AVP_SESSION_ID, 0))]
    pis = ans.find_avps((AVP_PROXY_INFO, 0))
    oh = [a.value for a in ans.find_avps((AVP_ORIGIN_HOST, 0))]
    print(f"{name}-Request with Session-Id and 2 Proxy-Info -> {type(conn.out[0]).__name__}: "
          f"Origin-Host={oh}, Session-Id={sid}, Proxy-Info x{len(pis)}")
    if sid != ["peer.example;7;7"] or len(pis) != 2:
        failed = True

# CER: only the answer construction (receive_cer also needs a configured peer)
cer_extra = (Avp.new(AVP_HOST_IP_ADDRESS, value="10.0.0.1").as_bytes() +
             Avp.new(AVP_VENDOR_ID, value=1).as_bytes() +
             Avp.new(AVP_PRODUCT_NAME, value="x").as_bytes())
cer = Message.from_bytes(build(257, cer_extra))
cea = node._generate_answer(RecordingConn(), cer)
cea.result_code = 2001
ans = Message.from_bytes(cea.as_bytes(), plain_msg=True)
sid = [a.value for a in ans.find_avps((AVP_SESSION_ID, 0))]
pis = ans.find_avps((AVP_PROXY_INFO, 0))
print(f"Capabilities-Exchange-Request with Session-Id and 2 Proxy-Info -> "
      f"{type(cea).__name__}: Session-Id={sid}, Proxy-Info x{len(pis)}")
if sid != ["peer.example;7;7"] or len(pis) != 2:
    failed = True

print("property requires: answers generated through a node copy Session-Id and "
      "Proxy-Info from the request, for every registered command class")
if failed:
    print("VIOLATION: Session-Id / Proxy-Info of the request are not in the answer")
    sys.exit(1)
print("ok")
sys.exit(0)
