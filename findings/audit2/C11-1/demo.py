"""C11 finding 1: the idle/DWA timers look at what the connection's READER THREAD
has processed, not at what has been received from the socket.

While the reader thread is busy (here: the documented synchronous
Application.handle_request takes a few seconds), bytes that the node thread
reads from the socket are only queued (PeerConnection.add_in_bytes); _last_read
is stamped and a DWA is honoured only when the reader thread dequeues them.
Node._check_timers therefore
  (a) sends a DWR although the peer's traffic arrives every second, and
  (b) closes the connection with DISCONNECT_REASON_DWA_TIMEOUT although the
      peer's DWA was received one second after the DWR.

Virtual clock (time.time patched, 1 s resolution); the node's I/O loop is played
by this script exactly as Node._handle_connections does it: recv -> add_in_bytes,
then _check_timers for the connection.
"""
import sys
import threading
import time

from diameter.message import Message, constants
from diameter.message.commands import (CapabilitiesExchangeRequest,
                                       CreditControlRequest,
                                       DeviceWatchdogRequest,
                                       DeviceWatchdogAnswer)
from diameter.node import Node
from diameter.node.application import Application
from diameter.node.peer import (PeerConnection, PEER_RECV, PEER_CONNECTED,
                                PEER_READY, PEER_READY_WAITING_DWA,
                                PEER_CLOSED, PEER_TRANSPORT_TCP,
                                DISCONNECT_REASON_DWA_TIMEOUT)

# ---------------------------------------------------------------- virtual clock
real_time = time.time
VT = [1_000_000.0]
time.time = lambda: VT[0]


def real_wait(cond, seconds=5.0):
    end = real_time() + seconds
    while real_time() < end:
        if cond():
            return True
        time.sleep(0.01)
    return False


class FakeSocket:
    def fileno(self): return 901
    def close(self): pass
    def setsockopt(self, *a): pass


class SlowApp(Application):
    """Plain `Application`: handle_request runs on the connection's reader
    thread. The handler simulates a few seconds of synchronous work."""
    def __init__(self):
        super().__init__(constants.APP_DIAMETER_CREDIT_CONTROL_APPLICATION,
                         is_auth_application=True)
        self.entered = threading.Event()
        self.release = threading.Event()

    def handle_request(self, message):
        self.entered.set()
        self.release.wait(30)
        try:
            self.send_answer(self.generate_answer(message, 2001))
        except Exception:
            pass  # the connection has been closed under the handler's feet


node = Node("node.local.realm", "local.realm")
peer = node.add_peer("aaa://peer.local.realm", "local.realm")
peer.idle_timeout = 3
peer.dwa_timeout = 2
app = SlowApp()
node.add_application(app, [peer])

sent = []  # (virtual time, message) handed to the connection for transmission
conn = PeerConnection("127.0.0.1", 40000, PEER_RECV, node.interrupt_write)
conn.state = PEER_CONNECTED
node._add_peer_connection(conn, FakeSocket(), PEER_TRANSPORT_TCP)
conn.add_out_msg = lambda m: sent.append((VT[0], m))


def cer():
    m = CapabilitiesExchangeRequest()
    m.header.hop_by_hop_identifier = 1
    m.header.end_to_end_identifier = 1
    m.origin_host = b"peer.local.realm"
    m.origin_realm = b"local.realm"
    m.host_ip_address = ["127.0.0.1"]
    m.vendor_id = 1
    m.product_name = "peer"
    m.auth_application_id = [4]
    return m.as_bytes()


def ccr(n):
    m = CreditControlRequest()
    m.header.hop_by_hop_identifier = 100 + n
    m.header.end_to_end_identifier = 100 + n
    m.header.application_id = 4
    m.session_id = f"peer.local.realm;1;{n}"
    m.origin_host = b"peer.local.realm"
    m.origin_realm = b"local.realm"
    m.destination_realm = b"local.realm"
    m.auth_application_id = 4
    m.service_context_id = "32251@3gpp.org"
    m.cc_request_type = constants.E_CC_REQUEST_TYPE_EVENT_REQUEST
    m.cc_request_number = n
    return m.as_bytes()


def dwrs():
    return [(t, m) for t, m in sent if isinstance(m, DeviceWatchdogRequest)]


problems = []
t0 = VT[0]
try:
    conn.add_in_bytes(cer())
    assert real_wait(lambda: conn.state == PEER_READY), "CER/CEA failed"
    print(f"t=+0  CER/CEA done, connection READY "
          f"(peer idle_timeout=3, dwa_timeout=2)")

    VT[0] = t0 + 1
    conn.add_in_bytes(ccr(0))
    assert app.entered.wait(5), "handler not entered"
    print("t=+1  CCR received, Application.handle_request is working on it "
          "(reader thread busy)")

    dwa_given_at = None
    closed_at = None
    for sec in range(2, 12):
        VT[0] = t0 + sec
        # the node thread: socket readable -> recv -> add_in_bytes
        if conn.state != PEER_CLOSED:
            conn.add_in_bytes(ccr(sec))
        before = len(dwrs())
        # ... and at the end of the same round: timers
        node._check_timers(conn)
        if len(dwrs()) > before:
            print(f"t=+{sec}  node sent a DWR  (last bytes from the peer were "
                  f"handed to the connection at t=+{sec}, i.e. 0 s ago; "
                  f"conn.last_read_since={conn.last_read_since})")
            # the peer answers at once; the node thread reads the DWA
            req = dwrs()[-1][1]
            dwa = DeviceWatchdogAnswer()
            dwa.header.hop_by_hop_identifier = req.header.hop_by_hop_identifier
            dwa.header.end_to_end_identifier = req.header.end_to_end_identifier
            dwa.result_code = 2001
            dwa.origin_host = b"peer.local.realm"
            dwa.origin_realm = b"local.realm"
            conn.add_in_bytes(dwa.as_bytes())
            dwa_given_at = sec
            print(f"t=+{sec}  peer's DWA received from the socket "
                  f"(add_in_bytes)")
        if conn.state == PEER_CLOSED and closed_at is None:
            closed_at = sec
            print(f"t=+{sec}  connection CLOSED by _check_timers, "
                  f"peer.disconnect_reason={peer.disconnect_reason:#x}")
            break

    if dwrs():
        problems.append(
            f"a DWR was sent at t=+{int(dwrs()[0][0] - t0)} although bytes "
            f"arrived from the peer every second (idle timeout 3 s)")
    if closed_at is not None and peer.disconnect_reason == DISCONNECT_REASON_DWA_TIMEOUT:
        problems.append(
            f"the connection was closed with DISCONNECT_REASON_DWA_TIMEOUT at "
            f"t=+{closed_at} although the DWA had been received at "
            f"t=+{dwa_given_at} (dwa timeout 2 s)")
finally:
    app.release.set()
    time.sleep(0.2)
    conn.close(signal_node=False)

print()
print("REQUIRED: 'No DWR is sent while traffic keeps arriving within the idle "
      "timeout'; 'a DWA returns it to ready'; only 'if none arrives within the "
      "DWA timeout the connection is closed'.")
if problems:
    print("OBSERVED (violation):")
    for p in problems:
        print("  -", p)
    sys.exit(1)
print("OBSERVED: no DWR, connection stayed ready - property holds")
sys.exit(0)
