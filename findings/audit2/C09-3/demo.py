"""C09 / finding 3

A request is handed to an `Application` (the non-threading base class, whose
handle_request runs synchronously inside Node._receive_app_request).

 (a) handle_request submits its answer with send_answer() - accepted and
     transmitted - and afterwards raises (any bug in its post-processing).
     Node._receive_message catches the exception and submits a second answer
     (5012) for the same request with send_message(), which bypasses
     route_answer: the requester receives two answers for one request.

 (b) the requester sends DPR immediately followed by a request.  The
     application's send_answer() fails with NotRoutable (connection is
     DISCONNECTING); the exception leaves handle_request, and the same handler
     in _receive_message transmits a 5012 answer for that request on the
     connection after the DPA, although the submission was refused as not
     routable.

Unmodified library, real sockets, no timing dependence.
"""
import logging
import socket
import sys
import time

from diameter.message import Message, constants
from diameter.message.commands import (
    CapabilitiesExchangeRequest, CreditControlRequest, DisconnectPeerRequest)
from diameter.node import Node, NotRoutable
from diameter.node.application import Application


def free_port():
    s = socket.socket()
    s.bind(("127.0.0.1", 0))
    p = s.getsockname()[1]
    s.close()
    return p


class Client:
    def __init__(self, name, port):
        self.name = name
        self.sock = socket.create_connection(("127.0.0.1", port))
        self.buf = b""

    def send(self, *msgs):
        self.sock.sendall(b"".join(m.as_bytes() for m in msgs))

    def recv_msg(self, timeout):
        self.sock.settimeout(timeout)
        try:
            while True:
                if len(self.buf) >= 20:
                    ln = int.from_bytes(self.buf[1:4], "big")
                    if len(self.buf) >= ln:
                        raw, self.buf = self.buf[:ln], self.buf[ln:]
                        return Message.from_bytes(raw)
                d = self.sock.recv(4096)
                if not d:
                    return None
                self.buf += d
        except (socket.timeout, OSError):
            return None

    def recv_all(self, timeout=2):
        out = []
        while True:
            m = self.recv_msg(timeout)
            if m is None:
                return out
            out.append(m)

    def cer(self):
        m = CapabilitiesExchangeRequest()
        m.header.hop_by_hop_identifier = 1
        m.header.end_to_end_identifier = 1
        m.origin_host = self.name.encode()
        m.origin_realm = b"realm"
        m.host_ip_address = "127.0.0.1"
        m.vendor_id = 1
        m.product_name = "client"
        m.auth_application_id = [4]
        self.send(m)
        return self.recv_msg(5)

    def ccr(self, hbh, e2e):
        m = CreditControlRequest()
        m.header.application_id = 4
        m.header.hop_by_hop_identifier = hbh
        m.header.end_to_end_identifier = e2e
        m.session_id = f"{self.name};1;{hbh}"
        m.origin_host = self.name.encode()
        m.origin_realm = b"realm"
        m.destination_realm = b"realm"
        m.auth_application_id = 4
        m.service_context_id = "ctx@realm"
        m.cc_request_type = 1
        m.cc_request_number = 0
        return m

    def dpr(self):
        m = DisconnectPeerRequest()
        m.header.hop_by_hop_identifier = 2
        m.header.end_to_end_identifier = 2
        m.origin_host = self.name.encode()
        m.origin_realm = b"realm"
        m.disconnect_cause = constants.E_DISCONNECT_CAUSE_DO_NOT_WANT_TO_TALK_TO_YOU
        return m


class App(Application):
    def __init__(self):
        super().__init__(4, is_auth_application=True)
        self.fail_after_answer = False
        self.submission_errors = []

    def handle_request(self, message):
        answer = self.generate_answer(message, result_code=2001)
        answer.cc_request_type = message.cc_request_type
        answer.cc_request_number = message.cc_request_number
        try:
            self.send_answer(answer)
        except NotRoutable as e:
            self.submission_errors.append(e)
            raise
        if self.fail_after_answer:
            raise RuntimeError("bookkeeping after the answer failed")


def describe(msgs):
    return [f"cmd {m.header.command_code} hbh {m.header.hop_by_hop_identifier} "
            f"e2e {m.header.end_to_end_identifier} "
            f"result {getattr(m, 'result_code', None)}" for m in msgs]


def main():
    logging.disable(logging.CRITICAL)     # keep the output readable
    port = free_port()
    node = Node("srv.realm", "realm", ip_addresses=["127.0.0.1"], tcp_port=port)
    node.wakeup_interval = 1
    pa = node.add_peer("aaa://a.realm")
    pb = node.add_peer("aaa://b.realm")
    app = App()
    node.add_application(app, [pa, pb])
    node.start()
    a = Client("a.realm", port)
    b = Client("b.realm", port)
    verdict = 0
    try:
        assert a.cer().result_code == 2001
        assert b.cer().result_code == 2001

        # (a) ---------------------------------------------------------------
        app.fail_after_answer = True
        a.send(a.ccr(100, 200))
        got = [m for m in a.recv_all()
               if (m.header.hop_by_hop_identifier,
                   m.header.end_to_end_identifier) == (100, 200)]
        print(f"(a) answers the requester received for request (100, 200): "
              f"{describe(got)}")
        if len(got) > 1:
            print("    OBSERVED: a second answer for the same request was "
                  "transmitted.")
            print("    REQUIRED: 'submitting a second answer for the same "
                  "request fails instead of being transmitted'.")
            verdict = 1
        app.fail_after_answer = False

        # (b) ---------------------------------------------------------------
        b.send(b.dpr(), b.ccr(300, 400))
        got = b.recv_all()
        print(f"(b) requester sent DPR + request (300, 400); it received: "
              f"{describe(got)}")
        print(f"    application's send_answer raised: {app.submission_errors!r}")
        after_dpa = [m for m in got if m.header.command_code == 272]
        if app.submission_errors and after_dpa:
            print("    OBSERVED: the submission failed with NotRoutable, yet an "
                  "answer for the request was transmitted on the "
                  "DISCONNECTING connection, after the DPA.")
            print("    REQUIRED: 'if that connection has closed or is no longer "
                  "ready the submission fails with the not-routable error and "
                  "nothing is transmitted to any peer'.")
            verdict = 1
        if verdict == 0:
            print("OK")
    finally:
        a.sock.close()
        b.sock.close()
        node.stop(force=True)
    return verdict


if __name__ == "__main__":
    sys.exit(main())
