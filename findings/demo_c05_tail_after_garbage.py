"""Demonstration (not a check): after an undecodable frame has been discarded, a tail of fewer
than 20 bytes of the NEXT (well-formed) frame makes the reader close the connection instead of
waiting for the rest: the `continue` of the garbage branch skips the "0 < len < 20 -> wait" check.
Run with PYTHONPATH=<repo>/src; exit 1 = connection closed / next frame lost."""
import os, sys, time
from diameter.message.commands import DeviceWatchdogRequest
from diameter.node.peer import PeerConnection, PEER_RECV, PEER_READY, PEER_CLOSED

good = DeviceWatchdogRequest(); good.origin_host = b"a"; good.origin_realm = b"b"
good.header.hop_by_hop_identifier = 1; good.header.end_to_end_identifier = 2
good = good.as_bytes()
bad = bytearray(good); bad[24:28] = b"\x00\xff\xff\xff"       # first AVP claims a huge length -> undecodable body
bad = bytes(bad)
r, w = os.pipe()
c = PeerConnection("127.0.0.1", 1, PEER_RECV, w)
c.state = PEER_READY
got = []
c.message_handler = lambda conn, m: got.append(m)
c.add_in_bytes(bad + good[:10])        # read ends 10 bytes into the header of the next frame
time.sleep(0.5)
closed_early = c.state == PEER_CLOSED
c.add_in_bytes(good[10:])
time.sleep(0.5)
print("closed after garbage+partial header:", closed_early, "| frames delivered:", len(got))
c.close(signal_node=False)
os._exit(1 if closed_early or len(got) != 1 else 0)
