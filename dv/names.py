"""Global-name resolution: which names read by a function resolve to nothing at run time.

The scopes come from the standard `symtable` (exact about what is local, free or global in every
function, comprehension and class body); a global name resolves when the module's namespace binds it
(definition, import, or a star import - which honours the exporting module's `__all__`, exactly like
the interpreter) or when it is a builtin.  A name that resolves to nothing is a NameError at the
moment the statement runs: nothing at import time, nothing in a test that does not reach it.
"""
from __future__ import annotations

import ast
import builtins
import symtable

from .srcmodel import Module, FuncInfo

_MODULE_ATTRS = {"__name__", "__file__", "__doc__", "__package__", "__spec__", "__loader__",
                 "__builtins__", "__path__", "__annotations__", "__class__", "__qualname__",
                 "__module__", "__debug__"}
_BUILTINS = set(dir(builtins))


def _unresolved_in(mod: Module) -> dict[tuple[str, int], list[str]]:
    """(scope name, first line) -> names the scope reads as globals that resolve to nothing."""
    cache = mod.__dict__.setdefault("_unresolved_names", None)
    if cache is not None:
        return cache
    out: dict[tuple[str, int], list[str]] = {}
    try:
        top = symtable.symtable(open(mod.path).read(), mod.path, "exec")
    except (OSError, SyntaxError):
        mod.__dict__["_unresolved_names"] = out
        return out

    def visit(tb, owner, in_func=False):
        # nested defs, comprehensions and lambdas are attributed to the outermost def
        if tb.get_type() == "function" and not in_func:
            owner, in_func = (tb.get_name(), tb.get_lineno()), True
        elif tb.get_type() == "class" and not in_func:
            owner = (f"<class {tb.get_name()}>", tb.get_lineno())
        if tb.get_type() != "module":
            for s in tb.get_symbols():
                if not s.is_referenced() or not s.is_global():
                    continue
                if s.is_declared_global() and s.is_assigned():
                    continue
                nm = s.get_name()
                if nm in _BUILTINS or nm in _MODULE_ATTRS:
                    continue
                if mod.lookup(nm) is None:
                    out.setdefault(owner, [])
                    if nm not in out[owner]:
                        out[owner].append(nm)
        for ch in tb.get_children():
            visit(ch, owner, in_func)

    visit(top, ("<module>", 0))
    mod.__dict__["_unresolved_names"] = out
    return out


def unresolved_names(f: FuncInfo) -> list[tuple[str, ast.AST]]:
    """Names read in *f* (nested scopes included) that resolve to nothing, each with its first use."""
    table = _unresolved_in(f.module)
    first = f.node.lineno
    names: list[str] = []
    # the symtable reports the line of the `def` (decorators excluded)
    for (nm, ln), lst in table.items():
        if nm == f.name and ln == first:
            names.extend(lst)
    if not names:
        return []
    out = []
    # with `from __future__ import annotations` an annotation is never evaluated
    lazy = any(isinstance(st, ast.ImportFrom) and st.module == "__future__"
               and any(a.name == "annotations" for a in st.names) for st in f.module.tree.body)
    skip: set[int] = set()
    if lazy:
        for n in ast.walk(f.node):
            anns = []
            if isinstance(n, ast.arg) and n.annotation is not None:
                anns.append(n.annotation)
            elif isinstance(n, (ast.FunctionDef, ast.AsyncFunctionDef)) and n.returns is not None:
                anns.append(n.returns)
            elif isinstance(n, ast.AnnAssign):
                anns.append(n.annotation)
            for a in anns:
                skip.update(id(x) for x in ast.walk(a))
    for n in ast.walk(f.node):
        if id(n) in skip:
            continue
        if isinstance(n, ast.Name) and isinstance(n.ctx, ast.Load) and n.id in names:
            if not any(n.id == k for k, _ in out):
                out.append((n.id, n))
    return out
