"""Source model: parse trees, module namespaces, classes, constant folding.

The model mirrors what the interpreter does at import time for the *binding
structure* only: imports (relative, star, ``__all__``), assignments, class and
function definitions, in statement order, later bindings shadowing earlier
ones.  No repository code is executed.
"""
from __future__ import annotations

import ast
import hashlib
import os
from typing import Any, Iterator


class AnalysisError(Exception):
    """The analysis cannot decide (vanished anchor, unknown idiom, ...)."""


class NotConst(Exception):
    pass


class Opaque:
    """A symbolic value compared by qualified name (socket.AF_INET ...)."""
    __slots__ = ("qual",)

    def __init__(self, qual: str):
        self.qual = qual

    def __eq__(self, other):
        return isinstance(other, Opaque) and other.qual == self.qual

    def __hash__(self):
        return hash(("Opaque", self.qual))

    def __repr__(self):
        return f"<{self.qual}>"


class Binding:
    __slots__ = ("kind", "name", "node", "module", "target", "attr")

    def __init__(self, kind, name, node=None, module=None, target=None, attr=None):
        self.kind = kind        # class | func | assign | import_module | import_from | star | extmodule
        self.name = name
        self.node = node
        self.module = module    # defining Module
        self.target = target    # for imports: dotted module name
        self.attr = attr        # for import_from: imported name


class FuncInfo:
    def __init__(self, node: ast.FunctionDef, module: "Module", cls: "ClassInfo | None"):
        self.node = node
        self.module = module
        self.cls = cls
        self.name = node.name
        self.decorators = [ast.unparse(d) for d in node.decorator_list]

    @property
    def qualname(self) -> str:
        return f"{self.cls.name}.{self.name}" if self.cls else self.name

    @property
    def is_property(self) -> bool:
        return "property" in self.decorators

    @property
    def is_setter(self) -> bool:
        return any(d.endswith(".setter") for d in self.decorators)

    @property
    def is_classmethod(self) -> bool:
        return "classmethod" in self.decorators

    def loc(self, node: ast.AST | None = None) -> str:
        n = node if node is not None else self.node
        return f"{self.module.relpath}:{getattr(n, 'lineno', 0)}"

    def __repr__(self):
        return f"<Func {self.module.name}:{self.qualname}>"


class ClassInfo:
    def __init__(self, node: ast.ClassDef, module: "Module"):
        self.node = node
        self.module = module
        self.name = node.name
        self.methods: dict[str, FuncInfo] = {}       # plain methods + property getters
        self.setters: dict[str, FuncInfo] = {}
        self.class_assigns: dict[str, ast.expr] = {}  # NAME = expr / NAME: T = expr
        self.annotations: dict[str, ast.expr] = {}    # NAME: T  (with or without value)
        self.all_funcs: list[FuncInfo] = []
        for st in node.body:
            if isinstance(st, (ast.FunctionDef, ast.AsyncFunctionDef)):
                fi = FuncInfo(st, module, self)
                self.all_funcs.append(fi)
                if fi.is_setter:
                    self.setters[st.name] = fi
                else:
                    self.methods[st.name] = fi
            elif isinstance(st, ast.Assign):
                for t in st.targets:
                    if isinstance(t, ast.Name):
                        self.class_assigns[t.id] = st.value
            elif isinstance(st, ast.AnnAssign) and isinstance(st.target, ast.Name):
                self.annotations[st.target.id] = st.annotation
                if st.value is not None:
                    self.class_assigns[st.target.id] = st.value

    @property
    def decorators(self) -> list[str]:
        return [ast.unparse(d) for d in self.node.decorator_list]

    def loc(self, node: ast.AST | None = None) -> str:
        n = node if node is not None else self.node
        return f"{self.module.relpath}:{getattr(n, 'lineno', 0)}"

    def __repr__(self):
        return f"<Class {self.module.name}:{self.name}>"


class Module:
    def __init__(self, model: "SourceModel", name: str, path: str, relpath: str,
                 src: str, is_pkg: bool):
        self.model = model
        self.name = name
        self.path = path
        self.relpath = relpath
        self.src = src
        self.is_pkg = is_pkg
        self.sha256 = hashlib.sha256(src.encode()).hexdigest()
        self.tree = ast.parse(src, filename=path)
        from .normalize import normalize_tree
        normalize_tree(self.tree)
        self.events: list[Binding] = []
        self.classes: dict[str, ClassInfo] = {}
        self.funcs: dict[str, FuncInfo] = {}
        self.all_literal: list[str] | None = None
        self._public: set[str] | None = None
        self._lookup_cache: dict[str, Binding | None] = {}
        self._collect(self.tree.body)

    # -- binding structure -------------------------------------------------
    def _pkg(self) -> str:
        return self.name if self.is_pkg else self.name.rpartition(".")[0]

    def _abs(self, module: str | None, level: int) -> str:
        if level == 0:
            return module or ""
        base = self._pkg().split(".")
        if level > 1:
            base = base[: len(base) - (level - 1)]
        if module:
            base = base + module.split(".")
        return ".".join(base)

    def _collect(self, body: list[ast.stmt]):
        for st in body:
            if isinstance(st, ast.Import):
                for a in st.names:
                    nm = a.asname or a.name.split(".")[0]
                    tgt = a.name if a.asname else a.name.split(".")[0]
                    self.events.append(Binding("import_module", nm, st, self, target=tgt))
            elif isinstance(st, ast.ImportFrom):
                tgt = self._abs(st.module, st.level)
                for a in st.names:
                    if a.name == "*":
                        self.events.append(Binding("star", "*", st, self, target=tgt))
                    else:
                        self.events.append(Binding(
                            "import_from", a.asname or a.name, st, self,
                            target=tgt, attr=a.name))
            elif isinstance(st, ast.ClassDef):
                ci = ClassInfo(st, self)
                self.classes[st.name] = ci
                self.events.append(Binding("class", st.name, st, self))
            elif isinstance(st, (ast.FunctionDef, ast.AsyncFunctionDef)):
                self.funcs[st.name] = FuncInfo(st, self, None)
                self.events.append(Binding("func", st.name, st, self))
            elif isinstance(st, ast.Assign):
                for t in st.targets:
                    if isinstance(t, ast.Name):
                        self.events.append(Binding("assign", t.id, st, self))
                        if t.id == "__all__":
                            try:
                                self.all_literal = [
                                    e.value for e in st.value.elts]  # type: ignore
                            except Exception:
                                self.all_literal = None
                    elif isinstance(t, (ast.Tuple, ast.List)):
                        for e in t.elts:
                            if isinstance(e, ast.Name):
                                self.events.append(Binding("assign", e.id, st, self))
            elif isinstance(st, ast.AnnAssign):
                if isinstance(st.target, ast.Name) and st.value is not None:
                    self.events.append(Binding("assign", st.target.id, st, self))
            elif isinstance(st, ast.Try):
                self._collect(st.body)
                for h in st.handlers:
                    self._collect(h.body)
                self._collect(st.orelse)
                self._collect(st.finalbody)
            elif isinstance(st, ast.If):
                self._collect(st.body)
                self._collect(st.orelse)

    # -- lookup --------------------------------------------------------------
    def public_names(self, _seen=None) -> set[str]:
        if self._public is not None:
            return self._public
        if self.all_literal is not None:
            self._public = set(self.all_literal)
            return self._public
        top = _seen is None
        _seen = _seen or set()
        if self.name in _seen:
            return set()
        _seen = _seen | {self.name}
        out: set[str] = set()
        for ev in self.events:
            if ev.kind == "star":
                m = self.model.modules.get(ev.target)
                if m is not None:
                    out |= m.public_names(_seen)
            elif not ev.name.startswith("_"):
                out.add(ev.name)
        if top:
            self._public = out
        return out

    def lookup(self, name: str, _seen=None) -> Binding | None:
        """Resolve *name* in this module's global namespace to its final,
        defining binding (class / func / assign / extmodule / module)."""
        top = _seen is None
        if top and name in self._lookup_cache:
            return self._lookup_cache[name]
        r = self._lookup(name, _seen or set())
        if top:
            self._lookup_cache[name] = r
        return r

    def _lookup(self, name: str, _seen) -> Binding | None:
        key = (self.name, name)
        if key in _seen:
            return None
        _seen = _seen | {key}
        for ev in reversed(self.events):
            if ev.kind == "star":
                m = self.model.modules.get(ev.target)
                if m is not None and name in m.public_names():
                    b = m.lookup(name, _seen)
                    if b is not None:
                        return b
                continue
            if ev.name != name:
                continue
            if ev.kind in ("class", "func", "assign"):
                return ev
            if ev.kind == "import_module":
                m = self.model.modules.get(ev.target)
                if m is not None:
                    return Binding("module", name, ev.node, m)
                return Binding("extmodule", name, ev.node, self, target=ev.target)
            if ev.kind == "import_from":
                sub = self.model.modules.get(f"{ev.target}.{ev.attr}")
                m = self.model.modules.get(ev.target)
                if m is not None:
                    b = m.lookup(ev.attr, _seen)
                    if b is not None:
                        return b
                if sub is not None:
                    return Binding("module", name, ev.node, sub)
                if m is None:
                    return Binding("extattr", name, ev.node, self,
                                   target=ev.target, attr=ev.attr)
                return None
        return None

    def lookup_class(self, name: str) -> ClassInfo | None:
        b = self.lookup(name)
        if b is not None and b.kind == "class":
            return b.module.classes.get(b.node.name)
        if b is not None and b.kind == "assign":
            # alias:  AvpEnumerated = AvpInteger32
            v = getattr(b.node, "value", None)
            if isinstance(v, ast.Name) and v.id != name:
                return b.module.lookup_class(v.id)
        return None


class SourceModel:
    """All modules below <src_root>/diameter."""

    def __init__(self, src_root: str, package: str = "diameter"):
        self.src_root = os.path.abspath(src_root)
        self.package = package
        self.repo_root = os.path.dirname(self.src_root) \
            if os.path.basename(self.src_root) == "src" else self.src_root
        self.modules: dict[str, Module] = {}
        self._fold_cache: dict[tuple[str, str], Any] = {}
        self._mro_cache: dict[tuple[str, str], list[ClassInfo]] = {}
        pkg_dir = os.path.join(self.src_root, package)
        if not os.path.isdir(pkg_dir):
            raise AnalysisError(f"package directory {pkg_dir} not found")
        for dirpath, dirnames, filenames in os.walk(pkg_dir):
            dirnames.sort()
            for fn in sorted(filenames):
                if not fn.endswith(".py"):
                    continue
                path = os.path.join(dirpath, fn)
                rel = os.path.relpath(path, self.src_root)
                parts = rel[:-3].split(os.sep)
                is_pkg = parts[-1] == "__init__"
                if is_pkg:
                    parts = parts[:-1]
                name = ".".join(parts)
                with open(path, encoding="utf-8") as fh:
                    src = fh.read()
                relpath = os.path.relpath(path, self.repo_root)
                try:
                    self.modules[name] = Module(self, name, path, relpath, src, is_pkg)
                except SyntaxError as e:
                    raise AnalysisError(f"cannot parse {relpath}: {e}")
        from .normalize import positionalize_calls
        self.positionalized = positionalize_calls(self)
        from .inline import absorb_helpers
        self.absorbed = absorb_helpers(self)
        from .inline import absorb_value_helpers
        self.absorbed += absorb_value_helpers(self)
        from .inline import desugar_optional_setters
        self.desugared = desugar_optional_setters(self)
        from .astutil import register_simple_helpers
        register_simple_helpers(
            (n.name, n) for m in self.modules.values() if ".node." in m.name + "."
            for n in ast.walk(m.tree)
            if isinstance(n, ast.FunctionDef))
        # ... and put what a simple helper returns in place of every call to it, so that a test,
        # a key or an argument spelled through such a helper reads like the inline spelling
        from .astutil import expand_simple_call

        class _Exp(ast.NodeTransformer):
            n = 0

            def visit_Call(self, node):
                node = self.generic_visit(node)
                x = expand_simple_call(node)
                if x is None:
                    return node
                _Exp.n += 1
                for y in ast.walk(x):
                    ast.copy_location(y, node)
                return x
        for m in self.modules.values():
            if ".node." in m.name + ".":
                _Exp().visit(m.tree)
        self.expanded_helper_calls = _Exp.n

    # -- access helpers -------------------------------------------------------
    def module(self, name: str) -> Module:
        full = name if name.startswith(self.package) else f"{self.package}.{name}"
        m = self.modules.get(full)
        if m is None:
            raise AnalysisError(f"module {full} not found")
        return m

    def cls(self, module: str, name: str) -> ClassInfo:
        c = self.module(module).classes.get(name)
        if c is None:
            raise AnalysisError(f"class {name} not found in {module}")
        return c

    def func(self, module: str, qual: str) -> FuncInfo:
        m = self.module(module)
        if "." in qual:
            cn, fn = qual.split(".", 1)
            c = m.classes.get(cn)
            if c is None:
                raise AnalysisError(f"class {cn} not found in {module}")
            kind = None
            if fn.endswith(":setter"):
                fn, kind = fn[:-7], "setter"
            f = (c.setters if kind else c.methods).get(fn)
            if f is None and not kind:
                # private name mangling:  __x  is looked up as written
                f = c.methods.get(fn)
            if f is None:
                raise AnalysisError(f"function {qual} not found in {module}")
            return f
        f = m.funcs.get(qual)
        if f is None:
            raise AnalysisError(f"function {qual} not found in {module}")
        return f

    def all_classes(self) -> Iterator[ClassInfo]:
        for m in self.modules.values():
            yield from m.classes.values()

    def all_funcs(self) -> Iterator[FuncInfo]:
        for m in self.modules.values():
            yield from m.funcs.values()
            for c in m.classes.values():
                yield from c.all_funcs

    # -- class hierarchy ------------------------------------------------------
    def bases(self, ci: ClassInfo) -> list[ClassInfo]:
        out = []
        for b in ci.node.bases:
            if isinstance(b, ast.Name):
                bc = ci.module.lookup_class(b.id)
                if bc is not None:
                    out.append(bc)
            elif isinstance(b, ast.Attribute) and isinstance(b.value, ast.Name):
                mb = ci.module.lookup(b.value.id)
                if mb is not None and mb.kind == "module":
                    bc = mb.module.lookup_class(b.attr)
                    if bc is not None:
                        out.append(bc)
        return out

    def base_names(self, ci: ClassInfo) -> list[str]:
        return [ast.unparse(b) for b in ci.node.bases]

    def mro(self, ci: ClassInfo) -> list[ClassInfo]:
        key = (ci.module.name, ci.name)
        if key in self._mro_cache:
            return self._mro_cache[key]
        seqs = [self.mro(b) for b in self.bases(ci)] + [self.bases(ci)]
        res = [ci]
        seqs = [list(s) for s in seqs if s]
        while seqs:
            for s in seqs:
                cand = s[0]
                if not any(cand in t[1:] for t in seqs):
                    break
            else:
                raise AnalysisError(f"inconsistent MRO for {ci.name}")
            res.append(cand)
            seqs = [[c for c in s if c is not cand] for s in seqs]
            seqs = [s for s in seqs if s]
        self._mro_cache[key] = res
        return res

    def is_subclass(self, ci: ClassInfo, module: str, name: str) -> bool:
        return any(c.name == name and c.module.name.endswith(module)
                   for c in self.mro(ci))

    def subclasses(self, ci: ClassInfo, direct: bool = False) -> list[ClassInfo]:
        out = []
        for c in self.all_classes():
            if c is ci:
                continue
            if direct:
                if ci in self.bases(c):
                    out.append(c)
            elif ci in self.mro(c):
                out.append(c)
        return out

    def find_method(self, ci: ClassInfo, name: str, setter=False) -> FuncInfo | None:
        for c in self.mro(ci):
            d = c.setters if setter else c.methods
            if name in d:
                return d[name]
        return None

    def class_attr_expr(self, ci: ClassInfo, name: str) -> tuple[ClassInfo, ast.expr] | None:
        for c in self.mro(ci):
            if name in c.class_assigns:
                return c, c.class_assigns[name]
        return None

    # -- constant folding -----------------------------------------------------
    def fold_name(self, module: Module, name: str) -> Any:
        key = (module.name, name)
        if key in self._fold_cache:
            v = self._fold_cache[key]
            if isinstance(v, NotConst):
                raise v
            return v
        self._fold_cache[key] = NotConst(f"cyclic {name}")
        try:
            b = module.lookup(name)
            if b is None:
                if name in ("True", "False", "None"):
                    v = {"True": True, "False": False, "None": None}[name]
                else:
                    raise NotConst(f"unbound name {name} in {module.name}")
            elif b.kind == "assign":
                node = b.node
                val = node.value
                if isinstance(node, ast.Assign) and isinstance(node.targets[0], (ast.Tuple, ast.List)):
                    raise NotConst("tuple assignment")
                v = self.fold(val, b.module)
            elif b.kind == "extattr":
                v = Opaque(f"{b.target}.{b.attr}")
            elif b.kind == "class":
                v = Opaque(f"class:{b.module.name}.{b.node.name}")
            else:
                raise NotConst(f"{name} is a {b.kind}")
        except NotConst as e:
            self._fold_cache[key] = e
            raise
        self._fold_cache[key] = v
        return v

    def fold(self, e: ast.expr, module: Module, cls: ClassInfo | None = None,
             env: dict[str, Any] | None = None) -> Any:
        """Fold *e* to a Python value, or raise NotConst."""
        if isinstance(e, ast.Constant):
            return e.value
        if isinstance(e, ast.Name):
            if env is not None and e.id in env:
                return env[e.id]
            if cls is not None:
                # class body scope: sibling class-level constant
                pass
            return self.fold_name(module, e.id)
        if isinstance(e, ast.UnaryOp):
            v = self.fold(e.operand, module, cls, env)
            try:
                if isinstance(e.op, ast.USub):
                    return -v
                if isinstance(e.op, ast.UAdd):
                    return +v
                if isinstance(e.op, ast.Invert):
                    return ~v
                if isinstance(e.op, ast.Not):
                    return not v
            except Exception:
                raise NotConst("unary")
        if isinstance(e, ast.BinOp):
            l = self.fold(e.left, module, cls, env)
            r = self.fold(e.right, module, cls, env)
            if isinstance(l, Opaque) or isinstance(r, Opaque):
                raise NotConst("opaque arithmetic")
            try:
                op = e.op
                if isinstance(op, ast.Add): return l + r
                if isinstance(op, ast.Sub): return l - r
                if isinstance(op, ast.Mult): return l * r
                if isinstance(op, ast.FloorDiv): return l // r
                if isinstance(op, ast.Mod): return l % r
                if isinstance(op, ast.LShift): return l << r
                if isinstance(op, ast.RShift): return l >> r
                if isinstance(op, ast.BitAnd): return l & r
                if isinstance(op, ast.BitOr): return l | r
                if isinstance(op, ast.BitXor): return l ^ r
                if isinstance(op, ast.Pow) and isinstance(r, int) and 0 <= r <= 128: return l ** r
            except Exception:
                pass
            raise NotConst("binop")
        if isinstance(e, (ast.Tuple, ast.List)):
            vals = [self.fold(x, module, cls, env) for x in e.elts]
            return tuple(vals)
        if isinstance(e, ast.Set):
            return frozenset(self.fold(x, module, cls, env) for x in e.elts)
        if isinstance(e, ast.Dict):
            out = {}
            for k, v in zip(e.keys, e.values):
                if k is None:
                    raise NotConst("dict unpack")
                out[self.fold(k, module, cls, env)] = self.fold(v, module, cls, env)
            return out
        if isinstance(e, ast.Attribute):
            base = e.value
            if isinstance(base, ast.Name):
                if base.id in ("self", "cls") and cls is not None:
                    r = self.class_attr_expr(cls, e.attr)
                    if r is None:
                        raise NotConst(f"no class constant {e.attr}")
                    return self.fold(r[1], r[0].module, r[0], None)
                if env is not None and base.id in env:
                    raise NotConst("attribute of local")
                b = module.lookup(base.id)
                if b is not None and b.kind == "module":
                    return self.fold_name(b.module, e.attr)
                if b is not None and b.kind == "extmodule":
                    return Opaque(f"{b.target}.{e.attr}")
                if b is not None and b.kind == "class":
                    ci = b.module.classes[b.node.name]
                    r = self.class_attr_expr(ci, e.attr)
                    if r is None:
                        raise NotConst(f"no class constant {e.attr}")
                    return self.fold(r[1], r[0].module, r[0], None)
            if isinstance(base, ast.Attribute):
                # a.b.C : package attribute chain of external module (socket.x.y)
                try:
                    bv = self.fold(base, module, cls, env)
                except NotConst:
                    raise
                if isinstance(bv, Opaque):
                    return Opaque(f"{bv.qual}.{e.attr}")
            raise NotConst(f"attribute {ast.unparse(e)}")
        if isinstance(e, ast.Call):
            # a few pure builtins over constants
            fn = ast.unparse(e.func)
            if fn in ("int", "len", "str", "bytes") and len(e.args) == 1 and not e.keywords:
                v = self.fold(e.args[0], module, cls, env)
                if isinstance(v, Opaque):
                    raise NotConst("opaque call")
                try:
                    return {"int": int, "len": len, "str": str, "bytes": bytes}[fn](v)
                except Exception:
                    raise NotConst("call")
            raise NotConst(f"call {fn}")
        raise NotConst(type(e).__name__)

    def try_fold(self, e: ast.expr, module: Module, cls: ClassInfo | None = None,
                 env=None, default=None) -> Any:
        try:
            return self.fold(e, module, cls, env)
        except NotConst:
            return default

    def digests(self, relpaths: list[str] | None = None) -> dict[str, str]:
        out = {}
        for m in self.modules.values():
            if relpaths is None or m.relpath in relpaths:
                out[m.relpath] = m.sha256
        return out


_MISSING = object()


def const_or_missing(model: SourceModel, e: ast.expr, module: Module,
                     cls: ClassInfo | None = None, env=None):
    try:
        return model.fold(e, module, cls, env)
    except NotConst:
        return _MISSING
