"""Statement-level control-flow graph with short-circuit decomposition.

Every branch test is split into *atomic* test nodes (``a and b`` becomes two
nodes), ``match`` patterns are decomposed component-wise, so that every T/F
edge speaks about exactly one atomic condition.  Queries are plain graph
algorithms (reachability with blocked nodes/edges) plus bounded path
enumeration.
"""
from __future__ import annotations

import ast
from typing import Callable, Iterable, Iterator

from .srcmodel import AnalysisError, FuncInfo
from . import astutil as A

RAISING = (ast.Call, ast.Subscript, ast.Raise, ast.Assert, ast.Delete, ast.Await,
           ast.BinOp, ast.Attribute)


class Node:
    __slots__ = ("id", "kind", "ast", "succ", "pred", "line", "note", "cfg",
                 "_calls", "pattern_subject", "pattern_value", "lexical", "raises")

    def __init__(self, cfg: "CFG", kind: str, node: ast.AST | None, note: str = ""):
        self.cfg = cfg
        self.id = len(cfg.nodes)
        cfg.nodes.append(self)
        self.kind = kind
        self.ast = node
        self.succ: list[tuple[str, Node]] = []
        self.pred: list[tuple[str, Node]] = []
        self.line = getattr(node, "lineno", 0) if node is not None else 0
        self.note = note
        self._calls = None
        self.pattern_subject = None   # for match-derived tests
        self.pattern_value = None
        self.lexical: tuple = ()      # enclosing with-items / try bodies (ast nodes)
        self.raises: frozenset = frozenset()

    # ------------------------------------------------------------------
    def link(self, label: str, dst: "Node"):
        self.succ.append((label, dst))
        dst.pred.append((label, self))

    @property
    def expr(self) -> ast.AST | None:
        """The expression(s) evaluated *at* this node (not nested bodies)."""
        n = self.ast
        if self.kind in ("test",):
            return n
        if self.kind == "iter":
            return n.iter            # type: ignore
        if self.kind == "with":
            return n                 # withitem list handled by events()
        return n

    def own_exprs(self) -> list[ast.AST]:
        n = self.ast
        if n is None:
            return []
        if self.kind == "iter":
            return [n.iter, n.target]          # type: ignore
        if self.kind == "with":
            out = []
            for it in n.items:                 # type: ignore
                out.append(it.context_expr)
                if it.optional_vars is not None:
                    out.append(it.optional_vars)
            return out
        if self.kind not in ("stmt", "test"):
            return []
        if self.kind == "stmt" and isinstance(n, (ast.FunctionDef, ast.AsyncFunctionDef,
                                                   ast.ClassDef)):
            return []
        return [n]

    def walk(self) -> Iterator[ast.AST]:
        for e in self.own_exprs():
            yield from A.walk_no_nested(e) if not isinstance(e, ast.Lambda) else iter([e])

    def calls(self) -> list[ast.Call]:
        if self._calls is None:
            self._calls = [x for x in self.walk() if isinstance(x, ast.Call)]
        return self._calls

    def call_names(self) -> list[str]:
        return [A.call_name(c) for c in self.calls()]

    def has_call(self, pred: Callable[[str, ast.Call], bool] | str) -> bool:
        for c in self.calls():
            nm = A.call_name(c)
            if isinstance(pred, str):
                if nm == pred or nm.endswith("." + pred):
                    return True
            elif pred(nm, c):
                return True
        return False

    def stores(self) -> list[ast.expr]:
        n = self.ast
        out: list[ast.expr] = []
        if self.kind == "stmt":
            out += A.store_targets(n)           # type: ignore
            for c in self.calls():
                if A.call_name(c) == "setattr" and len(c.args) == 3 \
                        and isinstance(c.args[1], ast.Constant):
                    out.append(ast.Attribute(value=c.args[0], attr=c.args[1].value,
                                             ctx=ast.Store()))
        elif self.kind == "iter":
            t = n.target                         # type: ignore
            out += list(t.elts) if isinstance(t, (ast.Tuple, ast.List)) else [t]
        return out

    def store_names(self) -> list[str]:
        return [A.dotted(t) for t in self.stores()]

    def deletes(self) -> list[ast.expr]:
        if self.kind == "stmt" and isinstance(self.ast, ast.Delete):
            return list(self.ast.targets)
        return []

    def text(self, limit: int = 100) -> str:
        if self.ast is None:
            return self.kind
        try:
            if self.kind == "iter":
                s = f"for {ast.unparse(self.ast.target)} in {ast.unparse(self.ast.iter)}"
            elif self.kind == "with":
                s = "with " + ", ".join(ast.unparse(i) for i in self.ast.items)
            elif self.kind == "handler":
                s = "except " + (ast.unparse(self.ast.type) if self.ast.type else "")
            elif self.kind == "test" and self.pattern_subject is not None:
                s = f"match {ast.unparse(self.pattern_subject)} ~ {self.note}"
            else:
                s = ast.unparse(self.ast)
        except Exception:
            s = self.kind
        s = " ".join(s.split())
        return s[:limit]

    def __repr__(self):
        return f"<{self.kind}#{self.id} L{self.line} {self.text(50)}>"


class _Ctx:
    __slots__ = ("brk", "cont", "ret", "exc", "in_try", "lexical", "retval", "depth", "owner")

    def __init__(self, brk, cont, ret, exc, in_try, lexical=(), retval=None, depth=0, owner=None):
        self.brk, self.cont, self.ret, self.exc = brk, cont, ret, exc
        self.in_try = in_try
        self.lexical = lexical
        self.retval = retval      # inside an inlined callee: value expr -> continuation node
        self.depth = depth
        self.owner = owner        # FuncInfo whose body is being built (callee when inlined)

    def but(self, **kw) -> "_Ctx":
        c = _Ctx(self.brk, self.cont, self.ret, self.exc, self.in_try, self.lexical,
                 self.retval, self.depth, self.owner)
        for k, v in kw.items():
            setattr(c, k, v)
        return c


class _RaiseExit:
    """Outermost frame: the exception escapes the function."""
    def __init__(self, node: Node):
        self.node = node

    def targets(self, raises) -> list[Node]:
        return [self.node] if raises else []


class _Frame:
    """A try statement's handlers (first matching handler wins)."""
    def __init__(self, handlers, parent, effects):
        self.handlers = handlers      # [(types, handler_node)]
        self.parent = parent
        self.effects = effects

    def targets(self, raises) -> list[Node]:
        out: list[Node] = []
        rest = set()
        for e in raises:
            if e == "ANY" or self.effects is None:
                catch_all = False
                for types, hn in self.handlers:
                    if hn not in out:
                        out.append(hn)
                    if any(t in ("Exception", "BaseException") for t in types):
                        catch_all = True
                        break
                if not catch_all:
                    rest.add(e)
                continue
            for types, hn in self.handlers:
                if self.effects.caught_by(e, types):
                    if hn not in out:
                        out.append(hn)
                    break
                # a handler naming a subclass of e takes some of the exceptions e stands for;
                # the others travel on
                if any(self.effects.is_sub(t, e) for t in types):
                    if hn not in out:
                        out.append(hn)
            else:
                rest.add(e)
        for t in self.parent.targets(rest):
            if t not in out:
                out.append(t)
        return out


class _Finally:
    """Exceptions run the finally copy, which then re-raises to the parent."""
    def __init__(self, entry: Node):
        self.entry = entry

    def targets(self, raises) -> list[Node]:
        return [self.entry] if raises else []


def may_raise(node: ast.AST) -> bool:
    for n in A.walk_no_nested(node):
        if isinstance(n, (ast.Call, ast.Subscript, ast.Raise, ast.Assert, ast.Delete,
                          ast.Await, ast.BinOp)):
            return True
    return False


class CFG:
    def __init__(self, func: FuncInfo | ast.FunctionDef, relpath: str = "",
                 exc_everywhere: bool = False, effects=None, inline: bool = True):
        self.effects = effects
        self.inline = inline
        self.inlined: list[str] = []
        if isinstance(func, FuncInfo):
            self.func = func
            fn = func.node
            self.relpath = func.module.relpath
            self.qualname = func.qualname
        else:
            self.func = None
            fn = func
            self.relpath = relpath
            self.qualname = fn.name
        self.fn = fn
        self.nodes: list[Node] = []
        self.exc_everywhere = exc_everywhere
        self.entry = Node(self, "entry", None)
        self.exit = Node(self, "exit", None)          # normal return / fall off
        self.raise_exit = Node(self, "raise", None)   # exception escapes
        ctx = _Ctx(None, None, self.exit, _RaiseExit(self.raise_exit),
                   exc_everywhere or effects is not None, owner=self.func)
        first = self._block(fn.body, self.exit, ctx)
        self.entry.link("next", first)

    # -- construction (backwards) ----------------------------------------
    def _block(self, stmts: list[ast.stmt], nxt: Node, ctx: _Ctx) -> Node:
        for st in reversed(stmts):
            nxt = self._stmt(st, nxt, ctx)
        return nxt

    def _mk(self, kind, node, ctx: _Ctx, note="") -> Node:
        n = Node(self, kind, node, note)
        n.lexical = ctx.lexical
        return n

    def _exc_edge(self, n: Node, node: ast.AST, ctx: _Ctx):
        if not ctx.in_try:
            return
        if self.effects is not None and self.func is not None:
            stmt = node if isinstance(node, ast.stmt) else None
            r = self.effects.node_raises([node], self.func, stmt)
            if isinstance(node, ast.stmt) and isinstance(node, ast.Assert):
                r = set(r) | {"AssertionError"}
        else:
            r = {"ANY"} if may_raise(node) else set()
        if not r:
            return
        n.raises = frozenset(set(n.raises) | set(r))
        for t in ctx.exc.targets(r):
            if not any(l == "exc" and d is t for l, d in n.succ):
                n.link("exc", t)

    def _stmt(self, st: ast.stmt, nxt: Node, ctx: _Ctx) -> Node:
        if isinstance(st, ast.If):
            t = self._block(st.body, nxt, ctx)
            f = self._block(st.orelse, nxt, ctx)
            return self._cond(st.test, t, f, ctx)
        if isinstance(st, ast.While):
            head = self._mk("loop", st, ctx)
            after = self._block(st.orelse, nxt, ctx)
            body = self._block(st.body, head, ctx.but(brk=nxt, cont=head))
            head.link("next", self._cond(st.test, body, after, ctx))
            return head
        if isinstance(st, (ast.For, ast.AsyncFor)):
            it = self._mk("iter", st, ctx)
            after = self._block(st.orelse, nxt, ctx)
            body = self._block(st.body, it, ctx.but(brk=nxt, cont=it))
            it.link("iter", body)
            it.link("exit", after)
            self._exc_edge(it, st.iter, ctx)
            return it
        if isinstance(st, (ast.With, ast.AsyncWith)):
            w = self._mk("with", st, ctx)
            wx = self._mk("with_exit", st, ctx)
            wx.link("next", nxt)
            inner = ctx.but(lexical=ctx.lexical + (st,))
            body = self._block(st.body, wx, inner)
            w.link("next", body)
            for it in st.items:
                self._exc_edge(w, it.context_expr, ctx)
            return w
        if isinstance(st, ast.Try) or st.__class__.__name__ == "TryStar":
            return self._try(st, nxt, ctx)
        if isinstance(st, ast.Match):
            return self._match(st, nxt, ctx)
        if isinstance(st, ast.Return):
            if ctx.retval is not None:
                return ctx.retval(st.value, ctx)
            n = self._mk("stmt", st, ctx)
            n.link("return", ctx.ret)
            if st.value is not None:
                self._exc_edge(n, st.value, ctx)
            return n
        if isinstance(st, ast.Raise):
            n = self._mk("stmt", st, ctx)
            r = {"ANY"}
            if self.effects is not None and self.func is not None and st.exc is not None:
                e = st.exc.func if isinstance(st.exc, ast.Call) else st.exc
                nm = self.effects.canon(ast.unparse(e))
                if nm in self.effects.exc_classes:
                    r = {nm}
            n.raises = frozenset(r)
            for t in ctx.exc.targets(r):
                n.link("raise", t)
            return n
        if isinstance(st, ast.Break):
            if ctx.brk is None:
                raise AnalysisError(f"break outside loop in {self.qualname}")
            n = self._mk("stmt", st, ctx)
            n.link("break", ctx.brk)
            return n
        if isinstance(st, ast.Continue):
            if ctx.cont is None:
                raise AnalysisError(f"continue outside loop in {self.qualname}")
            n = self._mk("stmt", st, ctx)
            n.link("continue", ctx.cont)
            return n
        if isinstance(st, ast.Expr) and isinstance(st.value, ast.Call):
            tgt = self._inline_target(st.value, ctx)
            if tgt is not None:
                return self._inline(tgt, st.value, ctx, lambda v, c: nxt, nxt)
        if isinstance(st, ast.Assign) and isinstance(st.value, ast.Call) and len(st.targets) == 1:
            tgt = self._inline_target(st.value, ctx)
            if tgt is not None:
                target = st.targets[0]

                def assign(v, c, target=target, st=st):
                    a = ast.Assign(targets=[target], value=v if v is not None else ast.Constant(value=None))
                    ast.copy_location(a, st)
                    ast.fix_missing_locations(a)
                    n_ = self._mk("stmt", a, c)
                    n_.link("next", nxt)
                    return n_
                return self._inline(tgt, st.value, ctx, assign, nxt)
        n = self._mk("stmt", st, ctx)
        n.link("next", nxt)
        if not isinstance(st, (ast.FunctionDef, ast.AsyncFunctionDef, ast.ClassDef)):
            self._exc_edge(n, st, ctx)
        return n

    # -- inlining of helpers unknown to the rules ------------------------------
    def _inline_target(self, call: ast.Call, ctx: _Ctx):
        if not self.inline or self.func is None or self.func.cls is None or ctx.depth >= 2:
            return None
        fn = call.func
        if not (isinstance(fn, ast.Attribute) and isinstance(fn.value, ast.Name) and fn.value.id == "self"):
            return None
        from .known_methods import KNOWN_METHODS
        name = fn.attr
        if name in KNOWN_METHODS or name.startswith("__"):
            return None
        model = self.func.module.model
        tgt = model.find_method(self.func.cls, name)
        if tgt is None or tgt.is_property or tgt.node.decorator_list:
            return None
        owner = ctx.owner or self.func
        if tgt is owner or tgt is self.func:
            return None
        a = tgt.node.args
        if a.vararg or a.kwarg or a.kwonlyargs or a.posonlyargs:
            return None
        params = [x.arg for x in a.args][1:]
        if len(call.args) > len(params) or any(k.arg is None or k.arg not in params for k in call.keywords):
            return None
        for x in ast.walk(tgt.node):
            if isinstance(x, (ast.Yield, ast.YieldFrom, ast.Global, ast.Nonlocal)):
                return None
        return tgt

    def _inline(self, tgt: FuncInfo, call: ast.Call, ctx: _Ctx, retval, nxt: Node) -> Node:
        import copy
        a = tgt.node.args
        params = [x.arg for x in a.args][1:]
        binding: dict[str, ast.expr] = {}
        for p_, v in zip(params, call.args):
            binding[p_] = v
        for k in call.keywords:
            binding[k.arg] = k.value
        defaults = dict(zip(params[len(params) - len(a.defaults):], a.defaults))
        for p_ in params:
            if p_ not in binding:
                if p_ not in defaults:
                    return self._plain_call_node(call, ctx, nxt)
                binding[p_] = defaults[p_]
        # parameters that are re-assigned in the callee cannot be substituted textually
        for x in ast.walk(tgt.node):
            if isinstance(x, ast.Name) and isinstance(x.ctx, ast.Store) and x.id in binding \
                    and not (isinstance(binding[x.id], ast.Name) and binding[x.id].id == x.id):
                return self._plain_call_node(call, ctx, nxt)
        caller_names = {x.id for x in ast.walk(self.fn) if isinstance(x, ast.Name)}
        callee_locals = {x.id for x in ast.walk(tgt.node)
                         if isinstance(x, ast.Name) and isinstance(x.ctx, ast.Store)} - set(params)
        ren = {x: f"{x}__{tgt.name.strip('_')}" for x in callee_locals if x in caller_names}

        class Sub(ast.NodeTransformer):
            def visit_Name(s_, node):
                if node.id in binding and not isinstance(node.ctx, ast.Store):
                    return copy.deepcopy(binding[node.id])
                if node.id in ren:
                    return ast.copy_location(ast.Name(id=ren[node.id], ctx=node.ctx), node)
                return node
        body = [Sub().visit(copy.deepcopy(st)) for st in tgt.node.body]
        for st in body:
            ast.fix_missing_locations(st)
        self.inlined.append(tgt.qualname)
        inner = ctx.but(brk=None, cont=None, retval=retval, depth=ctx.depth + 1, owner=tgt)
        return self._block(body, retval(None, inner) if not body else self._fall(retval, inner), inner)

    def _fall(self, retval, inner):
        """Continuation for falling off the end of an inlined body (returns None)."""
        return retval(None, inner)

    def _plain_call_node(self, call, ctx, nxt):
        st = ast.Expr(value=call)
        ast.copy_location(st, call)
        n = self._mk("stmt", st, ctx)
        n.link("next", nxt)
        self._exc_edge(n, st, ctx)
        return n

    def _cond(self, test: ast.expr, t: Node, f: Node, ctx: _Ctx) -> Node:
        if isinstance(test, ast.UnaryOp) and isinstance(test.op, ast.Not):
            return self._cond(test.operand, f, t, ctx)
        if isinstance(test, ast.BoolOp):
            vals = list(test.values)
            if isinstance(test.op, ast.And):
                cur = t
                for v in reversed(vals):
                    cur = self._cond(v, cur, f, ctx)
                return cur
            cur = f
            for v in reversed(vals):
                cur = self._cond(v, t, cur, ctx)
            return cur
        if isinstance(test, ast.Constant):
            return t if test.value else f
        if isinstance(test, ast.Call):
            tgt = self._inline_target(test, ctx)
            if tgt is not None:
                def branch(v, c, t=t, f=f):
                    if v is None:
                        return f
                    return self._cond(v, t, f, c.but(retval=None))
                return self._inline(tgt, test, ctx, branch, f)
        n = self._mk("test", test, ctx)
        n.link("T", t)
        n.link("F", f)
        self._exc_edge(n, test, ctx)
        return n

    def _try(self, st, nxt: Node, ctx: _Ctx) -> Node:
        lex = ctx.lexical + (st,)
        if st.finalbody:
            fin_n = self._block(st.finalbody, nxt, ctx)
            rer = self._mk("reraise", st, ctx)
            for t in ctx.exc.targets({"ANY"}):
                rer.link("raise", t)
            fin_e = self._block(st.finalbody, rer, ctx)
            fin_r = self._block(st.finalbody, ctx.ret, ctx)
            brk = self._block(st.finalbody, ctx.brk, ctx) if ctx.brk is not None else None
            cont = self._block(st.finalbody, ctx.cont, ctx) if ctx.cont is not None else None
            outer = ctx.but(exc=_Finally(fin_e), ret=fin_r, brk=brk, cont=cont, in_try=True)
            after = fin_n
        else:
            outer = ctx
            after = nxt
        handlers = []
        for h in st.handlers:
            hn = self._mk("handler", h, ctx)
            hn.link("next", self._block(h.body, after, outer))
            if h.type is None:
                types = ["BaseException"]
            elif isinstance(h.type, ast.Tuple):
                types = [ast.unparse(e) for e in h.type.elts]
            else:
                types = [ast.unparse(h.type)]
            if self.effects is not None:
                types = [self.effects.canon(t) for t in types]
            handlers.append((types, hn))
        orelse = self._block(st.orelse, after, outer)
        if st.handlers:
            body_ctx = outer.but(exc=_Frame(handlers, outer.exc, self.effects),
                                 in_try=True, lexical=lex)
        else:
            body_ctx = outer.but(lexical=lex)
        return self._block(st.body, orelse, body_ctx)

    def _match(self, st: ast.Match, nxt: Node, ctx: _Ctx) -> Node:
        subj = self._mk("stmt", ast.Expr(value=st.subject, lineno=st.lineno,
                                         col_offset=st.col_offset), ctx, note="match-subject")
        cur = nxt     # no case matched
        for case in reversed(st.cases):
            body = self._block(case.body, nxt, ctx)
            if case.guard is not None:
                body = self._cond(case.guard, body, cur, ctx)
            cur = self._pattern(st.subject, case.pattern, body, cur, ctx)
        subj.link("next", cur)
        self._exc_edge(subj, st.subject, ctx)
        return subj

    def _pattern(self, subject: ast.expr, pat: ast.pattern, t: Node, f: Node,
                 ctx: _Ctx) -> Node:
        if isinstance(pat, ast.MatchAs) and pat.pattern is None:
            return t                                   # wildcard / capture
        if isinstance(pat, ast.MatchSequence) and isinstance(subject, (ast.Tuple, ast.List)) \
                and len(subject.elts) == len(pat.patterns) \
                and not any(isinstance(p, ast.MatchStar) for p in pat.patterns):
            cur = t
            for s, p in reversed(list(zip(subject.elts, pat.patterns))):
                cur = self._pattern(s, p, cur, f, ctx)
            return cur
        if isinstance(pat, ast.MatchValue):
            cmp = ast.Compare(left=subject, ops=[ast.Eq()], comparators=[pat.value])
            ast.copy_location(cmp, pat)
            n = self._mk("test", cmp, ctx, note=ast.unparse(pat.value))
        elif isinstance(pat, ast.MatchSingleton):
            if pat.value is True:
                n = self._mk("test", subject, ctx, note="True")
                n.line = pat.lineno
            elif pat.value is False:
                n = self._mk("test", subject, ctx, note="False")
                n.line = pat.lineno
                n.link("T", f)
                n.link("F", t)
                n.pattern_subject = subject
                return n
            else:
                cmp = ast.Compare(left=subject, ops=[ast.Is()],
                                  comparators=[ast.Constant(value=None)])
                ast.copy_location(cmp, pat)
                n = self._mk("test", cmp, ctx, note="None")
        else:
            fake = ast.Call(func=ast.Name(id="__match__", ctx=ast.Load()),
                            args=[subject, ast.Constant(value=ast.unparse(pat))], keywords=[])
            ast.copy_location(fake, pat)
            n = self._mk("test", fake, ctx, note=ast.unparse(pat))
        n.pattern_subject = subject
        n.link("T", t)
        n.link("F", f)
        return n

    # -- queries -----------------------------------------------------------
    def select(self, pred: Callable[[Node], bool]) -> list[Node]:
        return [n for n in self.nodes if pred(n)]

    def reach(self, starts: Iterable[Node], blocked: Iterable[Node] = (),
              blocked_edges: Iterable[tuple[Node, str]] = (),
              skip_labels: Iterable[str] = (), normal_blocked: Iterable[Node] = (),
              include_starts: bool = True, tracker=None, start_state=None) -> set[Node]:
        """Nodes reachable from *starts*.

        blocked        nodes that cannot be entered
        blocked_edges  (node, label) out-edges that are removed
        normal_blocked nodes whose non-exceptional out-edges are removed (the
                       node's effect "did not happen" only on its exc edge)
        """
        blocked = set(blocked)
        be = set((n.id, l) for n, l in blocked_edges)
        skip = set(skip_labels)
        nb = set(normal_blocked)
        if tracker is not None:
            return self._reach_tracked(starts, blocked, be, skip, nb, include_starts,
                                       tracker, start_state)
        seen: set[Node] = set()
        todo = []
        for s in starts:
            if s in blocked:
                continue
            if include_starts:
                seen.add(s)
            todo.append(s)
        while todo:
            n = todo.pop()
            for label, d in n.succ:
                if label in skip or (n.id, label) in be:
                    continue
                if n in nb and label != "exc":
                    continue
                if d in blocked or d in seen:
                    continue
                seen.add(d)
                todo.append(d)
        return seen

    def _reach_tracked(self, starts, blocked, be, skip, nb, include_starts, tracker,
                       start_state) -> set[Node]:
        st0 = start_state if start_state is not None else tracker.initial()
        seen: set[tuple[int, tuple]] = set()
        out: set[Node] = set()
        todo = []
        for s in starts:
            if s in blocked:
                continue
            seen.add((s.id, st0))
            if include_starts:
                out.add(s)
            todo.append((s, st0))
        while todo:
            n, st = todo.pop()
            for label, d in n.succ:
                if label in skip or (n.id, label) in be:
                    continue
                if n in nb and label != "exc":
                    continue
                if d in blocked:
                    continue
                st2 = tracker.step(n, label, st)
                if st2 is None:
                    continue
                key = (d.id, st2)
                if key in seen:
                    continue
                seen.add(key)
                out.add(d)
                todo.append((d, st2))
        return out

    def reachable_nodes(self) -> set[Node]:
        return self.reach([self.entry])

    def dominated(self, target: Node, by: Iterable[Node], effect: bool = True,
                  tracker=None) -> bool:
        """Every entry->target path passes through (the completed effect of)
        one of *by*."""
        by = list(by)
        if target in by:
            return True
        if effect:
            r = self.reach([self.entry], normal_blocked=by, tracker=tracker)
        else:
            r = self.reach([self.entry], blocked=by, tracker=tracker)
        return target not in r

    def always_followed(self, start: Node, by: Iterable[Node],
                        exits: Iterable[Node] | None = None,
                        skip_labels: Iterable[str] = ()) -> bool:
        """From *start* no exit is reachable without completing one of *by*."""
        exits = list(exits) if exits is not None else [self.exit]
        r = self.reach([start], normal_blocked=list(by), skip_labels=skip_labels)
        return not any(e in r for e in exits)

    def guard_edges(self, atom_pred: Callable[[Node], str | None]) -> list[tuple[Node, str]]:
        """Edges to remove so that only paths on which the guard is FALSE remain.

        atom_pred(test_node) returns the label ('T' or 'F') of the edge on which
        the guard fact holds, or None when the test says nothing about it."""
        out = []
        for n in self.nodes:
            if n.kind == "test":
                lab = atom_pred(n)
                if lab:
                    out.append((n, lab))
        return out

    def guarded(self, target: Node, atom_pred: Callable[[Node], str | None],
                tracker=None) -> bool:
        """*target* is reachable only through an edge on which the fact holds."""
        edges = self.guard_edges(atom_pred)
        if not edges:
            return False
        r = self.reach([self.entry], blocked_edges=edges, tracker=tracker)
        return target not in r

    def can_reach(self, a: Node, b: Node, **kw) -> bool:
        return b in self.reach([a], include_starts=False, **kw)

    def paths(self, start: Node | None = None, stop: Callable[[Node], bool] | None = None,
              bound: int = 5000, max_visits: int = 1,
              skip_labels: Iterable[str] = (), tracker=None,
              start_state=None) -> list[list[tuple[Node, str]]]:
        """Enumerate paths as lists of (node, label-taken-out-of-node).  The
        last element has label '' (exit/raise/stop node)."""
        start = start or self.entry
        skip = set(skip_labels)
        out: list[list[tuple[Node, str]]] = []
        visits: dict[int, int] = {}
        path: list[tuple[Node, str]] = []

        state0 = (start_state if start_state is not None else tracker.initial()) \
            if tracker is not None else None

        def dfs(n: Node, st=None):
            if len(out) > bound:
                raise AnalysisError(
                    f"more than {bound} paths through {self.qualname}")
            if n.kind in ("exit", "raise") or (stop is not None and stop(n) and path):
                out.append(path + [(n, "")])
                return
            if visits.get(n.id, 0) >= max_visits:
                return
            visits[n.id] = visits.get(n.id, 0) + 1
            succ = [(l, d) for l, d in n.succ if l not in skip]
            for label, d in succ:
                st2 = st
                if tracker is not None:
                    st2 = tracker.step(n, label, st)
                    if st2 is None:
                        continue
                path.append((n, label))
                dfs(d, st2)
                path.pop()
            visits[n.id] -= 1

        dfs(start, state0)
        return out

    def loc(self, n: Node) -> str:
        return f"{self.relpath}:{n.line}"

    def describe(self, path: list[tuple[Node, str]], limit: int = 40) -> list[str]:
        out = []
        for n, l in path:
            if n.kind in ("entry", "with_exit", "loop", "reraise"):
                continue
            lab = f" [{l}]" if l not in ("next", "") else ""
            out.append(f"{self.relpath}:{n.line}: {n.text(90)}{lab}")
        return out[:limit]


_cfg_cache: dict[tuple, CFG] = {}


def cfg_of(func: FuncInfo, exc_everywhere: bool = False, effects=None, inline: bool = True) -> CFG:
    key = (id(func.node), exc_everywhere, id(effects), inline)
    if key not in _cfg_cache:
        _cfg_cache[key] = CFG(func, exc_everywhere=exc_everywhere, effects=effects, inline=inline)
    return _cfg_cache[key]
