"""Small AST helpers shared by the rule modules."""
from __future__ import annotations

import ast
from typing import Iterator


def dotted(e: ast.AST) -> str:
    """'a.b.c' for Name/Attribute chains, '' otherwise (calls keep '()')."""
    if isinstance(e, ast.Name):
        return e.id
    if isinstance(e, ast.Attribute):
        b = dotted(e.value)
        return f"{b}.{e.attr}" if b else ""
    if isinstance(e, ast.Call):
        b = dotted(e.func)
        return f"{b}()" if b else ""
    if isinstance(e, ast.Subscript):
        b = dotted(e.value)
        return f"{b}[]" if b else ""
    return ""


def call_name(c: ast.Call) -> str:
    return dotted(c.func)


def attr_tail(e: ast.AST) -> str:
    if isinstance(e, ast.Attribute):
        return e.attr
    if isinstance(e, ast.Name):
        return e.id
    return ""


def calls_in(node: ast.AST) -> list[ast.Call]:
    return [n for n in ast.walk(node) if isinstance(n, ast.Call)]


def walk_no_nested(node: ast.AST) -> Iterator[ast.AST]:
    """ast.walk that does not descend into nested function/class/lambda bodies."""
    todo = [node]
    first = True
    while todo:
        n = todo.pop()
        if not first and isinstance(n, (ast.FunctionDef, ast.AsyncFunctionDef,
                                        ast.ClassDef, ast.Lambda)):
            continue
        first = False
        yield n
        todo.extend(ast.iter_child_nodes(n))


def parents(root: ast.AST) -> dict[ast.AST, ast.AST]:
    out = {}
    for p in ast.walk(root):
        for c in ast.iter_child_nodes(p):
            out[c] = p
    return out


def enclosing_tests(fn: ast.AST, target: ast.AST) -> list[tuple[ast.expr, bool]]:
    """(test, polarity) of every if/elif/while whose branch lexically encloses
    *target*, outermost first.  polarity False = the else/elif side."""
    par = parents(fn)
    chain = []
    n = target
    while n in par:
        p = par[n]
        if isinstance(p, (ast.If, ast.While)):
            if any(n is b for b in p.body):
                chain.append((p.test, True))
            elif any(n is b for b in p.orelse):
                chain.append((p.test, False))
        n = p
    chain.reverse()
    return chain


def conjuncts(test: ast.expr, polarity: bool = True) -> list[tuple[ast.expr, bool]]:
    """Facts implied by *test* evaluating to *polarity*:  (expr, truth)."""
    if isinstance(test, ast.UnaryOp) and isinstance(test.op, ast.Not):
        return conjuncts(test.operand, not polarity)
    if isinstance(test, ast.BoolOp):
        if isinstance(test.op, ast.And) and polarity:
            out = []
            for v in test.values:
                out += conjuncts(v, True)
            return out
        if isinstance(test.op, ast.Or) and not polarity:
            out = []
            for v in test.values:
                out += conjuncts(v, False)
            return out
        return [(test, polarity)]
    return [(test, polarity)]


# single-return helpers of the analysed package: bare name -> (parameter names, returned
# expression); filled by SourceModel after parsing, only for names defined exactly once
SIMPLE_HELPERS: dict[str, tuple[list[str], ast.expr]] = {}


def predicate_normal_form(node: ast.FunctionDef):
    """A predicate written as guard clauses - `if c1: return False` ... `if cn: return False`,
    `return True` (or with the constants swapped) - returns `not (c1 or ... or cn)` (resp.
    `c1 or ... or cn`): the single-return expression, or None for any other shape."""
    body = [b for b in node.body if not (isinstance(b, ast.Expr) and isinstance(b.value, ast.Constant)
                                         and isinstance(b.value.value, str))]
    if len(body) < 2 or not isinstance(body[-1], ast.Return) or not isinstance(body[-1].value, ast.Constant) \
            or not isinstance(body[-1].value.value, bool):
        return None
    last = body[-1].value.value
    conds = []
    for st in body[:-1]:
        if not (isinstance(st, ast.If) and not st.orelse and len(st.body) == 1 and isinstance(st.body[0], ast.Return)
                and isinstance(st.body[0].value, ast.Constant) and st.body[0].value.value is (not last)):
            return None
        conds.append(st.test)
    import copy
    disj = copy.deepcopy(conds[0]) if len(conds) == 1 else ast.BoolOp(op=ast.Or(), values=[copy.deepcopy(c) for c in conds])
    out = ast.UnaryOp(op=ast.Not(), operand=disj) if last else disj
    for y in ast.walk(out):
        ast.copy_location(y, body[0])
    return out


def register_simple_helpers(funcs) -> None:
    """funcs: iterable of (name, ast.FunctionDef).  A helper is *simple* when its body is
    (a docstring and) one `return <expr>`, it has no *args/**kwargs/defaults-free surprises and
    its name is unique in the package: a call to it is the returned expression with the
    arguments put in place of the parameters."""
    SIMPLE_HELPERS.clear()
    seen: dict[str, int] = {}
    cand = {}
    for name, node in funcs:
        seen[name] = seen.get(name, 0) + 1
        body = [b for b in node.body if not (isinstance(b, ast.Expr) and isinstance(b.value, ast.Constant)
                                             and isinstance(b.value.value, str))]
        pnf = predicate_normal_form(node)
        if pnf is not None:
            body = [ast.copy_location(ast.Return(value=pnf), node)]
        if len(body) == 1 and isinstance(body[0], ast.Return) and body[0].value is not None \
                and not node.args.vararg and not node.args.kwarg and not node.args.kwonlyargs \
                and not any(isinstance(d, ast.Name) and d.id == "property" or
                            (isinstance(d, ast.Attribute) and d.attr in ("setter", "getter"))
                            for d in node.decorator_list) \
                and not name.startswith("__"):
            params = [a.arg for a in node.args.args]
            if params and params[0] in ("self", "cls"):
                # only helpers that do not use their receiver
                if any(isinstance(x, ast.Name) and x.id == params[0] for x in ast.walk(body[0].value)):
                    continue
                params = params[1:]
            cand[name] = (params, body[0].value)
    for name, v in cand.items():
        if seen.get(name) == 1:
            SIMPLE_HELPERS[name] = v


def expand_simple_call(c: ast.Call):
    """The returned expression of a simple helper with the call's arguments substituted, or None."""
    fn = c.func
    name = fn.id if isinstance(fn, ast.Name) else fn.attr if isinstance(fn, ast.Attribute) else None
    h = SIMPLE_HELPERS.get(name or "")
    if h is None or c.keywords and any(k.arg is None for k in c.keywords):
        return None
    params, expr = h
    amap = {}
    for i, a in enumerate(c.args):
        if i >= len(params) or isinstance(a, ast.Starred):
            return None
        amap[params[i]] = a
    for k in c.keywords:
        if k.arg not in params or k.arg in amap:
            return None
        amap[k.arg] = k.value
    if set(amap) != set(params):
        return None
    import copy

    class P(ast.NodeTransformer):
        def visit_Name(self, node):
            if node.id in amap:
                return copy.deepcopy(amap[node.id])
            return node
    return P().visit(copy.deepcopy(expr))


def resolve_local_chain(fn: ast.FunctionDef, e: ast.expr, depth: int = 6) -> str:
    """Unparse *e* after substituting single-assignment locals by their value (and calls of
    simple single-return helpers by what they return)."""
    assigns: dict[str, list[ast.expr]] = {}
    for n in walk_no_nested(fn):
        if isinstance(n, ast.Assign) and len(n.targets) == 1 and isinstance(n.targets[0], ast.Name):
            assigns.setdefault(n.targets[0].id, []).append(n.value)
        elif isinstance(n, ast.AnnAssign) and isinstance(n.target, ast.Name) and n.value is not None:
            assigns.setdefault(n.target.id, []).append(n.value)

    class Sub(ast.NodeTransformer):
        def __init__(self, d):
            self.d = d

        def visit_Name(self, node):
            if self.d > 0 and node.id in assigns and len(assigns[node.id]) == 1:
                import copy
                return Sub(self.d - 1).visit(copy.deepcopy(assigns[node.id][0]))
            return node

        def visit_Call(self, node):
            node = self.generic_visit(node)
            if self.d > 0 and isinstance(node, ast.Call):
                x = expand_simple_call(node)
                if x is not None:
                    return Sub(self.d - 1).visit(x)
            return node

    import copy
    return ast.unparse(Sub(depth).visit(copy.deepcopy(e)))


def stmts_walk(body: list[ast.stmt]) -> Iterator[ast.stmt]:
    """Every statement (recursively) in *body*, not entering nested defs."""
    for st in body:
        yield st
        for fld in ("body", "orelse", "finalbody"):
            sub = getattr(st, fld, None)
            if isinstance(sub, list) and sub and isinstance(sub[0], ast.stmt) \
                    and not isinstance(st, (ast.FunctionDef, ast.AsyncFunctionDef, ast.ClassDef)):
                yield from stmts_walk(sub)
        if isinstance(st, ast.Try):
            for h in st.handlers:
                yield from stmts_walk(h.body)
        if isinstance(st, ast.Match):
            for c in st.cases:
                yield from stmts_walk(c.body)


def store_targets(st: ast.stmt) -> list[ast.expr]:
    if isinstance(st, ast.Assign):
        out = []
        for t in st.targets:
            if isinstance(t, (ast.Tuple, ast.List)):
                out += list(t.elts)
            else:
                out.append(t)
        return out
    if isinstance(st, (ast.AugAssign, ast.AnnAssign)):
        return [st.target] if getattr(st, "value", True) is not None else []
    return []


def is_const(e: ast.AST, value) -> bool:
    return isinstance(e, ast.Constant) and e.value is value or \
        (isinstance(e, ast.Constant) and type(e.value) is type(value) and e.value == value)


def argmap(call: ast.Call, names: list[str]) -> dict[str, ast.expr]:
    """Arguments of *call* by parameter name, whether passed positionally or by keyword
    (*names*: the callee's positional parameters in order, without self)."""
    out: dict[str, ast.expr] = {}
    for n, a in zip(names, call.args):
        out[n] = a
    for k in call.keywords:
        if k.arg is not None:
            out[k.arg] = k.value
    return out
