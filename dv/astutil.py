"""Small AST helpers shared by the rule modules."""
from __future__ import annotations

import ast
from typing import Iterator


def dotted(e: ast.AST) -> str:
    """'a.b.c' for Name/Attribute chains, '' otherwise (calls keep '()')."""
    if isinstance(e, ast.Name):
        return e.id
    if isinstance(e, ast.Attribute):
        b = dotted(e.value)
        return f"{b}.{e.attr}" if b else ""
    if isinstance(e, ast.Call):
        b = dotted(e.func)
        return f"{b}()" if b else ""
    if isinstance(e, ast.Subscript):
        b = dotted(e.value)
        return f"{b}[]" if b else ""
    return ""


def call_name(c: ast.Call) -> str:
    return dotted(c.func)


def attr_tail(e: ast.AST) -> str:
    if isinstance(e, ast.Attribute):
        return e.attr
    if isinstance(e, ast.Name):
        return e.id
    return ""


def calls_in(node: ast.AST) -> list[ast.Call]:
    return [n for n in ast.walk(node) if isinstance(n, ast.Call)]


def walk_no_nested(node: ast.AST) -> Iterator[ast.AST]:
    """ast.walk that does not descend into nested function/class/lambda bodies."""
    todo = [node]
    first = True
    while todo:
        n = todo.pop()
        if not first and isinstance(n, (ast.FunctionDef, ast.AsyncFunctionDef,
                                        ast.ClassDef, ast.Lambda)):
            continue
        first = False
        yield n
        todo.extend(ast.iter_child_nodes(n))


def parents(root: ast.AST) -> dict[ast.AST, ast.AST]:
    out = {}
    for p in ast.walk(root):
        for c in ast.iter_child_nodes(p):
            out[c] = p
    return out


def enclosing_tests(fn: ast.AST, target: ast.AST) -> list[tuple[ast.expr, bool]]:
    """(test, polarity) of every if/elif/while whose branch lexically encloses
    *target*, outermost first.  polarity False = the else/elif side."""
    par = parents(fn)
    chain = []
    n = target
    while n in par:
        p = par[n]
        if isinstance(p, (ast.If, ast.While)):
            if any(n is b for b in p.body):
                chain.append((p.test, True))
            elif any(n is b for b in p.orelse):
                chain.append((p.test, False))
        n = p
    chain.reverse()
    return chain


def conjuncts(test: ast.expr, polarity: bool = True) -> list[tuple[ast.expr, bool]]:
    """Facts implied by *test* evaluating to *polarity*:  (expr, truth)."""
    if isinstance(test, ast.UnaryOp) and isinstance(test.op, ast.Not):
        return conjuncts(test.operand, not polarity)
    if isinstance(test, ast.BoolOp):
        if isinstance(test.op, ast.And) and polarity:
            out = []
            for v in test.values:
                out += conjuncts(v, True)
            return out
        if isinstance(test.op, ast.Or) and not polarity:
            out = []
            for v in test.values:
                out += conjuncts(v, False)
            return out
        return [(test, polarity)]
    return [(test, polarity)]


def resolve_local_chain(fn: ast.FunctionDef, e: ast.expr, depth: int = 6) -> str:
    """Unparse *e* after substituting single-assignment locals by their value."""
    assigns: dict[str, list[ast.expr]] = {}
    for n in walk_no_nested(fn):
        if isinstance(n, ast.Assign) and len(n.targets) == 1 and isinstance(n.targets[0], ast.Name):
            assigns.setdefault(n.targets[0].id, []).append(n.value)
        elif isinstance(n, ast.AnnAssign) and isinstance(n.target, ast.Name) and n.value is not None:
            assigns.setdefault(n.target.id, []).append(n.value)

    class Sub(ast.NodeTransformer):
        def __init__(self, d):
            self.d = d

        def visit_Name(self, node):
            if self.d > 0 and node.id in assigns and len(assigns[node.id]) == 1:
                import copy
                return Sub(self.d - 1).visit(copy.deepcopy(assigns[node.id][0]))
            return node

    import copy
    return ast.unparse(Sub(depth).visit(copy.deepcopy(e)))


def stmts_walk(body: list[ast.stmt]) -> Iterator[ast.stmt]:
    """Every statement (recursively) in *body*, not entering nested defs."""
    for st in body:
        yield st
        for fld in ("body", "orelse", "finalbody"):
            sub = getattr(st, fld, None)
            if isinstance(sub, list) and sub and isinstance(sub[0], ast.stmt) \
                    and not isinstance(st, (ast.FunctionDef, ast.AsyncFunctionDef, ast.ClassDef)):
                yield from stmts_walk(sub)
        if isinstance(st, ast.Try):
            for h in st.handlers:
                yield from stmts_walk(h.body)
        if isinstance(st, ast.Match):
            for c in st.cases:
                yield from stmts_walk(c.body)


def store_targets(st: ast.stmt) -> list[ast.expr]:
    if isinstance(st, ast.Assign):
        out = []
        for t in st.targets:
            if isinstance(t, (ast.Tuple, ast.List)):
                out += list(t.elts)
            else:
                out.append(t)
        return out
    if isinstance(st, (ast.AugAssign, ast.AnnAssign)):
        return [st.target] if getattr(st, "value", True) is not None else []
    return []


def is_const(e: ast.AST, value) -> bool:
    return isinstance(e, ast.Constant) and e.value is value or \
        (isinstance(e, ast.Constant) and type(e.value) is type(value) and e.value == value)


def argmap(call: ast.Call, names: list[str]) -> dict[str, ast.expr]:
    """Arguments of *call* by parameter name, whether passed positionally or by keyword
    (*names*: the callee's positional parameters in order, without self)."""
    out: dict[str, ast.expr] = {}
    for n, a in zip(names, call.args):
        out[n] = a
    for k in call.keywords:
        if k.arg is not None:
            out[k.arg] = k.value
    return out
