"""Normalisation of atomic branch tests so that equivalent spellings compare
equal:  ``x != C`` / ``not x == C``, ``x in (A, B)`` / folded constants,
``a < b`` / ``b > a`` / ``not a >= b`` ..."""
from __future__ import annotations

import ast
from typing import Any, Callable, NamedTuple

from .cfg import CFG, Node
from .srcmodel import ClassInfo, Module, NotConst, SourceModel


class Atom(NamedTuple):
    subject: str        # normalised text of the tested expression
    op: str             # truthy | == | in | is | > | in-expr | other
    value: Any          # folded constant / frozenset / text
    flip: bool          # True: the test node's T edge means the atom is FALSE

    def __str__(self):
        return f"{'not ' if self.flip else ''}({self.subject} {self.op} {self.value!r})"


def _txt(e: ast.AST) -> str:
    return ast.unparse(e)


class Atomizer:
    def __init__(self, model: SourceModel, module: Module, cls: ClassInfo | None = None,
                 alias: dict[str, str] | None = None):
        self.model = model
        self.module = module
        self.cls = cls
        self.alias = alias or {}

    def text(self, e: ast.AST) -> str:
        s = _txt(e)
        return self.alias.get(s, s)

    def const(self, e: ast.expr):
        try:
            return True, self.model.fold(e, self.module, self.cls)
        except NotConst:
            return False, None

    def atom(self, test: ast.expr) -> Atom:
        flip = False
        while isinstance(test, ast.UnaryOp) and isinstance(test.op, ast.Not):
            test = test.operand
            flip = not flip
        if isinstance(test, ast.Compare) and len(test.ops) == 1:
            op, l, r = test.ops[0], test.left, test.comparators[0]
            if isinstance(op, (ast.Eq, ast.NotEq)):
                okr, vr = self.const(r)
                okl, vl = self.const(l)
                if okr and not okl:
                    return Atom(self.text(l), "==", vr, flip ^ isinstance(op, ast.NotEq))
                if okl and not okr:
                    return Atom(self.text(r), "==", vl, flip ^ isinstance(op, ast.NotEq))
                a, b = sorted([self.text(l), self.text(r)])
                return Atom(a, "==x", b, flip ^ isinstance(op, ast.NotEq))
            if isinstance(op, (ast.In, ast.NotIn)):
                okr, vr = self.const(r)
                neg = isinstance(op, ast.NotIn)
                if okr and isinstance(vr, (tuple, frozenset, list, set)):
                    try:
                        return Atom(self.text(l), "in", frozenset(vr), flip ^ neg)
                    except TypeError:
                        pass
                return Atom(self.text(l), "in-expr", self.text(r), flip ^ neg)
            if isinstance(op, (ast.Is, ast.IsNot)):
                okr, vr = self.const(r)
                neg = isinstance(op, ast.IsNot)
                if okr:
                    return Atom(self.text(l), "is", vr, flip ^ neg)
                return Atom(self.text(l), "is-expr", self.text(r), flip ^ neg)
            if isinstance(op, (ast.Gt, ast.Lt, ast.GtE, ast.LtE)):
                a, b = self.text(l), self.text(r)
                if isinstance(op, ast.Gt):
                    return Atom(a, ">", b, flip)
                if isinstance(op, ast.Lt):
                    return Atom(b, ">", a, flip)
                if isinstance(op, ast.GtE):
                    return Atom(b, ">", a, not flip)
                return Atom(a, ">", b, not flip)
        if isinstance(test, ast.Compare):
            return Atom(self.text(test), "chain", None, flip)
        return Atom(self.text(test), "truthy", None, flip)

    def node_atom(self, n: Node) -> Atom | None:
        if n.kind != "test":
            return None
        return self.atom(n.ast)

    def label_when(self, n: Node, pred: Callable[[Atom], bool | None]) -> str | None:
        """pred(atom) -> the truth value of the (unflipped) atom under which the
        wanted fact holds (True/False), or None.  Returns the edge label."""
        a = self.node_atom(n)
        if a is None:
            return None
        want = pred(a)
        if want is None:
            return None
        truth_on_T = not a.flip
        return "T" if want == truth_on_T else "F"

    def guarded(self, cfg: CFG, target: Node, pred: Callable[[Atom], bool | None]) -> bool:
        return cfg.guarded(target, lambda n: self.label_when(n, pred))

    def decisions(self, path) -> list[tuple[Atom, bool]]:
        """(atom, truth) for every test node on an enumerated path."""
        out = []
        for n, lab in path:
            if n.kind == "test" and lab in ("T", "F"):
                a = self.atom(n.ast)
                truth = (lab == "T") ^ a.flip
                out.append((Atom(a.subject, a.op, a.value, False), truth))
        return out


def consistent(decisions: list[tuple[Atom, bool]]) -> bool:
    """Cheap feasibility filter: an atom is not both true and false, and
    ``x == A`` true excludes ``x == B`` true / ``x in S`` with A not in S."""
    seen: dict[tuple, bool] = {}
    eq: dict[str, Any] = {}
    for a, t in decisions:
        k = (a.subject, a.op, a.value)
        if k in seen and seen[k] != t:
            return False
        seen[k] = t
    for a, t in decisions:
        if a.op == "==" and t:
            if a.subject in eq and eq[a.subject] != a.value:
                return False
            eq[a.subject] = a.value
    for a, t in decisions:
        if a.subject in eq:
            v = eq[a.subject]
            if a.op == "==" and not t and a.value == v:
                return False
            if a.op == "in":
                if t and v not in a.value:
                    return False
                if not t and v in a.value:
                    return False
    return True
