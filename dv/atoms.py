"""Normalisation of atomic branch tests so that equivalent spellings compare
equal:  ``x != C`` / ``not x == C``, ``x in (A, B)`` / folded constants,
``a < b`` / ``b > a`` / ``not a >= b`` ..."""
from __future__ import annotations

import ast
from typing import Any, Callable, NamedTuple

from .cfg import CFG, Node
from .srcmodel import ClassInfo, Module, NotConst, SourceModel


class Atom(NamedTuple):
    subject: str        # normalised text of the tested expression
    op: str             # truthy | == | in | is | > | in-expr | other
    value: Any          # folded constant / frozenset / text
    flip: bool          # True: the test node's T edge means the atom is FALSE

    def __str__(self):
        return f"{'not ' if self.flip else ''}({self.subject} {self.op} {self.value!r})"


def _txt(e: ast.AST) -> str:
    return ast.unparse(e)


class Atomizer:
    def __init__(self, model: SourceModel, module: Module, cls: ClassInfo | None = None,
                 alias: dict[str, str] | None = None):
        self.model = model
        self.module = module
        self.cls = cls
        self.alias = alias or {}

    def text(self, e: ast.AST) -> str:
        s = _txt(e)
        return self.alias.get(s, s)

    def const(self, e: ast.expr):
        try:
            return True, self.model.fold(e, self.module, self.cls)
        except NotConst:
            return False, None

    def atom(self, test: ast.expr) -> Atom:
        flip = False
        while isinstance(test, ast.UnaryOp) and isinstance(test.op, ast.Not):
            test = test.operand
            flip = not flip
        if isinstance(test, ast.Compare) and len(test.ops) == 1:
            op, l, r = test.ops[0], test.left, test.comparators[0]
            if isinstance(op, (ast.Eq, ast.NotEq)):
                okr, vr = self.const(r)
                okl, vl = self.const(l)
                if okr and not okl:
                    return Atom(self.text(l), "==", vr, flip ^ isinstance(op, ast.NotEq))
                if okl and not okr:
                    return Atom(self.text(r), "==", vl, flip ^ isinstance(op, ast.NotEq))
                a, b = sorted([self.text(l), self.text(r)])
                return Atom(a, "==x", b, flip ^ isinstance(op, ast.NotEq))
            if isinstance(op, (ast.In, ast.NotIn)):
                okr, vr = self.const(r)
                neg = isinstance(op, ast.NotIn)
                if okr and isinstance(vr, (tuple, frozenset, list, set)):
                    try:
                        return Atom(self.text(l), "in", frozenset(vr), flip ^ neg)
                    except TypeError:
                        pass
                return Atom(self.text(l), "in-expr", self.text(r), flip ^ neg)
            if isinstance(op, (ast.Is, ast.IsNot)):
                okr, vr = self.const(r)
                neg = isinstance(op, ast.IsNot)
                if okr:
                    return Atom(self.text(l), "is", vr, flip ^ neg)
                return Atom(self.text(l), "is-expr", self.text(r), flip ^ neg)
            if isinstance(op, (ast.Gt, ast.Lt, ast.GtE, ast.LtE)):
                a, b = self.text(l), self.text(r)
                if isinstance(op, ast.Gt):
                    return Atom(a, ">", b, flip)
                if isinstance(op, ast.Lt):
                    return Atom(b, ">", a, flip)
                if isinstance(op, ast.GtE):
                    return Atom(b, ">", a, not flip)
                return Atom(a, ">", b, not flip)
        if isinstance(test, ast.Compare):
            return Atom(self.text(test), "chain", None, flip)
        return Atom(self.text(test), "truthy", None, flip)

    def node_atom(self, n: Node) -> Atom | None:
        if n.kind != "test":
            return None
        return self.atom(n.ast)

    def label_when(self, n: Node, pred: Callable[[Atom], bool | None]) -> str | None:
        """pred(atom) -> the truth value of the (unflipped) atom under which the
        wanted fact holds (True/False), or None.  Returns the edge label."""
        a = self.node_atom(n)
        if a is None:
            return None
        want = pred(a)
        if want is None:
            return None
        truth_on_T = not a.flip
        return "T" if want == truth_on_T else "F"

    def guarded(self, cfg: CFG, target: Node, pred: Callable[[Atom], bool | None]) -> bool:
        return cfg.guarded(target, lambda n: self.label_when(n, pred))

    def decisions(self, path) -> list[tuple[Atom, bool]]:
        """(atom, truth) for every test node on an enumerated path."""
        out = []
        for n, lab in path:
            if n.kind == "test" and lab in ("T", "F"):
                a = self.atom(n.ast)
                truth = (lab == "T") ^ a.flip
                out.append((Atom(a.subject, a.op, a.value, False), truth))
        return out


def consistent(decisions: list[tuple[Atom, bool]]) -> bool:
    """Cheap feasibility filter: an atom is not both true and false, and
    ``x == A`` true excludes ``x == B`` true / ``x in S`` with A not in S."""
    seen: dict[tuple, bool] = {}
    eq: dict[str, Any] = {}
    for a, t in decisions:
        k = (a.subject, a.op, a.value)
        if k in seen and seen[k] != t:
            return False
        seen[k] = t
    for a, t in decisions:
        if a.op == "==" and t:
            if a.subject in eq and eq[a.subject] != a.value:
                return False
            eq[a.subject] = a.value
    for a, t in decisions:
        if a.subject in eq:
            v = eq[a.subject]
            if a.op == "==" and not t and a.value == v:
                return False
            if a.op == "in":
                if t and v not in a.value:
                    return False
                if not t and v in a.value:
                    return False
    return True


class FlagTracker:
    """Tracks a few local flag variables along paths so that tests on them are
    decided by the path's own assignment history.

    Abstract values: N (None), F (False), T (True), E (falsy non-None constant),
    S (set to an object - treated as truthy and not None), U (unknown)."""

    def __init__(self, atomizer: Atomizer, names, truthy_objects: bool = True,
                 initial: dict | None = None):
        self.at = atomizer
        self.names = tuple(sorted(names))
        self.truthy_objects = truthy_objects
        self._init = tuple((initial or {}).get(n, "U") for n in self.names)
        self._atom_cache: dict[int, Atom | None] = {}

    def initial(self):
        return self._init

    def _val(self, v: ast.expr | None) -> str:
        if isinstance(v, ast.Constant):
            if v.value is None:
                return "N"
            if v.value is True:
                return "T"
            if v.value is False:
                return "F"
            return "S" if v.value else "E"
        if isinstance(v, (ast.List, ast.Tuple, ast.Dict, ast.Set)):
            return "S" if (getattr(v, "elts", None) or getattr(v, "keys", None)) else "E"
        return "S" if self.truthy_objects else "U"

    def step(self, n: Node, label: str, st):
        if n.kind == "stmt" and label not in ("exc", "raise"):
            a = n.ast
            vals = None
            if isinstance(a, (ast.Assign, ast.AnnAssign)) and getattr(a, "value", None) is not None:
                tg = []
                for t in (a.targets if isinstance(a, ast.Assign) else [a.target]):
                    if isinstance(t, ast.Name):
                        tg.append((t.id, self._val(a.value)))
                    elif isinstance(t, (ast.Tuple, ast.List)):
                        for e in t.elts:
                            if isinstance(e, ast.Name):
                                tg.append((e.id, "U"))
                vals = tg
            elif isinstance(a, ast.AugAssign) and isinstance(a.target, ast.Name):
                vals = [(a.target.id, "U")]
            if vals:
                lst = list(st)
                ch = False
                for nm, v in vals:
                    if nm in self.names:
                        lst[self.names.index(nm)] = v
                        ch = True
                if ch:
                    st = tuple(lst)
            return st
        if n.kind == "iter" and label == "iter":
            t = n.ast.target
            names = [t] if isinstance(t, ast.Name) else list(getattr(t, "elts", []))
            lst = list(st)
            for e in names:
                if isinstance(e, ast.Name) and e.id in self.names:
                    lst[self.names.index(e.id)] = "U"
            return tuple(lst)
        if n.kind == "test" and label in ("T", "F"):
            if n.id not in self._atom_cache:
                self._atom_cache[n.id] = self.at.node_atom(n)
            a = self._atom_cache[n.id]
            if a is None or a.subject not in self.names:
                return st
            i = self.names.index(a.subject)
            v = st[i]
            atom_truth = (label == "T") ^ a.flip
            possible = self._possible(a, v)
            if atom_truth not in possible:
                return None
            # refine unknown
            if v == "U":
                lst = list(st)
                if a.op == "is" and a.value is None:
                    lst[i] = "N" if atom_truth else "U"
                elif a.op == "truthy" and atom_truth:
                    lst[i] = "S"
                return tuple(lst)
            return st
        return st

    @staticmethod
    def _possible(a: Atom, v: str) -> set:
        both = {True, False}
        if v == "U":
            return both
        if a.op == "truthy":
            return {v in ("T", "S")}
        if a.op == "is":
            if a.value is None:
                return {v == "N"}
            if a.value is False:
                return {v == "F"}
            if a.value is True:
                return {v == "T"}
            return both
        if a.op == "==":
            if a.value is False or a.value is True:
                if v in ("T", "F"):
                    return {(v == "T") == a.value}
                if v == "N":
                    return {False}
                return both
            if a.value is None:
                return {v == "N"}
            return both
        return both


def must_facts(cfg: CFG, at: Atomizer, node: Node, tracker=None,
               start: Node | None = None) -> set[tuple]:
    """Facts (subject, op, value, truth) such that every path from the entry to
    *node* takes an edge on which the atom has that truth value."""
    by_atom: dict[tuple, list[tuple[Node, str]]] = {}
    for n in cfg.nodes:
        if n.kind != "test":
            continue
        a = at.node_atom(n)
        if a is None:
            continue
        for lab in ("T", "F"):
            truth = (lab == "T") ^ a.flip
            by_atom.setdefault((a.subject, a.op, a.value, truth), []).append((n, lab))
    out = set()
    src = [start or cfg.entry]
    base = cfg.reach(src, tracker=tracker)
    if node not in base:
        return out
    for key, edges in by_atom.items():
        r = cfg.reach(src, blocked_edges=edges, tracker=tracker)
        if node not in r:
            out.add(key)
    return out


def has_fact(facts: set[tuple], subject: str, op: str, value, truth: bool) -> bool:
    return (subject, op, value, truth) in facts


def guarded_any(cfg: CFG, at: Atomizer, node: Node, alternatives, tracker=None) -> bool:
    """Every path to *node* takes an edge on which at least one of the
    alternative facts holds.  alternatives: iterable of predicates
    pred(atom) -> truth value (True/False) under which the fact holds, or None."""
    edges = []
    for pred in alternatives:
        edges += cfg.guard_edges(lambda n, p=pred: at.label_when(n, p))
    if not edges:
        return False
    return node not in cfg.reach([cfg.entry], blocked_edges=edges, tracker=tracker)


class AtomTracker:
    """Keeps the truth value of selected atoms consistent along a path (the same
    expression tested twice - e.g. by consecutive match cases - gets the same
    answer unless its subject is stored in between)."""

    def __init__(self, atomizer: Atomizer, subjects):
        self.at = atomizer
        self.subjects = set(subjects)
        self._cache: dict[int, Atom | None] = {}

    def initial(self):
        return frozenset()

    def step(self, n: Node, label: str, st):
        if n.kind == "stmt" and label not in ("exc", "raise") and st:
            killed = set()
            for t in n.stores():
                d = ast.unparse(t)
                for (s, o, v, tr) in st:
                    if s == d or s.startswith(d + "."):
                        killed.add((s, o, v, tr))
            if killed:
                st = frozenset(x for x in st if x not in killed)
            return self._learn(n, st)
        if n.kind == "stmt" and label not in ("exc", "raise"):
            return self._learn(n, st)
        if n.kind == "test" and label in ("T", "F"):
            if n.id not in self._cache:
                self._cache[n.id] = self.at.node_atom(n)
            a = self._cache[n.id]
            if a is None or a.subject not in self.subjects:
                return st
            try:
                hash(a.value)
            except TypeError:
                return st
            truth = (label == "T") ^ a.flip
            if (a.subject, a.op, a.value, not truth) in st:
                return None
            # x == A true excludes x == B true
            if a.op == "==" and truth:
                for (s, o, v, tr) in st:
                    if s == a.subject and o == "==" and tr and v != a.value:
                        return None
            for (s_, o_, v_, tr_) in st:
                if s_ == a.subject and o_ == "==" and tr_:
                    if a.op == "in" and (v_ in a.value) != truth:
                        return None
                    if a.op == "==" and (v_ == a.value) != truth:
                        return None
            if (a.subject, a.op, a.value, truth) in st:
                return st
            return st | {(a.subject, a.op, a.value, truth)}
        return st


def _learn(self, n: Node, st):
    """A store of a foldable constant into a tracked subject establishes  subject == value."""
    a = n.ast
    if isinstance(a, ast.Assign) and len(a.targets) == 1:
        d = ast.unparse(a.targets[0])
        if d in self.subjects:
            ok, v = self.at.const(a.value)
            if ok:
                try:
                    hash(v)
                except TypeError:
                    return st
                st = frozenset(x for x in st if x[0] != d) | {(d, "==", v, True)}
    return st


AtomTracker._learn = _learn


class ComboTracker:
    """Product of several trackers."""

    def __init__(self, *trackers):
        self.trackers = trackers

    def initial(self):
        return tuple(t.initial() for t in self.trackers)

    def step(self, n, label, st):
        out = []
        for t, s in zip(self.trackers, st):
            s2 = t.step(n, label, s)
            if s2 is None:
                return None
            out.append(s2)
        return tuple(out)


class AssumeTracker:
    """Decides tests about given subjects from assumed concrete values
    ({'self.state': 0x11, 'self.is_receiver': True}); everything else is free."""

    def __init__(self, atomizer: Atomizer, values: dict):
        self.at = atomizer
        self.values = dict(values)
        self._cache: dict[int, Atom | None] = {}

    def initial(self):
        return ()

    def step(self, n: Node, label: str, st):
        if n.kind != "test" or label not in ("T", "F"):
            return st
        if n.id not in self._cache:
            self._cache[n.id] = self.at.node_atom(n)
        a = self._cache[n.id]
        if a is None or a.subject not in self.values:
            return st
        v = self.values[a.subject]
        if a.op == "==":
            truth = (v == a.value)
        elif a.op == "in":
            truth = v in a.value
        elif a.op == "truthy":
            truth = bool(v)
        elif a.op == "is":
            truth = v is a.value
        else:
            return st
        taken = (label == "T") ^ a.flip
        return st if taken == truth else None
