"""Thorough tier: mutation-sensitivity and invariance sweep of a property's rules.

Every breaking variant of the property's corpus (selftest/variants/<id>.py and the
confirmed seeded defects under seeded/<ID>-*/patch.diff) is applied to a scratch copy
of the *current* source tree and the rules are re-run on it: the finding set must
change (and name the expected rule where the corpus says so).  Neutral variants must
leave the verdict unchanged.  The sweep analyses the checker against today's source; a
variant whose anchor text no longer exists in the tree is skipped.  Scratch copies live
under $TMPDIR and are removed immediately."""
from __future__ import annotations

import concurrent.futures as cf
import glob
import importlib
import importlib.util
import os
import shutil
import subprocess
import tempfile

from .report import Ctx, VERIF
from .srcmodel import SourceModel, AnalysisError


def _variants(prop: str):
    out = []
    own = os.path.join(VERIF, "selftest", "variants", f"{prop.lower()}.py")
    # files named after a property hold that property's variants; any other file holds
    # variants that name their property themselves ("prop")
    for path in [own] + sorted(p for p in glob.glob(os.path.join(VERIF, "selftest", "variants", "*.py"))
                               if not os.path.basename(p)[1:3].isdigit()):
        if not os.path.exists(path):
            continue
        spec = importlib.util.spec_from_file_location("v", path)
        mod = importlib.util.module_from_spec(spec)
        spec.loader.exec_module(mod)
        for v in mod.VARIANTS:
            if path != own and v.get("prop") != prop:
                continue
            out.append({"id": v["id"], "edits": v["edits"], "expect": v.get("expect", "fire"),
                        "rule": v.get("rule"), "source": "selftest"})
    # every repair of /repo recorded for this property: the repaired tree with the repair taken out
    # again must bring the recorded finding back (skipped when later changes touch the same lines)
    try:
        import json as _json
        kf = _json.load(open(os.path.join(VERIF, "known_findings.json")))["findings"]
    except Exception:
        kf = []
    by_commit: dict[str, list[str]] = {}
    # (prop, commit) pairs whose recorded key does not belong to that commit's own change
    _lost = ("the order of wake-up and task_done() is not decisive any more: since 4473cc8 every round "
             "of the I/O loop closes drained CLOSING connections itself")
    REVERT_SKIP = {("C11", "176c149"): "the key was recorded while the follow-up 9e07c6f was missing; "
                                       "176c149 does not touch the timer pass",
                   ("C15", "a79d0a4"): _lost, ("C18", "a79d0a4"): _lost, ("C19", "a79d0a4"): _lost}
    for f_ in kf:
        if f_.get("status") == "fixed" and f_.get("property") == prop and f_.get("commit") \
                and not f_["key"].startswith("review:") and (prop, f_["commit"]) not in REVERT_SKIP:
            by_commit.setdefault(f_["commit"], []).append(f_["key"])
    for c_, keys_ in sorted(by_commit.items()):
        rp = os.path.join(VERIF, "selftest", "reverts", f"{c_}.diff")
        if os.path.exists(rp):
            out.append({"id": f"revert-{c_}", "rpatch": rp, "expect": "fire", "rule": None,
                        "keys": keys_, "source": "revert"})
    for sd in sorted(glob.glob(os.path.join(VERIF, "seeded", f"{prop}-*"))):
        p = os.path.join(sd, "patch.diff")
        try:
            import json as _json
            if _json.load(open(os.path.join(sd, "meta.json"))).get("obsolete"):
                continue
        except Exception:
            pass
        if os.path.exists(p):
            out.append({"id": os.path.basename(sd), "patch": p, "expect": "fire", "rule": None,
                        "source": "seeded"})
    return out


def _run_rules(prop: str, src_root: str):
    mod = importlib.import_module(f"dv.rules.{prop.lower()}")
    try:
        model = SourceModel(src_root)
        ctx = Ctx(prop, model, "quick")
        mod.run(ctx)
    except AnalysisError as e:
        return {"error": str(e), "keys": [], "rules": []}
    except Exception as e:
        return {"error": f"{type(e).__name__}: {e}", "keys": [], "rules": []}
    return {"error": "; ".join(ctx.errors)[:300] if ctx.errors else None,
            "keys": sorted(f.key for f in ctx.findings),
            "rules": sorted({f.rule for f in ctx.findings})}


def _one(args):
    prop, src_root, v, base_keys = args
    tmp = tempfile.mkdtemp(prefix="dvsweep.")
    try:
        dst = os.path.join(tmp, "src")
        shutil.copytree(src_root, dst, ignore=shutil.ignore_patterns("__pycache__", "*.egg-info"))
        if "rpatch" in v:
            r = subprocess.run(["patch", "-R", "-p1", "-s", "-f", "-d", tmp, "-i", v["rpatch"]],
                               capture_output=True, text=True)
            if r.returncode != 0:
                return v["id"], "skipped", "the repair can no longer be taken out (later changes on the same lines)"
        elif "patch" in v:
            r = subprocess.run(["patch", "-p1", "-s", "-d", tmp, "-i", v["patch"]],
                               capture_output=True, text=True)
            if r.returncode != 0:
                return v["id"], "skipped", "patch does not apply to the current tree"
        else:
            for rel, old, new, *rest in v["edits"]:
                p = os.path.join(dst, rel)
                s = open(p).read()
                if s.count(old) != (rest[0] if rest else 1):
                    return v["id"], "skipped", "anchor text not present in the current tree"
                open(p, "w").write(s.replace(old, new))
        res = _run_rules(prop, dst)
        new = [k for k in res["keys"] if k not in base_keys]
        if v["expect"] == "fire" and v.get("keys"):
            back = [k for k in v["keys"] if k.split(":", 1)[-1] in
                    {x.split(":", 1)[-1] for x in res["keys"]} or k in res["keys"]]
            # (the recorded key, or - when later changes gave the reverted shape another name -
            # any finding the unchanged tree does not have)
            return v["id"], "detected" if (back or new) else "MISSED", \
                (back[0] if back else new[0] if new else (res["error"] or f"none of {v['keys'][:2]} reported"))
        if v["expect"] == "fire":
            ok = bool(new) and (not v["rule"] or v["rule"] in res["rules"])
            return v["id"], "detected" if ok else "MISSED", \
                (new[0] if new else (res["error"] or "no new finding"))
        if v["expect"] == "silent":
            ok = not new and not res["error"]
            return v["id"], "silent" if ok else "FALSE-ALARM", (new[0] if new else res["error"] or "")
        if v["expect"] == "error":
            return v["id"], "refused" if res["error"] else "MISSED", res["error"] or ""
        return v["id"], "skipped", "unknown expectation"
    finally:
        shutil.rmtree(tmp, ignore_errors=True)


def _neutral(args):
    prop, src_root, kind, base_keys = args
    from .neutral import transform
    tmp = tempfile.mkdtemp(prefix="dvsweep.")
    try:
        dst = os.path.join(tmp, "src")
        shutil.copytree(src_root, dst, ignore=shutil.ignore_patterns("__pycache__", "*.egg-info"))
        try:
            transform(os.path.join(dst, "diameter"), kind)
        except Exception as e:
            return f"neutral:{kind}", "skipped", f"rewrite failed: {type(e).__name__}"
        res = _run_rules(prop, dst)
        new = [k for k in res["keys"] if k not in base_keys]
        ok = not new and not res["error"]
        return f"neutral:{kind}", "silent" if ok else "FALSE-ALARM", (new[0] if new else res["error"] or "")
    finally:
        shutil.rmtree(tmp, ignore_errors=True)


def sweep(prop: str, src_root: str, base_keys: list[str], jobs: int = 8):
    from .neutral import KINDS
    vs = _variants(prop)
    results = []
    with cf.ProcessPoolExecutor(max_workers=jobs) as ex:
        futs = [ex.submit(_one, (prop, src_root, v, base_keys)) for v in vs]
        futs += [ex.submit(_neutral, (prop, src_root, k, base_keys)) for k in KINDS]
        for f in futs:
            results.append(f.result())
    return results


def _sweep_old(prop: str, src_root: str, base_keys: list[str], jobs: int = 8):
    vs = _variants(prop)
    results = []
    if not vs:
        return results
    with cf.ProcessPoolExecutor(max_workers=min(jobs, len(vs))) as ex:
        for r in ex.map(_one, [(prop, src_root, v, base_keys) for v in vs]):
            results.append(r)
    return results
