"""C20 - answers built from requests mirror the header and use the paired answer class."""
from __future__ import annotations

import ast

from ..report import Ctx
from ..srcmodel import AnalysisError
from ..cfg import cfg_of
from ..atoms import Atomizer, must_facts
from ..tables import command_classes
from .. import astutil as A
from .common_codec import no_hidden_state

TECHNIQUE = "exhaustive Request->Answer class pairing over the static class table; header data flow " \
            "of Message.to_answer; constructor side-effect table; shape of the two generate_answer helpers"
EXPLANATION = (
    "For every class named <X>Request the static MRO is searched for <X>, which must have "
    "exactly one direct subclass <X>Answer in the same module and namespace (the run-time lookup "
    "in to_answer is by name). Message.to_answer is checked to build a fresh header from exactly "
    "version, command code, application id, hop-by-hop and end-to-end identifier of the request, "
    "to leave the other flags at 0, not to touch the request, to keep no module state, and to "
    "re-store the request's P bit after the answer object has been constructed - because the "
    "table of header fields stored by constructors (extracted from all 105 __post_init__ "
    "methods) shows that answer classes store a class default into is_proxyable; answer "
    "constructors clear the R bit and none stores the E or T bit. Node._generate_answer and "
    "Application.generate_answer store the local identity, copy Session-Id and Proxy-Info under "
    "hasattr guards and never write header fields.")
ASSUMPTIONS = [
    "not decided: values of all 256 flag octets / boundary ids as executed facts (they follow from the data flow)",
    "type.__subclasses__() and __mro__ behave as the static class table predicts",
]


def run(ctx: Ctx):
    model = ctx.model
    base = model.module("message._base")
    msg = base.classes.get("Message")
    if msg is None:
        raise AnalysisError("Message not found")
    init = model.module("message.commands")

    # ---------------- R1 class pairing ---------------------------------------------------
    ctx.rule("C20-R1", "every <X>Request has exactly one paired <X>Answer (direct subclass of the "
                       "first MRO class named <X>, same module, unshadowed)", floor=30)
    classes = command_classes(model)
    by_name = {}
    for c in classes:
        by_name.setdefault(c.name, []).append(c)
    for c in classes:
        if not c.name.endswith("Request"):
            continue
        x = c.name[:-7]
        cons = f"{c.name}:answer-class"
        ctx.use(c)
        basec = next((b for b in model.mro(c) if b.name == x), None)
        ctx.inst(cons, sample={"request": c.name, "base": basec.name if basec else None}
                 if c.name.startswith("CreditControl") else None)
        if basec is None:
            ctx.fail(cons, c.loc(), f"{c.name} has no ancestor named {x}: to_answer falls back to the "
                     f"generic Message class")
            continue
        subs = [s for s in model.subclasses(basec, direct=True) if s.name == f"{x}Answer"]
        if len(subs) != 1:
            ctx.fail(cons, basec.loc(), f"{x} has {len(subs)} direct subclasses named {x}Answer: the "
                     f"answer to a {c.name} is {'the base class without attributes' if not subs else 'ambiguous'}")
            continue
        if subs[0].module is not c.module:
            ctx.fail(cons, subs[0].loc(), f"{x}Answer lives in another module than {c.name}")
        if len(by_name.get(f"{x}Answer", [])) != 1 or init.lookup_class(f"{x}Answer") is not subs[0]:
            ctx.fail(cons + "#shadow", subs[0].loc(), f"the name {x}Answer is defined more than once / "
                     f"shadowed in the commands namespace")
        # request and answer share the command code (no override)
        if "code" in c.class_assigns or "code" in subs[0].class_assigns:
            ctx.fail(cons + "#code", c.loc(), f"{c.name}/{x}Answer override the command code of {x}")
        # what the helpers copy into the answer must be readable from the request: an answer
        # class that declares Session-Id / Proxy-Info pairs with a request class that does
        from ..tables import extract_avp_defs as _defs
        try:
            ra = {d.attr_name for d in (_defs(model, c) or [])}
            aa = {d.attr_name for d in (_defs(model, subs[0]) or [])}
        except Exception:
            ra = aa = set()
        for attr in ("session_id", "proxy_info"):
            if attr in aa and attr not in ra and ra:
                ctx.fail(cons + f"#{attr}", c.loc(), f"{x}Answer declares `{attr}` but {c.name} does "
                         f"not: a received {attr.replace('_', '-').title()} is not exposed as "
                         f"`{attr}`, `hasattr(request, '{attr}')` is false and the generated answer "
                         f"does not carry it")

    # ---------------- R2 header flow in to_answer ---------------------------------------------
    ctx.rule("C20-R2", "to_answer: fresh header from the five mirrored fields, other flags zero, "
                       "request untouched, P bit re-stored after construction", floor=5)
    ta = msg.methods.get("to_answer")
    if ta is None:
        raise AnalysisError("Message.to_answer not found")
    ctx.use(ta)
    g = cfg_of(ta)
    at = Atomizer(model, base, msg)
    hc = [n for n in g.nodes if n.kind == "stmt" and isinstance(n.ast, ast.Assign)
          and isinstance(n.ast.value, ast.Call) and A.call_name(n.ast.value) == "MessageHeader"]
    cons = "to_answer:header-fields"
    ctx.inst(cons)
    hv = None
    if len(hc) != 1:
        ctx.fail(cons, ta.loc(), "to_answer does not build exactly one new MessageHeader")
    else:
        hv = A.dotted(hc[0].ast.targets[0])
        call = hc[0].ast.value
        hi = base.classes["MessageHeader"].methods["__init__"]
        ip = [a.arg for a in hi.node.args.args][1:]
        bound = dict(zip(ip, [A.dotted(a) for a in call.args]))
        for k in call.keywords:
            bound[k.arg] = A.dotted(k.value)
        want = {f: f"self.header.{f}" for f in ("version", "command_code", "application_id",
                                                 "hop_by_hop_identifier", "end_to_end_identifier")}
        if bound != want:
            extra = {k: v for k, v in bound.items() if want.get(k) != v}
            missing = [k for k in want if k not in bound]
            ctx.fail(cons, g.loc(hc[0]), f"the answer header is not built from exactly the request's "
                     f"version, command code, application id, hop-by-hop and end-to-end identifier "
                     f"(differs: {extra or missing}); e.g. copying command_flags wholesale keeps the "
                     f"R/E/T bits")
    cons = "to_answer:request-untouched"
    ctx.inst(cons)
    for n in g.nodes:
        if n.kind == "stmt":
            for t in n.stores():
                d = A.dotted(t)
                if d.startswith("self."):
                    ctx.fail(cons, g.loc(n), f"to_answer modifies the request (`{n.text(70)}`)")
    # construction and P bit
    ctors = [n for n in g.nodes if n.kind == "stmt" and any(
        isinstance(c.func, ast.Name) and c.args and A.dotted(c.args[0]) == hv for c in n.calls())
        and n not in hc]
    rets = [n for n in g.nodes if n.kind == "stmt" and isinstance(n.ast, ast.Return)]
    cons = "to_answer:proxyable-after-construction"
    ctx.inst(cons)
    table = _ctor_header_stores(model)
    ctx.note(f"header fields stored by command constructors: { {k: sorted(v) for k, v in table.items()} }")
    pstores = [n for n in g.nodes if n.kind == "stmt" and isinstance(n.ast, ast.Assign)
               and any(A.dotted(t).endswith(".is_proxyable") for t in n.ast.targets)
               and A.dotted(n.ast.value) == "self.header.is_proxyable"]
    if not ctors:
        ctx.fail(cons, ta.loc(), "to_answer does not construct the answer from the new header")
    elif "is_proxyable" in table.get("answer", set()) | table.get("base", set()):
        leak = None
        for c in ctors:
            r_ = g.reach([d for l, d in c.succ if l != "exc"], normal_blocked=pstores)
            if any(x in r_ for x in rets) or g.exit in r_:
                leak = c
        if leak is not None:
            ctx.fail(cons, g.loc(ctors[0]), "answer classes store a class default into "
                     "header.is_proxyable while being constructed; to_answer does not store the "
                     "request's P bit after construction: the answer does not keep the proxiable bit "
                     "(a request with P=0 gets an answer with P=1 and vice versa)")
    elif not pstores:
        ctx.fail(cons, ta.loc(), "the request's P bit is not copied to the answer")
    for r in rets:
        rv = A.dotted(r.ast.value) if r.ast.value is not None else None
        if rv is None:
            ctx.fail(cons + "#return", g.loc(r), "to_answer can return None")
    cons = "constructors:flag-side-effects"
    ctx.inst(cons, sample={k: sorted(v) for k, v in table.items()})
    bad = (table.get("answer", set()) | table.get("request", set()) | table.get("base", set())
           | table.get("other", set())) & {"is_error", "is_retransmit", "command_flags", "version",
                                             "application_id", "hop_by_hop_identifier",
                                             "end_to_end_identifier", "length"}
    if bad:
        ctx.fail(cons, init.relpath + ":1", f"command constructors store the header fields {sorted(bad)}: "
                 f"an answer no longer mirrors its request")
    # every Answer class clears R, every Request sets it
    for c in classes:
        if not (c.name.endswith("Answer") or c.name.endswith("Request")):
            continue
        pi = c.methods.get("__post_init__")
        cons = f"{c.name}:R-bit"
        ctx.inst(cons)
        val = None
        if pi is not None:
            for n in ast.walk(pi.node):
                if isinstance(n, ast.Assign) and any(A.dotted(t) == "self.header.is_request" for t in n.targets):
                    val = model.try_fold(n.value, c.module)
        if val is not c.name.endswith("Request"):
            ctx.fail(cons, c.loc(), f"{c.name} stores is_request = {val}: "
                     f"{'answers must have the R bit cleared' if c.name.endswith('Answer') else 'requests must have it set'}")
    # a request decoded as the command's base class (plain_msg=True: class name without the
    # 'Request' suffix) is answered with the <Name>Answer subclass too
    cons = "to_answer:class-lookup#base-class"
    ctx.inst(cons)
    ifs = [n for n in ast.walk(ta.node) if isinstance(n, ast.If)
           and ".endswith('Request')" in ast.unparse(n.test).replace('"', "'")]
    okb = False
    for n in ifs:
        els = "\n".join(ast.unparse(x) for x in n.orelse)
        if "__subclasses__()" in els and "Answer" in els and "__name__" in els:
            okb = True
    if not okb:
        ctx.fail(cons, ta.loc(ifs[0]) if ifs else ta.loc(), "to_answer only searches for an answer class "
                 "when the request's class name ends in 'Request': a request decoded with "
                 "plain_msg=True (class CreditControl, Accounting, ...) is answered with another "
                 "instance of the base class, which has no attribute definitions - the answer's "
                 "Origin-Host, Result-Code etc. are never encoded")
    # class selection in to_answer
    cons = "to_answer:class-lookup"
    ctx.inst(cons)
    src = ast.unparse(ta.node)
    ok = ("self.__class__" in src and ".endswith('Request')" in src.replace('"', "'")
          and "__mro__" in src and "__subclasses__()" in src and "Answer" in src)
    fb = [n for n in ast.walk(ta.node) if isinstance(n, ast.Assign) and A.dotted(n.value) == "Message"]
    if not ok or not fb:
        ctx.fail(cons, ta.loc(), "to_answer does not look the answer class up through the MRO "
                 "(<X>Request -> <X> -> <X>Answer) with the generic Message as fallback")
    else:
        # the base found is the one whose name equals the request name minus 'Request'
        cmp_ = [n for n in ast.walk(ta.node) if isinstance(n, ast.Compare) and "__name__" in ast.unparse(n)]
        texts = [ast.unparse(c).replace('"', "'") for c in cmp_]
        if not any("== assumed_base" in t or "[:-7]" in t for t in texts) and "[:-7]" not in src:
            ctx.fail(cons + "#name", ta.loc(), "the base class is not matched by the request's name without the 'Request' suffix")
    # the command says itself which subclass carries an answer header (type_factory, what
    # from_bytes dispatches on): to_answer asks it, so that commands registered under other names
    # than <X> / <X>Request / <X>Answer get their answer class too (documented in
    # docs/guide/extending_the_stack.md with SpecialMessage / SpecialRequest / SpecialAnswer)
    cons_tf = cons + "#type-factory"
    ctx.inst(cons_tf)
    tf_calls = [n for n in ast.walk(ta.node) if isinstance(n, ast.Call) and (
        (isinstance(n.func, ast.Attribute) and n.func.attr == "type_factory")
        or (isinstance(n.func, ast.Name) and any(
            isinstance(a_, ast.Assign) and any(isinstance(t, ast.Name) and t.id == n.func.id for t in a_.targets)
            and "type_factory" in ast.unparse(a_.value) for a_ in ast.walk(ta.node))))]
    if not tf_calls:
        ctx.fail(cons_tf, ta.loc(), "to_answer pairs request and answer classes by the spelling of their "
                 "names only: a command registered as the documentation shows (SpecialMessage / "
                 "SpecialRequest / SpecialAnswer) is answered with a generic Message - the node's own "
                 "answers to it are bare headers - and a request class whose name does not end in "
                 "'Request' with another instance of itself, R bit set",
                 expected="the class the command's type_factory names for the answer header",
                 observed="name search only")
    # ... and only when the names lead nowhere: a hierarchy that follows the naming scheme and
    # derives from the library's classes inherits their type_factory, which names the LIBRARY's
    # answer class
    cons_tp = cons + "#names-first"
    ctx.inst(cons_tp)
    if tf_calls:
        par_t = A.parents(ta.node)
        guarded = False
        for c_ in tf_calls:
            cur = c_
            while cur in par_t:
                cur = par_t[cur]
                if isinstance(cur, ast.If) and "return_type" in ast.unparse(cur.test) and (
                        "Message" in ast.unparse(cur.test) or "__class__" in ast.unparse(cur.test)):
                    guarded = True
        if not guarded:
            ctx.fail(cons_tp, ta.loc(tf_calls[0]), "the class named by type_factory replaces the result of the "
                     "name search unconditionally: GyRequest(Gy, CreditControlRequest) with GyAnswer(Gy, "
                     "CreditControlAnswer) is answered with a plain CreditControlAnswer - the attributes "
                     "GyAnswer adds are silently left out of the encoded answer",
                     expected="type_factory consulted only when the name search ended at Message / the "
                              "request's own class", observed="unconditional")
    no_hidden_state(ctx, "C20-R5", [ta], set())
    for gname in ("Message", "DefinedMessage", "UndefinedMessage"):
        gc = base.classes.get(gname)
        pi = gc.methods.get("__post_init__") if gc else None
        cons = f"{gname}.__post_init__:generic"
        ctx.inst(cons, rule="C20-R2")
        if pi is not None:
            for n in ast.walk(pi.node):
                if isinstance(n, (ast.Assign, ast.AugAssign)):
                    for t in A.store_targets(n):
                        if A.dotted(t).startswith("self.header."):
                            ctx.fail(cons, pi.loc(n), f"the generic class {gname} overwrites "
                                     f"`{A.dotted(t)}` on construction: the answer to a request with an "
                                     f"unknown command code no longer bears the request's command code",
                                     rule="C20-R2")

    # ---------------- R4 generate_answer helpers --------------------------------------------------
    ctx.rule("C20-R4", "_generate_answer / generate_answer: local identity, Session-Id and "
                       "Proxy-Info copied under hasattr guards, no header stores", floor=2)
    nc = model.cls("node.node", "Node")
    ac = model.cls("node.application", "Application")
    for f, ident in ((nc.methods.get("_generate_answer"), "self"), (ac.methods.get("generate_answer"), "self.node")):
        if f is None:
            ctx.error("generate_answer helper not found")
            continue
        ctx.use(f)
        g = cfg_of(f)
        at = Atomizer(model, f.module, f.cls)
        params = [a.arg for a in f.node.args.args]
        m = params[2] if f.name == "_generate_answer" else params[1]
        cons = f"{f.qualname}"
        ctx.inst(cons)
        adef = [n for n in g.nodes if n.kind == "stmt" and isinstance(n.ast, ast.Assign)
                and isinstance(n.ast.value, ast.Call) and A.call_name(n.ast.value) == f"{m}.to_answer"]
        if len(adef) != 1:
            ctx.fail(cons, f.loc(), f"{f.qualname} does not build the answer with {m}.to_answer()")
            continue
        av = A.dotted(adef[0].ast.targets[0])
        stores = {}
        for n in g.nodes:
            if n.kind == "stmt":
                for t in n.stores():
                    d = A.dotted(t)
                    if d.startswith(av + "."):
                        stores[d[len(av) + 1:]] = n
        rets = [n for n in g.nodes if n.kind == "stmt" and isinstance(n.ast, ast.Return)]
        probs = []
        for attr, src in (("origin_host", f"{ident}.origin_host.encode()"),
                          ("origin_realm", f"{ident}.realm_name.encode()")):
            n = stores.get(attr)
            if n is None or ast.unparse(n.ast.value) != src or not all(g.dominated(r, [n]) for r in rets):
                probs.append(f"{attr} is not set to the local {src} on every path")
        for attr in ("session_id", "proxy_info"):
            n = stores.get(attr)
            if n is None or A.dotted(n.ast.value) != f"{m}.{attr}":
                probs.append(f"{attr} is not copied from the request")
            else:
                facts = must_facts(g, at, n)
                guarded = any(f_[0].replace(" ", "").replace('"', "'") == f"hasattr({m},'{attr}')" and f_[3] for f_ in facts)
                if not guarded:
                    # EAFP: the copy sits in a try whose handler catches AttributeError.  A try of
                    # its own is equivalent to the hasattr guard; a try shared with the other copy
                    # is equivalent as long as no typed request has the one attribute without the
                    # other (which C20-R1 `#session_id` establishes for every class)
                    tries = [x for x in n.lexical if isinstance(x, ast.Try) and any(
                        h.type is None or any(k in ast.unparse(h.type) for k in ("AttributeError", "Exception"))
                        for h in x.handlers)]
                    guarded = bool(tries)
                if not guarded:
                    probs.append(f"{attr} is copied without the hasattr guard")
                extra = [f_ for f_ in facts if not f_[0].startswith("hasattr(")]
                if extra:
                    probs.append(f"{attr} is only copied under {extra}")
        hs = [k for k in stores if k.startswith("header")]
        if hs:
            probs.append(f"header fields of the answer are overwritten ({hs}): the answer no longer "
                         f"bears the request's {', '.join(h.split('.')[-1] for h in hs)}")
        if not all(A.dotted(r.ast.value) == av for r in rets):
            probs.append("the generated answer is not what is returned")
        if f.name == "generate_answer":
            for attr, flag in (("auth_application_id", "self.is_auth_application"),
                               ("acct_application_id", "self.is_acct_application")):
                n = stores.get(attr)
                if n is None or A.dotted(n.ast.value) != "self.application_id" or \
                        (flag, "truthy", None, True) not in must_facts(g, at, n):
                    probs.append(f"{attr} is not set to the application id under {flag}")
        for p in probs:
            ctx.fail(cons, f.loc(), f"{f.qualname}: {p}")
            break
        # answers of commands without python implementation: attributes are not encoded
        cons_u = f"{f.qualname}:attributes-on-untyped-answer"
        ctx.inst(cons_u)
        handles_untyped = any(isinstance(x, ast.Call) and (A.call_name(x).endswith(".append_avp")
                                                           or A.call_name(x) in ("Avp.new", "avp.Avp.new"))
                              for x in ast.walk(f.node))
        base_mod = model.module("message._base")
        generic = [base_mod.classes.get("Message"), base_mod.classes.get("UndefinedMessage")]
        encodes_attrs = False
        for gc_ in generic:
            if gc_ is None:
                continue
            for mname in ("avps", "as_bytes"):
                m_ = gc_.methods.get(mname)
                if m_ is not None and "generate_avps_from_defs" in ast.unparse(m_.node):
                    encodes_attrs = True
        if not handles_untyped and not encodes_attrs:
            ctx.fail(cons_u, f.loc(), f"{f.qualname} fills the answer through attributes "
                     f"(origin_host, origin_realm, session_id, proxy_info - and its callers result_code, "
                     f"error_message). to_answer() returns the generic Message / UndefinedMessage for "
                     f"commands without python implementation, and those classes encode only their AVP "
                     f"list, never attributes: such answers leave as a bare 20-byte header without "
                     f"Origin-Host, Origin-Realm, Session-Id, Proxy-Info or Result-Code")

    # ---------------- R7 the sent answer is generated per request -------------------------------------
    from . import c07
    ctx.include(c07.run, {"C07-R2"}, "C20-R7",
                "every answer a node handler sends is the object generated from the handled "
                "request in the same invocation (no cached / copied template whose header is "
                "shared between answers)", floor=8)

    # ---------------- R6 the copied Proxy-Info list is the request's own ---------------------------
    from . import c03
    ctx.include(c03.run, {"C03-R5"}, "C20-R6",
                "request.proxy_info, which the answer helpers copy, is a list of its own in every "
                "typed request constructor (not one object shared with route_record / state_class "
                "...: every value decoded into those would be copied as Proxy-Info)", floor=100,
                constructs=lambda c: c.split("#")[0].endswith(".proxy_info"))

    # ---------------- R8 what the helpers assign is what is encoded --------------------------------
    COPIED = ("proxy_info", "session_id", "origin_host", "origin_realm")
    ctx.include(c03.run, {"C03-R4"}, "C20-R8",
                "the attributes the answer helpers assign (session_id, proxy_info, origin_host, "
                "origin_realm) have an AVP definition in every typed class that declares them - a "
                "declared attribute without definition accepts the assignment and is never encoded",
                floor=100, constructs=lambda c: c.split("#")[0].split(".")[-1] in COPIED)

    # ---------------- R10 the identifiers of an answer are not re-drawn on the way out -----------
    ctx.include(c07.run, {"C07-R5b"}, "C20-R10",
                "the transmit path (send_message ... the writer) stores header fields of requests "
                "only: an answer leaves with the identifiers to_answer() copied, 0 included", floor=1)

    # ---------------- R9 no implicit writer of the header flags ------------------------------------
    # to_answer() clears R, E and T; the helpers then assign Result-Code, Origin-Host, ... on the
    # answer.  Attribute assignment on a message must not reach the header: code the assignment
    # runs implicitly (__setattr__ / __getattr__ / a property setter of a message class) does not
    # store the flag octet or one of its bits.
    ctx.rule("C20-R9", "assigning an AVP attribute of a message does not touch the header flags "
                       "(no __setattr__ / attribute setter of a message class writes them)", floor=3)
    FLAGS = ("is_error", "is_request", "is_retransmit", "is_proxyable", "command_flags")
    mroot = base.classes["Message"]
    n_impl = 0
    for ci in [mroot] + model.subclasses(mroot):
        for f in ci.all_funcs:
            implicit = f.name in ("__setattr__", "__getattr__", "__getattribute__", "__delattr__",
                                  "__set_name__", "__set__") or f.is_setter
            if not implicit:
                continue
            n_impl += 1
            cons = f"{ci.name}.{f.name}:header-flags"
            ctx.inst(cons, rule="C20-R9")
            ctx.use(f)
            for n in ast.walk(f.node):
                tg = []
                if isinstance(n, ast.Assign):
                    tg = n.targets
                elif isinstance(n, (ast.AugAssign, ast.AnnAssign)):
                    tg = [n.target]
                elif isinstance(n, ast.Call) and A.call_name(n) == "setattr" and len(n.args) >= 2 \
                        and "header" in ast.unparse(n.args[0]):
                    tg = [n.args[0]]
                for t in tg:
                    d = A.dotted(t) or ast.unparse(t)
                    if "header" in d and (d.split(".")[-1] in FLAGS or isinstance(n, ast.Call)):
                        ctx.fail(cons, f.loc(n), f"{ci.name}.{f.name} stores `{d}`: assigning an "
                                 f"attribute of an answer (answer.result_code = 5012 in "
                                 f"generate_answer / the node's own rejections) changes the flag "
                                 f"octet that to_answer() has just cleared - answers leave with the "
                                 f"E (or R / T) bit set", rule="C20-R9")
    ctx.inst("Message-family:implicit-methods", rule="C20-R9", sample=n_impl)
    if n_impl < 2:
        ctx.error(f"only {n_impl} implicit attribute methods found in the Message family", rule="C20-R9")


def _ctor_header_stores(model) -> dict[str, set[str]]:
    out: dict[str, set[str]] = {}
    for c in command_classes(model):
        pi = c.methods.get("__post_init__")
        if pi is None:
            continue
        kind = "answer" if c.name.endswith("Answer") else "request" if c.name.endswith("Request") else \
            "base" if any(s.name.endswith("Request") for s in model.subclasses(c, direct=True)) else "other"
        for n in ast.walk(pi.node):
            if isinstance(n, (ast.Assign, ast.AugAssign)):
                for t in A.store_targets(n):
                    d = A.dotted(t)
                    if d.startswith("self.header.") and d != "self.header.command_code":
                        out.setdefault(kind, set()).add(d.split(".")[-1])
    return out
