"""C16 - hop-by-hop / end-to-end / session identifiers are unique, never zero,
wrap to 1; initial values and session-id format."""
from __future__ import annotations

import ast

from ..report import Ctx
from ..srcmodel import AnalysisError, NotConst
from ..cfg import cfg_of
from ..atoms import Atomizer
from ..lockset import call_sites, held_locks, lock_fields, protected, store_sites, Site
from .. import astutil as A

TECHNIQUE = "lockset analysis + constant folding + CFG shape of the increment"
EXPLANATION = (
    "Lockset and constant analysis of the two generator classes: every store to the "
    "counter outside __init__ and the load that produces the returned value lie in one "
    "`with self.<lock>` block (critical-section argument => pairwise distinct values under "
    "every interleaving); the increment's CFG wraps MAX -> MIN with MIN folding to 1 and MAX "
    "to 2^32-1 / 2^64-1, no path stores 0; the initial-value expression has the start time "
    "shifted by 20 bits, masked, with a non-zero random low part; the session id is rendered "
    "identity;base;hi32;lo32[;optional]; every identifier stored into a header is drawn from "
    "the generator of the connection the message is sent on / from the node's end-to-end "
    "generator.")
ASSUMPTIONS = [
    "threading.Lock provides mutual exclusion; an attribute store is atomic in CPython",
    "random.randint(a, b) returns a value in [a, b]",
    "uniqueness as an executed fact is not observed; it follows from the critical-section obligations",
]

SEQ = "_sequence"
WIDTH = {"SequenceGenerator": 32, "SessionGenerator": 64}


def run(ctx: Ctx):
    model = ctx.model
    helpers = model.module("node._helpers")
    ctx.use(helpers)
    gens = [c for c in helpers.classes.values()
            if any(s.func.cls is c for s in store_sites(model, SEQ))]
    for need in WIDTH:
        if need not in [g.name for g in gens]:
            raise AnalysisError(f"generator class {need} with a {SEQ} counter not found")

    ctx.rule("C16-R1", "counter stores and the load of the returned value are inside one "
                       "`with self.<lock>` block", floor=2)
    ctx.rule("C16-R2", "increment wraps MAX -> MIN(=1), otherwise +1; constants fold to "
                       "1 and 2^width-1; nothing stores 0", floor=2)
    for g in gens:
        ctx.cur("C16-R1")
        locks = lock_fields(model, g)
        # everything the lock attribute can be bound to is a lock: the class-level default (what
        # an instance sees whose subclass does not run __init__) and every store in a method
        LOCK_CTORS = ("threading.Lock", "threading.RLock", "Lock", "RLock")
        for lk in locks:
            cons_l = f"{g.name}.{lk}:is-a-lock"
            ctx.inst(cons_l)
            binds = []
            for c in model.mro(g):
                if lk in c.class_assigns:
                    binds.append((c.class_assigns[lk], c.loc(c.class_assigns[lk])))
                for h in c.all_funcs:
                    for n in A.walk_no_nested(h.node):
                        if isinstance(n, (ast.Assign, ast.AnnAssign)) and getattr(n, "value", None) is not None \
                                and any(isinstance(t, ast.Attribute) and t.attr == lk for t in A.store_targets(n)):
                            binds.append((n.value, h.loc(n)))
            for v, where in binds:
                if not (isinstance(v, ast.Call) and A.call_name(v) in LOCK_CTORS):
                    ctx.fail(cons_l, where, f"`{lk}` of {g.name} is bound to `{ast.unparse(v)[:50]}`, which is "
                             f"not a lock: `with self.{lk}` excludes nobody for an instance that sees "
                             f"this binding (a persistence subclass that does not call __init__ gets "
                             f"the class-level default) - two threads draw the same identifier",
                             expected="threading.Lock() / threading.RLock() in every binding",
                             observed=ast.unparse(v)[:50])
        sites = [s for s in store_sites(model, SEQ)
                 if s.func.cls is g and s.func.name != "__init__"]
        foreign = [s for s in store_sites(model, SEQ)
                   if s.func.cls is not g and s.receiver != "self"]
        funcs = []
        for s in sites:
            if s.func not in funcs:
                funcs.append(s.func)
        # properties / methods of the class that hand out the counter: reading one of them is
        # reading the counter
        readers = {SEQ}
        for h in g.all_funcs:
            if h.name != "__init__" and h not in funcs and any(
                    isinstance(n, ast.Attribute) and n.attr == SEQ and isinstance(n.ctx, ast.Load)
                    and A.dotted(n.value) == "self" for n in A.walk_no_nested(h.node)):
                readers.add(h.name)
        for f in funcs:
            ctx.use(f)
            cons = f"{f.qualname}:counter-critical-section"
            ctx.inst(cons, sample={"class": g.name, "locks": sorted(locks),
                                   "stores": [s.where for s in sites if s.func is f]})
            if not locks:
                ctx.fail(cons, f.loc(),
                         f"{g.name} has no lock: {f.name} is an unlocked read-modify-write of "
                         f"{SEQ}; two threads can draw the same identifier",
                         expected="with self.<lock>: update and read", observed="no lock field")
                continue
            bad = None
            lock_used = None
            for s in sites:
                if s.func is not f:
                    continue
                ok_any = False
                for lk in locks:
                    ok, why = protected(model, s, lk)
                    if ok:
                        ok_any = True
                        lock_used = lk
                if not ok_any:
                    bad = (s, why)
            if bad:
                s, why = bad
                ctx.fail(cons, s.where, f"store to {SEQ} in {f.qualname} is outside the lock: {why}")
                continue
            # every load of the counter in the function is under the same lock
            for n in A.walk_no_nested(f.node):
                if isinstance(n, ast.Attribute) and n.attr in readers and isinstance(n.ctx, ast.Load) \
                        and A.dotted(n.value) == "self":
                    if f"self.{lock_used}" not in held_locks(f, n):
                        # allowed only if the whole function is call-site protected
                        ok, why = protected(model, Site(f, _stmt(f, n), n, "self"), lock_used)
                        if not ok:
                            ctx.fail(cons, f"{f.module.relpath}:{n.lineno}",
                                     f"{f.qualname} reads {SEQ} outside `with self.{lock_used}`: "
                                     f"the value handed to the caller may be another thread's")
                            break
        storing = {f.name for f in funcs}
        for h in g.all_funcs:
            if h in funcs or h.name == "__init__" or h.is_property:
                continue
            calls_storing = [n for n in A.walk_no_nested(h.node) if isinstance(n, ast.Call)
                             and A.call_name(n) in {f"self.{x}" for x in storing}]
            if not calls_storing:
                continue
            cons = f"{h.qualname}:counter-critical-section"
            ctx.inst(cons)
            for n in A.walk_no_nested(h.node):
                if isinstance(n, ast.Attribute) and n.attr in (readers - {h.name}) \
                        and isinstance(n.ctx, ast.Load) and A.dotted(n.value) == "self":
                    held = held_locks(h, n)
                    if not any(f"self.{lk}" in held for lk in locks):
                        ctx.fail(cons, f"{h.module.relpath}:{n.lineno}",
                                 f"{h.qualname} advances the counter through {sorted(storing)} (which "
                                 f"releases the lock) and then reads {SEQ} again outside the lock: the "
                                 f"value handed out may be the one another thread just produced")
                        break
        for s in foreign:
            ctx.inst(f"{s.func.qualname}:foreign-store")
            ctx.fail(f"{s.func.qualname}:foreign-store", s.where,
                     f"{SEQ} of a generator is stored from outside the class")

        # ---- R2 ------------------------------------------------------------
        width = WIDTH.get(g.name)
        for f in funcs:
            cons = f"{f.qualname}:increment"
            ctx.inst(cons, rule="C16-R2")
            _check_increment(ctx, g, f, width, cons)
        cons = f"{g.name}:constants"
        ctx.inst(cons, rule="C16-R2")
        try:
            mn = model.fold(g.class_assigns["MIN_SEQUENCE"], helpers, g)
            mx = model.fold(g.class_assigns["MAX_SEQUENCE"], helpers, g)
        except (KeyError, NotConst):
            ctx.error(f"{g.name}.MIN_SEQUENCE/MAX_SEQUENCE do not fold", rule="C16-R2")
            continue
        if mn != 1:
            ctx.fail(cons, g.loc(), f"{g.name}.MIN_SEQUENCE = {mn}: identifiers must wrap to 1 "
                     f"and never be zero", rule="C16-R2")
        if width and mx != 2 ** width - 1:
            ctx.fail(cons + "#max", g.loc(), f"{g.name}.MAX_SEQUENCE = {mx:#x}, expected "
                     f"{2 ** width - 1:#x} ({width}-bit counter space)", rule="C16-R2")

    _initial_values(ctx, helpers)
    _session_format(ctx, helpers)
    _callers(ctx)


def _stmt(f, n):
    par = A.parents(f.node)
    while not isinstance(n, ast.stmt):
        n = par[n]
    return n


def _check_increment(ctx: Ctx, g, f, width, cons):
    model = ctx.model
    cfg = cfg_of(f)
    at = Atomizer(model, f.module, g)
    stores = [n for n in cfg.nodes if n.kind == "stmt"
              and any(A.dotted(t) == f"self.{SEQ}" for t in n.stores())]
    mx = model.try_fold(g.class_assigns.get("MAX_SEQUENCE"), f.module, g) \
        if g.class_assigns.get("MAX_SEQUENCE") is not None else None
    mn = model.try_fold(g.class_assigns.get("MIN_SEQUENCE"), f.module, g) \
        if g.class_assigns.get("MIN_SEQUENCE") is not None else None
    wrap_tests = []
    for n in cfg.nodes:
        a = at.node_atom(n)
        if a and a.subject == f"self.{SEQ}" and a.op == "==" and a.value == mx:
            wrap_tests.append((n, a))
    if len(wrap_tests) != 1:
        # alternative closed form:  seq = seq % MAX + 1
        if len(stores) == 1 and _is_mod_form(model, stores[0].ast, f, g, mx):
            return
        if len(wrap_tests) == 0:
            ctx.fail(cons, f.loc(), f"{f.qualname} never compares {SEQ} with MAX_SEQUENCE "
                     f"({mx:#x}): the counter does not wrap to MIN_SEQUENCE", rule="C16-R2")
        else:
            ctx.error(f"{f.qualname}: unrecognised increment idiom", rule="C16-R2")
        return
    tn, a = wrap_tests[0]
    on_max = "T" if not a.flip else "F"
    other = "F" if on_max == "T" else "T"
    succ = dict((l, d) for l, d in tn.succ)
    wrap_node, inc_node = succ.get(on_max), succ.get(other)

    def store_kind(n):
        if n is None or n.kind != "stmt" or not any(A.dotted(t) == f"self.{SEQ}" for t in n.stores()):
            return None
        st = n.ast
        if isinstance(st, ast.AugAssign) and isinstance(st.op, ast.Add):
            return ("add", model.try_fold(st.value, f.module, g))
        if isinstance(st, ast.Assign):
            v = st.value
            if isinstance(v, ast.BinOp) and isinstance(v.op, ast.Add) \
                    and A.dotted(v.left) == f"self.{SEQ}":
                return ("add", model.try_fold(v.right, f.module, g))
            try:
                return ("const", model.fold(v, f.module, g))
            except NotConst:
                return ("other", ast.unparse(v))
        return ("other", ast.unparse(st))
    wk, ik = store_kind(wrap_node), store_kind(inc_node)
    if wk != ("const", mn) or mn != 1:
        ctx.fail(cons, cfg.loc(wrap_node or tn),
                 f"on {SEQ} == MAX_SEQUENCE the counter is not reset to MIN_SEQUENCE (=1): {wk}",
                 rule="C16-R2")
    if ik != ("add", 1):
        ctx.fail(cons, cfg.loc(inc_node or tn),
                 f"below MAX_SEQUENCE the counter is not incremented by exactly 1: {ik}",
                 rule="C16-R2")
    for s in stores:
        if s not in (wrap_node, inc_node):
            ctx.fail(cons, cfg.loc(s), f"additional store to {SEQ}: `{s.text(80)}`", rule="C16-R2")
    # the returned value is the counter (or derived from it), read after the stores
    rets = [n for n in cfg.nodes if n.kind == "stmt" and isinstance(n.ast, ast.Return)]
    for r in rets:
        if not (cfg.dominated(r, [wrap_node, inc_node]) if wrap_node and inc_node else True):
            ctx.fail(cons, cfg.loc(r), f"{f.qualname} can return without having advanced the "
                     f"counter", rule="C16-R2")


def _is_mod_form(model, st, f, g, mx) -> bool:
    v = getattr(st, "value", None)
    if isinstance(st, ast.Assign) and isinstance(v, ast.BinOp) and isinstance(v.op, ast.Add) \
            and model.try_fold(v.right, f.module, g) == 1 and isinstance(v.left, ast.BinOp) \
            and isinstance(v.left.op, ast.Mod) and A.dotted(v.left.left) == f"self.{SEQ}" \
            and model.try_fold(v.left.right, f.module, g) == mx:
        return True
    return False


def _initial_values(ctx: Ctx, helpers):
    model = ctx.model
    ctx.rule("C16-R3", "initial value: (start_time << 20 | randint(MIN, 0xfffff)) & MAX, else "
                       "randint(MIN, MAX); Node passes its start time", floor=3)
    g = helpers.classes["SequenceGenerator"]
    init = g.methods.get("__init__")
    if init is None:
        ctx.error("SequenceGenerator.__init__ not found")
        return
    params = [a.arg for a in init.node.args.args][1:]
    cfg = cfg_of(init)
    at = Atomizer(model, helpers, g)
    stores = [n for n in cfg.nodes if n.kind == "stmt"
              and any(A.dotted(t) == f"self.{SEQ}" for t in n.stores())]
    # a store under `p is not None` for an optional argument p that no call in the package supplies
    # (a start value for tests, a persisted counter) is not one of the package's own two ways of
    # starting a generator
    from ..effects import effects_of as _eo
    E0 = _eo(model)
    stores = [n for n in stores if not any(pol and E0._dead_by_default(t_, init)
                                           for t_, pol in A.enclosing_tests(init.node, n.ast))]
    seeded, plain = [], []
    for s in stores:
        guarded = any(at.guarded(cfg, s, lambda a, p=p: True if (a.subject == p and a.op == "truthy") or
                                 (a.subject == p and a.op == "is" and a.value is None and False) else None)
                      for p in params)
        notnone = any(at.guarded(cfg, s, lambda a, p=p: False if (a.subject == p and a.op == "is"
                                                                 and a.value is None) else None)
                      for p in params)
        (seeded if (guarded or notnone) else plain).append(s)
    cons = "SequenceGenerator.__init__:seeded"
    ctx.inst(cons, sample=[s.text(120) for s in seeded])
    if len(seeded) != 1 or len(plain) != 1:
        ctx.fail(cons, init.loc(), f"expected one start-time-seeded and one random initial store, "
                 f"found {len(seeded)} / {len(plain)}")
        return
    mx = model.try_fold(g.class_assigns["MAX_SEQUENCE"], helpers, g)
    mn = model.try_fold(g.class_assigns["MIN_SEQUENCE"], helpers, g)
    v = seeded[0].ast.value
    probs = []
    shifts = [n for n in ast.walk(v) if isinstance(n, ast.BinOp) and isinstance(n.op, ast.LShift)]
    if not (len(shifts) == 1 and isinstance(shifts[0].left, ast.Name)
            and shifts[0].left.id in params
            and model.try_fold(shifts[0].right, helpers, g) == 20):
        probs.append("start time is not shifted left by 20 bits (32 - 12)")
    masks = [n for n in ast.walk(v) if isinstance(n, ast.BinOp) and isinstance(n.op, ast.BitAnd)
             and (model.try_fold(n.right, helpers, g) == mx or model.try_fold(n.left, helpers, g) == mx)]
    if not masks or mx != 0xffffffff:
        probs.append("result is not masked with MAX_SEQUENCE (0xffffffff)")
    else:
        # the mask must be the outermost arithmetic (apart from int(...))
        top = v
        while isinstance(top, ast.Call) and A.call_name(top) == "int" and len(top.args) == 1:
            top = top.args[0]
        if top is not masks[0] and not (isinstance(top, ast.BinOp) and isinstance(top.op, ast.BitAnd)):
            probs.append("the 32-bit mask is not applied to the whole value")
    rnd = [n for n in ast.walk(v) if isinstance(n, ast.Call) and A.call_name(n).endswith("randint")]
    if not (len(rnd) == 1 and len(rnd[0].args) == 2
            and model.try_fold(rnd[0].args[0], helpers, g) == mn == 1
            and model.try_fold(rnd[0].args[1], helpers, g) == 0x000fffff):
        probs.append("low part is not randint(MIN_SEQUENCE=1, 0xfffff)")
    ors = [n for n in ast.walk(v) if isinstance(n, ast.BinOp) and isinstance(n.op, (ast.BitOr, ast.Add))]
    if not ors:
        probs.append("high and low parts are not combined with |")
    for p in probs:
        ctx.fail(cons, cfg.loc(seeded[0]), f"seeded initial value: {p} - `{seeded[0].text(120)}`")
        break
    # the seeded branch is taken whenever a start time was given, including the value 0
    from ..atoms import Atomizer as _At, must_facts as _mf
    fx = _mf(cfg, _At(model, helpers, g), seeded[0])
    tp = shifts[0].left.id if shifts and isinstance(shifts[0].left, ast.Name) else None
    if tp and not any(f_[0] == tp and f_[1] == "is" and f_[2] is None and f_[3] is False for f_ in fx):
        ctx.fail(cons + "#presence", cfg.loc(seeded[0]), f"the time-seeded branch is selected by the "
                 f"truthiness of `{tp}` (facts: {sorted(map(str, fx))}), not by `{tp} is not None`: a "
                 f"start time whose value is 0 is treated as absent and the high 12 bits are random")
    cons = "SequenceGenerator.__init__:random"
    ctx.inst(cons, sample=plain[0].text(120))
    pv = plain[0].ast.value
    if not (isinstance(pv, ast.Call) and A.call_name(pv).endswith("randint") and len(pv.args) == 2
            and model.try_fold(pv.args[0], helpers, g) == 1
            and model.try_fold(pv.args[1], helpers, g) == mx):
        ctx.fail(cons, cfg.loc(plain[0]), f"unseeded initial value is not randint(1, MAX): "
                 f"`{plain[0].text(100)}` (0 would be handed out / skipped)")
    # Node passes its start time
    node_cls = model.cls("node.node", "Node")
    ninit = node_cls.methods["__init__"]
    ctx.use(ninit)
    cons = "Node.__init__:end_to_end_seq"
    ctx.inst(cons)
    val = sid = None
    for n in A.walk_no_nested(ninit.node):
        if isinstance(n, (ast.Assign, ast.AnnAssign)) and getattr(n, "value", None) is not None:
            for t in A.store_targets(n):
                if A.dotted(t) == "self.end_to_end_seq":
                    val = n.value
                if A.dotted(t) == "self.state_id":
                    sid = n.value
    def _is_start_time(e):
        # the start time itself, or masked in a way that keeps its low 12 bits (the only ones the
        # generator uses, and since /repo e79af0a it tells "given" from "absent" by `is not None`)
        if A.dotted(e) == "self.state_id":
            return True
        if isinstance(e, ast.BinOp) and isinstance(e.op, ast.BitAnd):
            for a_, b_ in ((e.left, e.right), (e.right, e.left)):
                m_ = model.try_fold(b_, ninit.module, node_cls)
                if A.dotted(a_) == "self.state_id" and isinstance(m_, int) and m_ & 0xfff == 0xfff:
                    return True
        return False
    ok = (isinstance(val, ast.Call) and A.call_name(val) == "SequenceGenerator"
          and len(val.args) + len(val.keywords) == 1
          and _is_start_time((val.args or [val.keywords[0].value])[0])
          and sid is not None and "time.time()" in ast.unparse(sid))
    if not ok:
        ctx.fail(cons, ninit.loc(), "Node.end_to_end_seq is not SequenceGenerator(<start time>): "
                 f"`{ast.unparse(val) if val is not None else None}`")
    # ... the start TIME: what seeds the generator is read from the clock and from nothing the
    # caller passes in (an Origin-State-Id kept over a restart, a configured constant): a node
    # restarted with the same value draws its end-to-end identifiers from the block of 2^20 values
    # its previous incarnation used
    cons = "Node.__init__:end_to_end_seq#clock-only"
    ctx.inst(cons)
    if ok and sid is not None:
        params = {a.arg for a in ninit.node.args.args + ninit.node.args.kwonlyargs} - {"self"}
        seen: set[str] = set()

        def sources(e, depth=0):
            out = set()
            for x in ast.walk(e):
                if isinstance(x, ast.Name) and x.id in params:
                    out.add(x.id)
                elif isinstance(x, ast.Name) and depth < 3 and x.id not in seen:
                    seen.add(x.id)
                    for d in A.walk_no_nested(ninit.node):
                        if isinstance(d, (ast.Assign, ast.AnnAssign)) and getattr(d, "value", None) is not None \
                                and any(isinstance(t, ast.Name) and t.id == x.id for t in A.store_targets(d)):
                            out |= sources(d.value, depth + 1)
            return out
        src = sources(sid)
        if src:
            ctx.fail(cons, ninit.loc(sid), f"the value that seeds Node.end_to_end_seq depends on the constructor "
                     f"argument(s) {sorted(src)} (`{ast.unparse(sid)[:80]}`), not on the clock alone: two "
                     f"incarnations of the node configured with the same value draw their end-to-end "
                     f"identifiers from the same 2^20 block - identifiers of requests still outstanding at "
                     f"the peers from before the restart are handed out again",
                     expected="SequenceGenerator(<int(time.time())>)", observed=ast.unparse(sid)[:120])
    pc = model.cls("node.peer", "PeerConnection")
    pinit = pc.methods["__init__"]
    cons = "PeerConnection.__init__:hop_by_hop_seq"
    ctx.inst(cons)
    val = None
    for n in A.walk_no_nested(pinit.node):
        if isinstance(n, (ast.Assign, ast.AnnAssign)) and getattr(n, "value", None) is not None:
            for t in A.store_targets(n):
                if A.dotted(t) == "self.hop_by_hop_seq":
                    val = n.value
    def _is_seqgen(e) -> bool:
        # SequenceGenerator(), or a generator handed in by the creator of the connection with
        # SequenceGenerator() as the fall-back (`p if p is not None else SequenceGenerator()`,
        # `p or SequenceGenerator()`): the identifiers still come from one locked counter
        pparams = {a.arg for a in pinit.node.args.args + pinit.node.args.kwonlyargs} - {"self"}
        if isinstance(e, ast.Call) and A.call_name(e) == "SequenceGenerator":
            return True
        if isinstance(e, ast.IfExp):
            alts = [e.body, e.orelse]
            return any(_is_seqgen(x) for x in alts) and all(
                _is_seqgen(x) or (isinstance(x, ast.Name) and x.id in pparams) for x in alts)
        if isinstance(e, ast.BoolOp) and isinstance(e.op, ast.Or):
            return _is_seqgen(e.values[-1]) and all(
                isinstance(x, ast.Name) and x.id in pparams for x in e.values[:-1])
        return False
    if not _is_seqgen(val):
        ctx.fail(cons, pinit.loc(), "each connection must own a SequenceGenerator for "
                 "hop-by-hop identifiers")


def _session_format(ctx: Ctx, helpers):
    model = ctx.model
    ctx.rule("C16-R3b", "session id = identity;start-time;high32;low32[;optional...]", floor=3)
    # the start time enters the session ids as four bytes: whatever the clock says, the value
    # given to int.to_bytes(4) fits (masked / reduced modulo 2^32) - a clock beyond 2106-02-07 or
    # before 1970 must not make the constructor (and Node.__init__) raise OverflowError
    for g in [c_ for c_ in helpers.classes.values() if c_.name.endswith("Generator")]:
        init = g.methods.get("__init__")
        if init is None:
            continue
        for n in A.walk_no_nested(init.node):
            if isinstance(n, ast.Call) and isinstance(n.func, ast.Attribute) and n.func.attr == "to_bytes" \
                    and n.args and model.try_fold(n.args[0], init.module, g) == 4 \
                    and any(isinstance(x, ast.Call) and A.call_name(x) in ("time.time", "time.time_ns")
                            for x in ast.walk(n.func.value)):
                cons_t = f"{g.name}.__init__:start-time-fits-32-bits"
                ctx.cur("C16-R3b")
                ctx.inst(cons_t, rule="C16-R3b")
                v = n.func.value
                masked = isinstance(v, ast.BinOp) and (
                    (isinstance(v.op, ast.BitAnd) and any(
                        isinstance(model.try_fold(x, init.module, g), int)
                        and 0 <= model.try_fold(x, init.module, g) <= 0xffffffff for x in (v.left, v.right)))
                    or (isinstance(v.op, ast.Mod) and model.try_fold(v.right, init.module, g) in (2 ** 32,)))
                if not masked:
                    ctx.fail(cons_t, init.loc(n), f"`{ast.unparse(n)[:70]}` renders the start time with "
                             f"int.to_bytes(4) unmasked: a clock at or beyond 2^32 s (2106-02-07), or before "
                             f"1970, raises OverflowError in the constructor - no session id, and no Node",
                             rule="C16-R3b", expected="(int(time.time()) & 0xffffffff).to_bytes(4, ...)",
                             observed=ast.unparse(v)[:60])
    # the same start time is the node's Origin-State-Id (Unsigned32 in every CER, DWR and DWA)
    node_cls = model.cls("node.node", "Node")
    ninit = node_cls.methods.get("__init__")
    cons_s = "Node.__init__:state_id-fits-32-bits"
    ctx.inst(cons_s, rule="C16-R3b")
    if ninit is not None:
        ctx.use(ninit)
        for n in A.walk_no_nested(ninit.node):
            if isinstance(n, (ast.Assign, ast.AnnAssign)) and getattr(n, "value", None) is not None and any(
                    A.dotted(t) == "self.state_id" for t in A.store_targets(n)) and any(
                    isinstance(x, ast.Call) and A.call_name(x) in ("time.time", "time.time_ns") for x in ast.walk(n.value)):
                v = n.value
                masked = isinstance(v, ast.BinOp) and (
                    (isinstance(v.op, ast.BitAnd) and any(
                        isinstance(model.try_fold(x, ninit.module, node_cls), int)
                        and 0 <= model.try_fold(x, ninit.module, node_cls) <= 0xffffffff for x in (v.left, v.right)))
                    or (isinstance(v.op, ast.Mod) and model.try_fold(v.right, ninit.module, node_cls) == 2 ** 32))
                if not masked:
                    ctx.fail(cons_s, ninit.loc(n), f"`{ast.unparse(n)[:70]}`: the start time is kept unmasked as "
                             f"Origin-State-Id (Unsigned32): with a clock at or beyond 2^32 s no CER, DWR or DWA "
                             f"can be encoded - the node never completes a capabilities exchange", rule="C16-R3b")
    g = helpers.classes["SessionGenerator"]
    f = g.methods.get("next_id")
    init = g.methods.get("__init__")
    if f is None or init is None:
        ctx.error("SessionGenerator.next_id/__init__ not found")
        return
    ctx.use(f)
    cons = "SessionGenerator.next_id:format"
    ctx.inst(cons)
    joins = [n for n in ast.walk(f.node) if isinstance(n, ast.Call)
             and isinstance(n.func, ast.Attribute) and n.func.attr == "join"]
    if not (len(joins) == 1 and isinstance(joins[0].func.value, ast.Constant)
            and joins[0].func.value.value == ";"):
        ctx.fail(cons, f.loc(), "session id fields are not joined with ';'")
        return
    # the joined list
    arg = joins[0].args[0]
    lst = None
    if isinstance(arg, ast.Name):
        defs = [n for n in A.walk_no_nested(f.node) if isinstance(n, ast.Assign)
                and any(isinstance(t, ast.Name) and t.id == arg.id for t in n.targets)]
        if defs and isinstance(defs[0].value, ast.List):
            lst = defs[0].value
        augs = [n for n in A.walk_no_nested(f.node) if isinstance(n, ast.AugAssign)
                and isinstance(n.target, ast.Name) and n.target.id == arg.id]
        vararg = f.node.args.vararg.arg if f.node.args.vararg else None
        if not (len(augs) == 1 and isinstance(augs[0].op, ast.Add)
                and isinstance(augs[0].value, ast.Name) and augs[0].value.id == vararg):
            ctx.fail(cons + "#optional", f.loc(), "optional fields are not appended after the "
                     "four fixed fields")
    elif isinstance(arg, (ast.List, ast.Tuple)):
        lst = arg
        # [a, b, c, d, *optional]: the optional fields unpacked behind the four fixed ones
        vararg = f.node.args.vararg.arg if f.node.args.vararg else None
        if lst.elts and isinstance(lst.elts[-1], ast.Starred):
            if not (isinstance(lst.elts[-1].value, ast.Name) and lst.elts[-1].value.id == vararg):
                ctx.fail(cons + "#optional", f.loc(), "optional fields are not appended after the "
                         "four fixed fields")
            lst = ast.List(elts=list(lst.elts[:-1]), ctx=ast.Load())
    if lst is None or len(lst.elts) != 4:
        ctx.fail(cons, f.loc(joins[0]), "the fixed part of a session id must be exactly "
                 "[identity, base, high32, low32]")
        return
    e0, e1, e2, e3 = lst.elts
    probs = []
    if A.dotted(e0) != "self.diameter_identity":
        probs.append("first field is not the diameter identity")
    if A.dotted(e1) != "self._base_value":
        probs.append("second field is not the start-time base value")

    def is_slice(e, lo, hi):
        return (isinstance(e, ast.Subscript) and isinstance(e.slice, ast.Slice)
                and (model.try_fold(e.slice.lower, helpers) if e.slice.lower else None) == lo
                and (model.try_fold(e.slice.upper, helpers) if e.slice.upper else None) == hi)
    if not (is_slice(e2, None, 8) or is_slice(e2, 0, 8)) or not (is_slice(e3, 8, None) or is_slice(e3, 8, 16)):
        probs.append("third/fourth fields are not the [:8] / [8:] halves of the hex counter")
    elif A.dotted(e2.value) != A.dotted(e3.value):
        probs.append("high and low halves come from different values")
    else:
        # the sliced value is  self._sequence.to_bytes(8, 'big').hex()
        src = None
        for n in A.walk_no_nested(f.node):
            if isinstance(n, ast.Assign) and any(A.dotted(t) == A.dotted(e2.value) for t in n.targets):
                src = n.value
        s = ast.unparse(src) if src is not None else ""
        okb = False
        if isinstance(src, ast.Call) and isinstance(src.func, ast.Attribute) and src.func.attr == "hex":
            tb = src.func.value
            recv_ = A.dotted(tb.func.value) if isinstance(tb, ast.Call) and isinstance(tb.func, ast.Attribute) else ""
            if recv_ and recv_ != f"self.{SEQ}" and isinstance(tb.func.value, ast.Name):
                # a copy of the counter taken while the lock is held (formatted after the lock
                # has been released): bound once, from self.<counter>, inside a `with` block
                par_ = A.parents(f.node)
                cdefs = [n for n in A.walk_no_nested(f.node) if isinstance(n, (ast.Assign, ast.AnnAssign))
                         and getattr(n, "value", None) is not None
                         and any(isinstance(t, ast.Name) and t.id == recv_ for t in A.store_targets(n))]
                if len(cdefs) == 1 and A.dotted(cdefs[0].value) == f"self.{SEQ}":
                    x_ = cdefs[0]
                    while x_ in par_ and not isinstance(par_[x_], ast.With):
                        x_ = par_[x_]
                    if x_ in par_ and "lock" in ast.unparse(par_[x_].items[0].context_expr).lower():
                        recv_ = f"self.{SEQ}"
            if isinstance(tb, ast.Call) and isinstance(tb.func, ast.Attribute) \
                    and tb.func.attr == "to_bytes" and recv_ == f"self.{SEQ}":
                vals = [model.try_fold(a, helpers) for a in tb.args] + \
                       [model.try_fold(k.value, helpers) for k in tb.keywords]
                okb = vals[:1] == [8] and "big" in vals
        if not okb:
            probs.append(f"the counter is not rendered as to_bytes(8, 'big').hex(): `{s}`")
    for p in probs:
        ctx.fail(cons, f.loc(), f"session id format: {p}")
        break
    cons = "SessionGenerator.__init__:base"
    ctx.inst(cons)
    base = seq = None
    for n in A.walk_no_nested(init.node):
        if isinstance(n, ast.Assign):
            for t in n.targets:
                if A.dotted(t) == "self._base_value":
                    base = n.value
                if A.dotted(t) == f"self.{SEQ}":
                    seq = n.value
    s = ast.unparse(base) if base is not None else ""
    if not ("time.time()" in s and ".to_bytes(4" in s and "big" in s and s.endswith(".hex()")):
        ctx.fail(cons, init.loc(), f"base value is not the 4-byte big-endian hex start time: `{s}`")
    cons = "SessionGenerator.__init__:counter"
    ctx.inst(cons)
    s = ast.unparse(seq) if seq is not None else ""
    if not (isinstance(seq, ast.Call) and A.call_name(seq).endswith("getrandbits")
            and model.try_fold(seq.args[0], helpers) == 64) and "randint" not in s:
        ctx.fail(cons, init.loc(), f"64-bit counter is not randomly initialised: `{s}`")


def _callers(ctx: Ctx):
    model = ctx.model
    ctx.rule("C16-R4", "identifiers stored into headers come from the sending connection's "
                       "hop-by-hop generator / the node's end-to-end generator", floor=6)
    sites = call_sites(model, "next_sequence")
    for c in sites:
        st = c.stmt
        tg = [A.dotted(t) for t in A.store_targets(st)]
        cons = f"{c.func.qualname}:{(tg[0].split('.')[-1] if tg else 'call')}"
        ctx.use(c.func)
        ctx.inst(cons, sample={"where": c.where, "receiver": c.receiver, "target": tg})
        if not tg:
            continue
        t = tg[0]
        if t.endswith(".hop_by_hop_identifier"):
            if not c.receiver.endswith(".hop_by_hop_seq"):
                ctx.fail(cons, c.where, f"hop-by-hop identifier drawn from `{c.receiver}` "
                         f"instead of the connection's hop_by_hop_seq")
                continue
            conn = c.receiver.rsplit(".", 1)[0]
            msg = t.split(".header.")[0]
            fn_src = c.func.node
            sent_ok = False
            for n in A.walk_no_nested(fn_src):
                if isinstance(n, ast.Call) and A.call_name(n).endswith("send_message") \
                        and len(n.args) >= 2 and A.dotted(n.args[1]) == msg:
                    sent_ok = A.dotted(n.args[0]) == conn
                    if not sent_ok:
                        ctx.fail(cons, c.where, f"{msg} takes its hop-by-hop id from {conn} but "
                                 f"is sent on {A.dotted(n.args[0])}")
                    break
                if isinstance(n, ast.Return) and isinstance(n.value, ast.Tuple) \
                        and len(n.value.elts) == 2 and A.dotted(n.value.elts[1]) == msg:
                    sent_ok = A.dotted(n.value.elts[0]) == conn
                    if not sent_ok:
                        ctx.fail(cons, c.where, f"{msg} takes its hop-by-hop id from {conn} but "
                                 f"is routed to {A.dotted(n.value.elts[0])}")
                    break
        elif t.endswith(".end_to_end_identifier"):
            if not c.receiver.endswith("end_to_end_seq") or \
                    c.receiver.split(".")[0] != "self":
                ctx.fail(cons, c.where, f"end-to-end identifier drawn from `{c.receiver}` "
                         f"instead of the node's end_to_end_seq")
    # request constructors in node.py: every request the node originates sets both ids
    node_cls = model.cls("node.node", "Node")
    for nm in ("send_cer", "send_dwr", "send_dpr"):
        f = node_cls.methods.get(nm)
        cons = f"Node.{nm}:ids"
        ctx.inst(cons)
        if f is None:
            ctx.error(f"Node.{nm} not found")
            continue
        tg = set()
        for n in A.walk_no_nested(f.node):
            if isinstance(n, ast.Assign) and isinstance(n.value, ast.Call) \
                    and A.call_name(n.value).endswith("next_sequence"):
                tg |= {A.dotted(t).split(".")[-1] for t in n.targets}
        if tg != {"hop_by_hop_identifier", "end_to_end_identifier"}:
            ctx.fail(cons, f.loc(), f"Node.{nm} does not draw fresh hop-by-hop and end-to-end "
                     f"identifiers (sets {sorted(tg)})")
