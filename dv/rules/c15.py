"""C15 - outbound bytes = queued messages concatenated FIFO, intact, once.

A lockset / ownership argument whose obligations are all structural."""
from __future__ import annotations

import ast

from ..report import Ctx
from ..srcmodel import AnalysisError, Opaque
from ..cfg import cfg_of
from ..lockset import (call_sites, lock_fields, method_refs, protected,
                       store_sites)
from .. import astutil as A

TECHNIQUE = "lockset + ownership analysis on the AST/CFG (stores, shapes, single remover/encoder)"
EXPLANATION = (
    "Lockset/ownership proof obligations over the parsed source: every store to "
    "PeerConnection._write_buffer outside __init__ is made with that connection's "
    "write_lock held (lexically or at every call site of the storing method); the only "
    "store shapes are append-at-end of <dequeued message>.as_bytes() and drop-prefix by "
    "the count returned from the send call on that connection's write_buffer; one "
    "remover (node I/O loop), one encoder (writer thread) started once, FIFO queue "
    "type; failure edges of the send leave without removing; an unencodable message is "
    "dropped alone. These obligations imply the concatenation invariant for every "
    "interleaving; they are checked on every store/call site in the package.")
ASSUMPTIONS = [
    "CPython: a single attribute load/store of an immutable bytes object is atomic",
    "queue.Queue is FIFO and thread-safe; threading.Lock provides mutual exclusion",
    "socket.send returns the number of bytes accepted from the start of the buffer",
    "not decided by execution: the claim follows from the obligations by the usual critical-section argument",
]

BUF = "_write_buffer"
LOCK = "write_lock"
QUEUE = "_write_msg_queue"


def run(ctx: Ctx):
    model = ctx.model
    from .common_node import names_resolve
    names_resolve(ctx, "C15-RN")
    from .common_codec import no_hidden_state
    _mb = model.cls("message._base", "Message")
    _hb = model.cls("message._base", "MessageHeader")
    no_hidden_state(ctx, "C15-R11", [m_ for m_ in (_mb.methods.get("as_bytes"), _hb.methods.get("as_bytes")) if m_],
                    set())
    from .common_codec import no_shared_default_objects
    no_shared_default_objects(ctx, "C15-R10", [f_ for f_ in model.all_funcs() if ".node" in f_.module.name], "the node package")
    peer = model.module("node.peer")
    node = model.module("node.node")
    pc = peer.classes.get("PeerConnection")
    if pc is None:
        raise AnalysisError("PeerConnection not found")
    ctx.use(peer, node)
    locks = lock_fields(model, pc)
    if LOCK not in locks:
        raise AnalysisError(f"PeerConnection.{LOCK} is not a threading.Lock created in __init__")

    # ---------------- R0 the buffer is an immutable value ------------------
    ctx.rule("C15-R0", "_write_buffer is an immutable bytes value that is only ever rebound "
                       "(never mutated in place): the object the I/O loop passes to send() "
                       "cannot change or be resized under it", floor=2)
    init = pc.methods.get("__init__")
    cons = f"PeerConnection.__init__:{BUF}-is-bytes"
    ctx.inst(cons)
    ival = None
    for n in A.walk_no_nested(init.node):
        if isinstance(n, (ast.Assign, ast.AnnAssign)) and getattr(n, "value", None) is not None:
            for t in A.store_targets(n):
                if isinstance(t, ast.Attribute) and t.attr == BUF and A.dotted(t.value) == "self":
                    ival = n.value
    okb = isinstance(ival, ast.Constant) and isinstance(ival.value, bytes) or \
        (isinstance(ival, ast.Call) and A.call_name(ival) == "bytes")
    if not okb:
        ctx.fail(cons, init.loc(), f"{BUF} starts as `{ast.unparse(ival) if ival is not None else None}`, "
                 f"not an immutable bytes value: `+=` then grows the very object the I/O loop has "
                 f"handed to socket.send() (BufferError while the export is held, the message is "
                 f"dropped as 'unencodable'; or bytes change under a partial write)")
    cons = f"{BUF}:never-mutated-in-place"
    ctx.inst(cons)
    MUT = {"extend", "append", "clear", "insert", "pop", "remove", "reverse", "__iadd__", "__setitem__",
           "__delitem__"}
    for fn in model.all_funcs():
        if "node" not in fn.module.name:
            continue
        for n in A.walk_no_nested(fn.node):
            bad = None
            if isinstance(n, ast.Delete):
                for t in n.targets:
                    if isinstance(t, ast.Subscript) and isinstance(t.value, ast.Attribute) and t.value.attr == BUF:
                        bad = n
            elif isinstance(n, (ast.Assign, ast.AugAssign)):
                for t in A.store_targets(n):
                    if isinstance(t, ast.Subscript) and isinstance(t.value, ast.Attribute) and t.value.attr == BUF:
                        bad = n
            elif isinstance(n, ast.Call) and isinstance(n.func, ast.Attribute) and n.func.attr in MUT \
                    and isinstance(n.func.value, ast.Attribute) and n.func.value.attr in (BUF, "write_buffer"):
                bad = n
            if bad is not None:
                ctx.fail(cons, fn.loc(bad), f"`{ast.unparse(bad)[:80]}` mutates the write buffer in "
                         f"place: the I/O loop may be inside send() on that very object")

    # ---------------- R1 lockset ----------------------------------------
    ctx.rule("C15-R1", "every store to _write_buffer outside __init__ holds the same "
                       "connection's write_lock", floor=2)
    sites = [s for s in store_sites(model, BUF)
             if not (s.func.cls is pc and s.func.name == "__init__")]
    for s in sites:
        cons = f"{s.func.qualname}:store({BUF})"
        ok, why = protected(model, s, LOCK)
        ctx.inst(cons, sample={"where": s.where, "receiver": s.receiver, "protection": why})
        if not ok:
            ctx.fail(cons, s.where,
                     f"store to {s.receiver}.{BUF} in {s.func.qualname} is not protected by "
                     f"{s.receiver}.{LOCK}: {why}",
                     expected=f"with {s.receiver}.{LOCK}", observed=why)

    # ---------------- R2 store shapes -------------------------------------
    ctx.rule("C15-R2", "store shapes: append-at-end of <dequeued msg>.as_bytes() or "
                       "drop-prefix buf[n:]", floor=2)
    appenders, droppers = [], []
    for s in sites:
        cons = f"{s.func.qualname}:shape({BUF})"
        st = s.stmt
        kind, detail = _shape(st, s.receiver)
        ctx.inst(cons, sample={"where": s.where, "shape": kind, "operand": detail})
        if kind == "append":
            appenders.append((s, detail))
        elif kind == "drop-prefix":
            droppers.append((s, detail))
        else:
            ctx.fail(cons, s.where,
                     f"store to {BUF} in {s.func.qualname} is neither append-at-end nor "
                     f"drop-prefix: `{' '.join(ast.unparse(st).split())[:120]}` ({detail})")
    for s, operand in appenders:
        cons = f"{s.func.qualname}:append-operand"
        ctx.inst(cons)
        ok, why = _operand_is_dequeued_msg(s, operand)
        if not ok:
            ctx.fail(cons, s.where, f"appended operand `{ast.unparse(operand)}` is not exactly "
                     f"<message taken from {QUEUE}>.as_bytes(): {why}")
    for s, bound in droppers:
        cons = f"{s.func.qualname}:drop-bound"
        ctx.inst(cons)
        params = [a.arg for a in s.func.node.args.args]
        if not (isinstance(bound, ast.Name) and bound.id in params[1:]):
            ctx.fail(cons, s.where, f"the dropped prefix length `{ast.unparse(bound)}` is not "
                     f"the caller-supplied byte count parameter")

    # ---------------- R3 removal count = send result ---------------------
    ctx.rule("C15-R3", "the removed count is the result of the send on the same "
                       "connection's write_buffer; failure edges do not remove", floor=1)
    remover_names = sorted({s.func.name for s, _ in droppers})
    rem_calls = []
    for nm in remover_names:
        rem_calls += call_sites(model, nm)
    for c in rem_calls:
        cons = f"{c.func.qualname}:call({c.node.func.attr if isinstance(c.node.func, ast.Attribute) else ''})"
        ctx.inst(cons, sample={"where": c.where, "receiver": c.receiver})
        _check_removal(ctx, c, cons)

    # ---------------- R4 single remover / encoder -------------------------
    ctx.rule("C15-R4", "single remover, single encoder started once, FIFO queue", floor=4)
    hc = model.func("node.node", "Node._handle_connections")
    for nm in remover_names:
        ctx.inst(f"remover:{nm}")
        refs = method_refs(model, nm)
        bad = [c for c in call_sites(model, nm) if c.func is not hc] + refs
        if bad:
            ctx.fail(f"remover:{nm}", bad[0].where,
                     f"{nm} is used outside the node I/O loop ({bad[0].func.qualname}): "
                     f"a second remover can drop bytes the socket never accepted")
    getters = [c for c in call_sites(model, "get") + call_sites(model, "get_nowait")
               if c.receiver.endswith("." + QUEUE)]
    putters = [c for c in call_sites(model, "put") + call_sites(model, "put_nowait")
               if c.receiver.endswith("." + QUEUE)]
    ctx.inst("encoder:consumers", sample=[g.where for g in getters])
    # one consumer: every site that takes messages out of the queue lies in one function of
    # PeerConnection, the writer's thread function (it may take several per turn)
    cfuncs = {id(g_.func.node) for g_ in getters}
    if not getters or len(cfuncs) != 1 or getters[0].func.cls is not pc:
        other = [g_ for g_ in getters if g_.func is not getters[0].func or g_.func.cls is not pc]
        where = other[0].where if other else pc.loc()
        ctx.fail("encoder:consumers", where,
                 f"{QUEUE} is consumed in {len(cfuncs)} function(s) "
                 f"({sorted({g_.func.qualname for g_ in getters})}); exactly one (the writer "
                 f"thread's) is required for FIFO, exactly-once encoding")
    enc = getters[0].func if getters else None
    ctx.inst("encoder:producers", sample=[p.where for p in putters])
    if not putters:
        ctx.fail("encoder:producers", pc.loc(), f"nothing enqueues into {QUEUE}")
    for p in putters:
        if p.func.cls is not pc:
            ctx.fail("encoder:producers", p.where,
                     f"{QUEUE} is filled from outside PeerConnection ({p.func.qualname})")
        if A.call_name(p.node).endswith("put") and p.node.keywords:
            pass
    # queue type
    init = pc.methods["__init__"]
    qctor = None
    for n in A.walk_no_nested(init.node):
        if isinstance(n, (ast.Assign, ast.AnnAssign)) and getattr(n, "value", None) is not None:
            for t in A.store_targets(n):
                if isinstance(t, ast.Attribute) and t.attr == QUEUE:
                    qctor = n.value
    ctx.inst("encoder:queue-type", sample=ast.unparse(qctor) if qctor is not None else None)
    if not (isinstance(qctor, ast.Call) and A.call_name(qctor) in ("queue.Queue", "Queue")
            and not qctor.args and not qctor.keywords):
        ctx.fail("encoder:queue-type", init.loc(qctor) if qctor is not None else init.loc(),
                 f"{QUEUE} must be an unbounded FIFO queue.Queue(), found "
                 f"`{ast.unparse(qctor) if qctor is not None else None}`")
    # worker started exactly once, in __init__, with the encoder as target
    if enc is not None:
        ctx.inst("encoder:thread")
        refs = method_refs(model, enc.name)
        thr_attr = None
        for r in refs:
            if r.func is init and isinstance(r.stmt, (ast.Assign, ast.AnnAssign)):
                for t in A.store_targets(r.stmt):
                    if isinstance(t, ast.Attribute):
                        thr_attr = t.attr
        if len(refs) != 1 or thr_attr is None or call_sites(model, enc.name):
            ctx.fail("encoder:thread", refs[1].where if len(refs) > 1 else init.loc(),
                     f"{enc.qualname} must be the target of exactly one thread created in "
                     f"__init__ and never be called directly (found {len(refs)} reference(s), "
                     f"{len(call_sites(model, enc.name))} direct call(s))")
        else:
            starts = [c for c in call_sites(model, "start")
                      if c.receiver.endswith("." + thr_attr)]
            if len(starts) != 1 or starts[0].func is not init:
                ctx.fail("encoder:thread", starts[0].where if starts else init.loc(),
                         f"writer thread {thr_attr} is started {len(starts)} time(s); "
                         f"exactly once in __init__ is required")

    # ---------------- R5 unencodable message dropped alone ----------------
    ctx.rule("C15-R5", "an unencodable message is dropped alone (encode inside try/except "
                       "Exception in the loop body; handler neither stores nor leaves)", floor=1)
    for s, operand in appenders:
        cons = f"{s.func.qualname}:encode-isolation"
        ctx.inst(cons)
        par = A.parents(s.func.node)
        _, enc_stmt = _resolve_operand(s, operand)
        trys = []
        loop = None
        n = enc_stmt
        while n in par:
            p = par[n]
            if isinstance(p, ast.Try) and any(n is b for b in p.body):
                trys.append(p)
            if isinstance(p, (ast.While, ast.For)):
                loop = p
                break
            n = p
        catching = None
        for tr in trys:
            for h in tr.handlers:
                t = ast.unparse(h.type) if h.type is not None else "*"
                if t in ("Exception", "BaseException", "*"):
                    catching = (tr, h)
                    break
            if catching:
                break
        if loop is None or catching is None:
            ctx.fail(cons, f"{s.func.module.relpath}:{enc_stmt.lineno}",
                     "the encoding of a queued message is not inside a try/except Exception "
                     "within the writer loop: one unencodable message kills the writer "
                     "thread and blocks every later message")
            continue
        tr, h = catching
        # a message taken off the queue is written or fails to encode - nothing else: from the
        # dequeue every path back to the head of the loop passes the append or the handler of the
        # encoding failure (a state test that `continue`s in between discards what send_message()
        # accepted: e.g. the CEA queued just before the connection was marked CLOSING)
        cons_d = f"{s.func.qualname}:dequeued-is-written"
        ctx.inst(cons_d)
        gw = cfg_of(s.func, inline=False)
        deq = [x for x in gw.nodes if x.kind == "stmt" and any(
            isinstance(c.func, ast.Attribute) and c.func.attr in ("get", "get_nowait")
            and "queue" in ast.unparse(c.func.value).lower() for c in x.calls())]
        app_n = [x for x in gw.nodes if x.kind == "stmt" and x.ast is s.stmt]
        hnd_n = [x for x in gw.nodes if x.ast is h or (x.kind == "stmt" and any(x.ast is y for y in ast.walk(h)))]
        heads = [x for x in gw.nodes if x.kind in ("loop", "test") and x.ast is not None
                 and (x.ast is loop or x.ast is getattr(loop, "test", None))]
        if deq and app_n and heads:
            rr = gw.reach([d for x in deq for l, d in x.succ if l not in ("exc", "raise")],
                          blocked=app_n + hnd_n + deq)
            if any(hd in rr for hd in heads):
                skip = sorted((x for x in rr if x.kind == "stmt" and isinstance(x.ast, ast.Continue)),
                              key=lambda x: x.line)
                ctx.fail(cons_d, gw.loc(skip[0]) if skip else s.func.loc(),
                         "a message taken off the write queue can be passed over without being appended to the "
                         "write buffer (a path from the dequeue back to the loop avoids the append and the "
                         "encoding-failure handler): what send_message() accepted is silently discarded - e.g. "
                         "the CEA / DPA queued just before the connection was marked CLOSING",
                         expected="dequeue -> append | encoding failure", observed="a path around both")
        for x in A.stmts_walk(h.body):
            if isinstance(x, (ast.Break, ast.Return, ast.Raise)):
                ctx.fail(cons, f"{s.func.module.relpath}:{x.lineno}",
                         "the handler for an unencodable message leaves the writer loop")
            for t2 in A.store_targets(x):
                if isinstance(t2, ast.Attribute) and t2.attr == BUF:
                    ctx.fail(cons, f"{s.func.module.relpath}:{x.lineno}",
                             "the handler for an unencodable message stores to the buffer")

    # ---------------- R6 snapshot property, soft failures -----------------
    ctx.rule("C15-R6", "write_buffer property returns the buffer object; soft failures "
                       "include EAGAIN/EINTR/ENOBUFS and do not close", floor=2)
    wb = pc.methods.get("write_buffer")
    ctx.inst("PeerConnection.write_buffer")
    if wb is None or not wb.is_property:
        ctx.error("PeerConnection.write_buffer property not found")
    else:
        rets = [n for n in ast.walk(wb.node) if isinstance(n, ast.Return)]
        if not (len(rets) == 1 and A.dotted(rets[0].value) == f"self.{BUF}"):
            ctx.fail("PeerConnection.write_buffer", wb.loc(),
                     f"write_buffer must return self.{BUF} unchanged")
    # queued messages are not cut off by a close that only looks at the buffer
    from . import c18
    ctx.include(c18.run, {"C18-R3"}, "C15-R7",
                "the I/O loop closes a CLOSING connection only when neither bytes in the buffer nor "
                "messages on their way to it remain (every queued message is handed to the "
                "transport exactly once)", floor=4,
                constructs=lambda c: "queued" in c or "task_done" in c or "clean-close" in c)
    ctx.cur("C15-R6")
    ctx.inst("SOFT_SOCKET_FAILURES")
    try:
        soft = model.fold_name(node, "SOFT_SOCKET_FAILURES")
    except Exception as e:
        soft = None
    names = {v.qual for v in (soft or ()) if isinstance(v, Opaque)}
    need = {"errno.EAGAIN", "errno.EINTR", "errno.ENOBUFS"}
    if soft is None or not need <= names:
        ctx.fail("SOFT_SOCKET_FAILURES", node.relpath + ":1",
                 f"SOFT_SOCKET_FAILURES lacks {sorted(need - names)}: a transient send "
                 f"failure would close the connection and lose queued bytes")

    # ... and the I/O loop consults it: where a recv()/send() failure makes it close the
    # connection, the errno has been looked up in SOFT_SOCKET_FAILURES and is not in it.  (The
    # classes BlockingIOError / InterruptedError cover EAGAIN and EINTR only: ENOBUFS and ENOSR -
    # the transient "no buffer space" of a loaded host - have no class of their own.)
    nc_ = model.cls("node.node", "Node")
    hc_ = nc_.methods.get("_handle_connections")
    if hc_ is None:
        ctx.error("Node._handle_connections not found")
        return
    par_ = A.parents(hc_.node)
    n_io = 0
    for tr in [x for x in A.walk_no_nested(hc_.node) if isinstance(x, ast.Try)]:
        io = [c for b in tr.body for c in ast.walk(b) if isinstance(c, ast.Call) and isinstance(c.func, ast.Attribute)
              and c.func.attr in ("send", "sctp_send", "sendall", "sendmsg", "recv", "recv_into", "recvmsg",
                                  "recvfrom", "sctp_recv")]
        if not io:
            continue
        n_io += 1
        what = io[0].func.attr
        cons = f"_handle_connections:{'recv' if 'recv' in what else 'send'}-failure#soft-set-consulted"
        ctx.inst(cons)
        for h in tr.handlers:
            for c in [c for b in h.body for c in ast.walk(b) if isinstance(c, ast.Call)
                      and (A.call_name(c).endswith(".close") or A.call_name(c) == "self.close_connection_socket")]:
                ok = False
                cur = c
                while cur in par_ and cur is not h:
                    p_ = par_[cur]
                    if isinstance(p_, ast.If) and "SOFT_SOCKET_FAILURES" in ast.unparse(p_.test):
                        t = p_.test
                        flip = False
                        while isinstance(t, ast.UnaryOp) and isinstance(t.op, ast.Not):
                            t, flip = t.operand, not flip
                        neg = isinstance(t, ast.Compare) and isinstance(t.ops[0], ast.NotIn)
                        pos = isinstance(t, ast.Compare) and isinstance(t.ops[0], ast.In)
                        if flip:
                            neg, pos = pos, neg
                        in_body = any(cur is b or cur in list(ast.walk(b)) for b in p_.body)
                        if (pos and not in_body) or (neg and in_body):
                            ok = True
                    cur = p_
                if not ok:
                    ctx.fail(cons, hc_.loc(c), f"a failed {what}() closes the connection (`{ast.unparse(c)[:50]}`) "
                             f"without the errno having been found outside SOFT_SOCKET_FAILURES: a transient "
                             f"failure such as ENOBUFS / ENOSR (no exception class of its own) is treated as fatal, "
                             f"the connection is closed and the bytes still queued for it are never sent",
                             expected="close only under `errno not in SOFT_SOCKET_FAILURES`")
                    break
    if n_io < 2:
        ctx.error(f"only {n_io} try statements around recv()/send() found in _handle_connections (expected >= 2)")


def _shape(st: ast.stmt, recv: str):
    """Classify a store statement to <recv>._write_buffer."""
    me = f"{recv}.{BUF}"
    if isinstance(st, ast.AugAssign):
        if isinstance(st.op, ast.Add):
            return "append", st.value
        return "other", f"augmented {type(st.op).__name__}"
    if isinstance(st, (ast.Assign, ast.AnnAssign)) and st.value is not None:
        v = st.value
        if isinstance(v, ast.BinOp) and isinstance(v.op, ast.Add) and A.dotted(v.left) == me:
            return "append", v.right
        if isinstance(v, ast.Subscript) and A.dotted(v.value) == me \
                and isinstance(v.slice, ast.Slice) and v.slice.lower is not None \
                and v.slice.upper is None and v.slice.step is None:
            return "drop-prefix", v.slice.lower
        if isinstance(v, ast.BinOp) and isinstance(v.op, ast.Add) and A.dotted(v.right) == me:
            return "other", "prepends to the buffer"
        return "other", "value is not derived from the old buffer by append/drop-prefix"
    return "other", type(st).__name__


def _single_def(func_node, name: str):
    defs = []
    for n in A.walk_no_nested(func_node):
        if isinstance(n, (ast.Assign, ast.AnnAssign)) and getattr(n, "value", None) is not None:
            for t in A.store_targets(n):
                if isinstance(t, ast.Name) and t.id == name:
                    defs.append(n)
    return defs


def _resolve_operand(site, operand: ast.expr):
    """Follow a single-assignment local:  data = msg.as_bytes(); buf += data."""
    enc_stmt = site.stmt
    for _ in range(3):
        if isinstance(operand, ast.Name):
            defs = _single_def(site.func.node, operand.id)
            if len(defs) != 1:
                break
            enc_stmt = defs[0]
            operand = defs[0].value
        else:
            break
    return operand, enc_stmt


def _operand_is_dequeued_msg(site, operand: ast.expr):
    operand, _ = _resolve_operand(site, operand)
    if not (isinstance(operand, ast.Call) and isinstance(operand.func, ast.Attribute)
            and operand.func.attr == "as_bytes" and not operand.args
            and isinstance(operand.func.value, ast.Name)):
        return False, "operand is not a call <name>.as_bytes()"
    var = operand.func.value.id
    fn = site.func.node

    def is_get(d):
        return (isinstance(d, ast.Call) and isinstance(d.func, ast.Attribute)
                and d.func.attr in ("get", "get_nowait")
                and A.dotted(d.func.value) == f"self.{QUEUE}")

    def from_get(e):
        if is_get(e):
            return True
        if isinstance(e, ast.Name):
            ds = [d.value for d in _single_def(fn, e.id)]
            return len(ds) == 1 and is_get(ds[0])
        return False
    defs = [d.value for d in _single_def(fn, var)]
    if not defs:
        # `for var in batch:` over a local list that holds nothing but messages taken from the
        # queue, in the order they were taken (list display + append only)
        loops = [x for x in ast.walk(fn) if isinstance(x, ast.For) and isinstance(x.target, ast.Name)
                 and x.target.id == var and isinstance(x.iter, ast.Name)]
        if len(loops) == 1:
            lst = loops[0].iter.id
            ldefs = [d.value for d in _single_def(fn, lst)]
            ok = len(ldefs) == 1 and isinstance(ldefs[0], ast.List) and all(from_get(e) for e in ldefs[0].elts)
            for x in ast.walk(fn):
                if isinstance(x, ast.Call) and isinstance(x.func, ast.Attribute) \
                        and isinstance(x.func.value, ast.Name) and x.func.value.id == lst:
                    if x.func.attr == "append" and len(x.args) == 1 and from_get(x.args[0]):
                        continue
                    ok = False
                elif isinstance(x, (ast.Subscript, ast.Delete)) and lst in ast.unparse(x) \
                        and isinstance(getattr(x, "ctx", None), (ast.Store, ast.Del)):
                    ok = False
            if ok:
                return True, ""
            return False, f"{var} iterates over `{lst}`, which is not a list of messages taken from self.{QUEUE} in order"
    if len(defs) != 1:
        return False, f"{var} has {len(defs)} definitions"
    d = defs[0]
    if not is_get(d):
        return False, f"{var} is not taken from self.{QUEUE}.get(...)"
    return True, ""


def _check_removal(ctx: Ctx, c, cons: str):
    """c: call site  <conn>.remove_out_bytes(<n>)."""
    model = ctx.model
    g = cfg_of(c.func)
    conn = c.receiver
    args = c.node.args
    if len(args) != 1 or c.node.keywords and len(args) + len(c.node.keywords) != 1:
        ctx.fail(cons, c.where, "unexpected arguments to the remover")
        return
    arg = args[0] if args else c.node.keywords[0].value
    if not isinstance(arg, ast.Name):
        ctx.fail(cons, c.where, f"removed count `{ast.unparse(arg)}` is not the variable "
                 f"holding the send result")
        return
    # definitions of the count variable
    send_nodes = []
    other_defs = []
    for n in g.nodes:
        if n.kind != "stmt":
            continue
        for t in n.stores():
            if isinstance(t, ast.Name) and t.id == arg.id:
                v = getattr(n.ast, "value", None)
                if isinstance(v, ast.Call) and isinstance(v.func, ast.Attribute) \
                        and v.func.attr in ("send", "sctp_send") and v.args \
                        and A.dotted(v.args[0]) == f"{conn}.write_buffer":
                    send_nodes.append(n)
                else:
                    other_defs.append(n)
    if other_defs:
        n = other_defs[0]
        ctx.fail(cons, g.loc(n), f"`{arg.id}` is also assigned by `{n.text(80)}`, which is not "
                 f"the send of {conn}.write_buffer")
        return
    if not send_nodes:
        ctx.fail(cons, c.where, f"`{arg.id}` is never assigned from "
                 f"<socket>.send({conn}.write_buffer)")
        return
    target = [n for n in g.nodes if c.node in n.calls()]
    if not target:
        raise AnalysisError("remover call not found in CFG")
    target = target[0]
    # on every path of the enclosing loop iteration the remove is preceded by a
    # *completed* send: cut the iteration at the loop head
    heads = [n for n in g.nodes if n.kind == "iter" and g.can_reach(n, target)
             and any(s in g.reach([n], blocked=[]) for s in send_nodes)]
    inner = None
    for h in heads:
        # innermost loop containing both
        body_first = [d for l, d in h.succ if l == "iter"][0]
        r = g.reach([body_first], blocked=[h])
        if target in r and all(s in r for s in send_nodes):
            if inner is None or h.line > inner.line:
                inner = h
    start = [d for l, d in inner.succ if l == "iter"][0] if inner else g.entry
    r = g.reach([start], normal_blocked=send_nodes, blocked=[inner] if inner else [])
    if target in r:
        ctx.fail(cons, c.where,
                 f"{conn}.remove_out_bytes({arg.id}) is reachable in a loop iteration "
                 f"without a completed send of {conn}.write_buffer (e.g. through a "
                 f"send-failure handler): bytes the socket never accepted are dropped",
                 steps=[f"{g.loc(s)}: {s.text(80)}" for s in send_nodes])
    # at most one removal per completed send
    for s in send_nodes:
        after = g.reach([s], blocked=[inner] if inner else [], include_starts=False)
        rem = [n for n in after if any(isinstance(x.func, ast.Attribute)
                                       and x.func.attr == c.node.func.attr for x in n.calls())]
        if len(rem) > 1:
            ctx.fail(cons + "#twice", g.loc(rem[1]),
                     "more than one removal follows a single send in one iteration")
