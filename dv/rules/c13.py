"""C13 - peer/connection tables and application readiness stay consistent."""
from __future__ import annotations

import ast

from ..report import Ctx
from ..srcmodel import AnalysisError
from ..cfg import cfg_of
from ..atoms import Atomizer, must_facts
from .. import astutil as A
from .common_node import (closed_connections_are_removed, connection_table_pairing,
                          disconnect_record,
                          peer_connection_ownership)

TECHNIQUE = "resource pairing over the connection tables + ownership (contradiction) rule + CFG dominance"
EXPLANATION = (
    "Pairing/ownership analysis of node.py: every table into which _add_peer_connection "
    "enters a connection (discovered from its stores) has a delete in remove_peer_connection "
    "that is guarded by nothing but membership; every close of a connection object reaches "
    "the removal (signalled to the I/O loop or on the same path); Peer.connection is set only "
    "when unset and cleared only by its owner (both sides of the contradiction rule); the "
    "disconnect record is written where the owner is cleared and reset where a connection is "
    "assigned; assignment precedes the ready flag; readiness is set per matching peer and "
    "recomputed over the peers of an application merged across realms.")
ASSUMPTIONS = [
    "not decided: the invariant at every quiescent point of every history; decided are the pairing "
    "obligations without which it cannot hold",
    "socket objects are closed by socket.close(); the OS reuses file numbers",
]


def _node(ctx):
    return ctx.model.cls("node.node", "Node")


def run(ctx: Ctx):
    model = ctx.model
    from .common_node import names_resolve
    names_resolve(ctx, "C13-RN")
    from .common_node import taken_socket_is_closed
    taken_socket_is_closed(ctx, "C13-R15")
    from .common_node import identity_semantics
    identity_semantics(ctx, "C13-R14")
    nc = _node(ctx)
    add = nc.methods.get("_add_peer_connection")
    rem = nc.methods.get("remove_peer_connection")
    ccs = nc.methods.get("close_connection_socket")
    asg = nc.methods.get("_assign_peer_connection")
    for nm, f in (("_add_peer_connection", add), ("remove_peer_connection", rem),
                  ("close_connection_socket", ccs), ("_assign_peer_connection", asg)):
        if f is None:
            raise AnalysisError(f"Node.{nm} not found")
    ctx.use(add, rem, ccs, asg)
    conn_param = [a.arg for a in add.node.args.args][1]

    connection_table_pairing(ctx, "C13-R1")

    # ---------------- R2 closes reach the removal -----------------------------
    closed_connections_are_removed(ctx, "C13-R2")
    ctx.rule("C13-R2b", "close_connection_socket closes the socket, the connection object and "
                        "always removes the connection", floor=1)
    g = cfg_of(ccs)
    cparam = [a.arg for a in ccs.node.args.args][1]
    remv = [n for n in g.nodes if n.kind == "stmt" and any(
        A.call_name(c) == "self.remove_peer_connection" and c.args
        and A.dotted(c.args[0]) == cparam for c in n.calls())]
    ctx.inst("close_connection_socket:removes")
    if not remv or not g.dominated(g.exit, remv):
        ctx.fail("close_connection_socket:removes", ccs.loc(), "close_connection_socket does not "
                 "call remove_peer_connection on every path")
    sock_close = [n for n in g.nodes if n.kind == "stmt" and any(
        isinstance(c.func, ast.Attribute) and c.func.attr == "close"
        and "socket" in ast.unparse(c.func.value) for c in n.calls())]
    conn_close = [n for n in g.nodes if n.kind == "stmt" and any(
        A.call_name(c) == f"{cparam}.close" for c in n.calls())]
    ctx.inst("close_connection_socket:closes")
    if not sock_close:
        ctx.fail("close_connection_socket:closes", ccs.loc(), "the peer socket is never closed")
    else:
        atc = Atomizer(model, ccs.module, nc)
        facts = must_facts(g, atc, sock_close[0])
        sv = ast.unparse([c for c in sock_close[0].calls() if isinstance(c.func, ast.Attribute)
                          and c.func.attr == "close"][0].func.value)
        extra = [f_ for f_ in facts if f_[0] != sv]
        if extra:
            ctx.fail("close_connection_socket:closes#conditional", g.loc(sock_close[0]),
                     f"the socket is only closed under {extra}: when the connection object closed "
                     f"itself first (garbage on the wire, write error, lost election) the tables are "
                     f"cleaned but the socket stays open")
    if not conn_close:
        ctx.fail("close_connection_socket:closes#conn", ccs.loc(), "the connection object (and its "
                 "two worker threads) is never closed")

    peer_connection_ownership(ctx, "C13-R3")
    disconnect_record(ctx, "C13-R4")
    g = cfg_of(rem)
    clears = [n for n in g.nodes if n.kind == "stmt" and isinstance(n.ast, ast.Assign)
              and any(isinstance(t, ast.Attribute) and t.attr == "connection" for t in n.ast.targets)]

    # ---------------- R5 readiness ----------------------------------------------
    ctx.rule("C13-R5", "assignment precedes the ready flag; readiness is set per matching peer "
                       "and recomputed over all of an application's peers", floor=4)
    for nm in ("receive_cer", "receive_cea"):
        f = nc.methods.get(nm)
        if f is None:
            ctx.error(f"Node.{nm} not found")
            continue
        ctx.use(f)
        g2 = cfg_of(f)
        a_nodes = [n for n in g2.nodes if n.has_call("_assign_peer_connection")]
        r_nodes = [n for n in g2.nodes if n.has_call("_flag_connection_as_ready")]
        cons = f"Node.{nm}:assign-before-ready"
        ctx.inst(cons)
        if not r_nodes:
            ctx.fail(cons, f.loc(), f"{nm} never flags the connection as ready")
        for r in r_nodes:
            if not g2.dominated(r, a_nodes):
                ctx.fail(cons, g2.loc(r), "the connection is flagged ready before it is assigned "
                         "to its peer: applications are told ready while Peer.connection is unset")
    rc = nc.methods.get("receive_cer")
    if rc is not None:
        g3 = cfg_of(rc)
        at3 = Atomizer(model, rc.module, nc)
        cpar = [a.arg for a in rc.node.args.args][1]
        hi = [n for n in g3.nodes if n.kind == "stmt" and any(
            A.dotted(t) == f"{cpar}.host_identity" for t in n.stores())]
        cons = "receive_cer:identity-is-the-table-key"
        ctx.inst(cons)
        for n in hi:
            v = A.dotted(n.ast.value)
            facts = must_facts(g3, at3, n)
            if not any(f_[1] == "in-expr" and f_[2] == "self.peers" and f_[3] and f_[0] == v for f_ in facts):
                ctx.fail(cons, g3.loc(n), f"the connection's host identity is set to "
                         f"`{ast.unparse(n.ast.value)}`, which is not the key that was found in "
                         f"self.peers: _assign_peer_connection looks the peer up under host_identity "
                         f"and silently returns for a differently spelled (e.g. mixed-case) "
                         f"Origin-Host - Peer.connection stays unset although the connection is ready")
    # writer/reader agreement of Node.peers: stored under the very name the Peer carries
    ap = nc.methods.get("add_peer")
    cons = "add_peer:table-key-is-node-name"
    ctx.inst(cons)
    if ap is None:
        ctx.error("Node.add_peer not found")
    else:
        ctx.use(ap)
        stores_ = [n for n in A.walk_no_nested(ap.node) if isinstance(n, ast.Assign) and any(
            isinstance(t, ast.Subscript) and A.dotted(t.value) == "self.peers" for t in n.targets)]
        if not stores_:
            ctx.fail(cons, ap.loc(), "add_peer does not store the peer in self.peers")
        for st in stores_:
            key = [t for t in st.targets if isinstance(t, ast.Subscript)][0].slice
            ktxt = A.resolve_local_chain(ap.node, key)
            # the stored value: Peer(...) directly or a single-assignment local
            val = st.value
            if isinstance(val, ast.Name):
                defs_ = [n.value for n in A.walk_no_nested(ap.node) if isinstance(n, ast.Assign)
                         and len(n.targets) == 1 and A.dotted(n.targets[0]) == val.id]
                val = defs_[0] if len(defs_) == 1 else val
            nn = None
            if isinstance(val, ast.Call) and A.call_name(val).split(".")[-1] == "Peer":
                for k in val.keywords:
                    if k.arg == "node_name":
                        nn = A.resolve_local_chain(ap.node, k.value)
                if nn is None and val.args:
                    nn = A.resolve_local_chain(ap.node, val.args[0])
            if nn is None or nn != ktxt:
                ctx.fail(cons, ap.loc(st), f"the peer is stored in self.peers under `{ktxt}` but carries "
                         f"node_name `{nn}`: every reader (_find_connection_peer, _add_peer_connection, "
                         f"_assign_peer_connection) looks it up under its node_name / the connection's "
                         f"node_name, so for some names (e.g. with upper-case letters) Peer.connection "
                         f"is never bound although a live connection exists")
    flag = nc.methods.get("_flag_connection_as_ready")
    if flag is None:
        raise AnalysisError("Node._flag_connection_as_ready not found")
    ctx.use(flag)
    g2 = cfg_of(flag)
    at2 = Atomizer(model, flag.module, nc)
    fparam = [a.arg for a in flag.node.args.args][1]
    sets = [n for n in g2.nodes if n.kind == "stmt" and any(
        A.call_name(c).endswith(".is_ready.set") for c in n.calls())]
    ctx.inst("_flag_connection_as_ready:set")
    if not sets:
        ctx.fail("_flag_connection_as_ready:set", flag.loc(), "no application is ever flagged ready")
    for s in sets:
        def pred(a):
            if a.op == "==x" and fparam in (a.subject, a.value) and \
                    (a.subject.endswith(".connection") or str(a.value).endswith(".connection")):
                return True
            if a.op == "is-expr" and a.subject.endswith(".connection") and a.value == fparam:
                return True
            return None
        if not at2.guarded(g2, s, pred):
            ctx.fail("_flag_connection_as_ready:set", g2.loc(s), "an application is flagged ready "
                     "without one of its peers owning this connection")
        # ... and with nothing more: "ready whenever at least one of its configured peers has a ready
        # connection" - the flag is set under the ownership test (and the Application type test of
        # the route table's keys) alone; a further condition (the negotiated application ids, a
        # vendor, a counter) leaves an application not ready although its peer's connection is
        fs = must_facts(g2, at2, s)
        extra = [x for x in fs if not (
            (x[1] in ("==x", "is-expr") and (str(x[0]).endswith(".connection") or str(x[2]).endswith(".connection")))
            or str(x[0]).replace(" ", "").startswith("isinstance(")
            or (x[0] == f"{fparam}.state"))]
        ctx.inst("_flag_connection_as_ready:set#unconditional")
        if extra:
            ctx.fail("_flag_connection_as_ready:set#unconditional", g2.loc(s),
                     f"an application is flagged ready only under {sorted(map(str, extra))[:3]}: with that "
                     f"condition false (e.g. a relay agent, whose CER/CEA advertises only the Relay application) "
                     f"the connection of a configured peer is READY and bound to the peer, but is_ready is never "
                     f"set and wait_for_ready() blocks",
                     expected="is_ready.set() under `peer.connection == conn` alone", observed=str(extra)[:200])
    if "_peer_routes" not in ast.unparse(flag.node):
        ctx.fail("_flag_connection_as_ready:set#routes", flag.loc(), "readiness does not consult the route table")
    # recomputation in remove_peer_connection
    g = cfg_of(rem)
    clears_ready = [n for n in g.nodes if n.kind == "stmt" and any(
        A.call_name(c).endswith(".is_ready.clear") for c in n.calls())]
    cons = "remove_peer_connection:readiness"
    ctx.inst(cons)
    if not clears_ready:
        ctx.fail(cons, rem.loc(), "an application is never flagged not-ready when its last "
                 "connection goes")
    else:
        # per-realm taint
        tainted = set()
        for n in A.walk_no_nested(rem.node):
            if isinstance(n, ast.For) and "_peer_routes" in ast.unparse(n.iter):
                t = n.target
                for e in ([t] if isinstance(t, ast.Name) else getattr(t, "elts", [])):
                    if isinstance(e, ast.Name):
                        tainted.add(e.id)
        par = A.parents(rem.node)
        for c in clears_ready:
            x = c.ast
            while x in par:
                x = par[x]
                if isinstance(x, ast.For):
                    it = x.iter
                    root = it
                    while isinstance(root, (ast.Call, ast.Attribute)):
                        root = root.func if isinstance(root, ast.Call) else root.value
                    if "_peer_routes" in ast.unparse(it) or \
                            (isinstance(root, ast.Name) and root.id in tainted):
                        ctx.fail(cons, g.loc(c),
                                 f"readiness is evaluated inside a loop over one realm's route "
                                 f"entry (`{ast.unparse(it)}`): an application with ready peers in "
                                 f"another realm is flagged not ready")
                        break
            # guarded by "no peer ready" flag computed from state in READY
            at = Atomizer(model, rem.module, nc)
        src = ast.unparse(rem.node)
        if "PEER_READY_STATES" not in src:
            ctx.fail(cons + "#states", rem.loc(), "readiness recomputation does not look at the ready states")
        # every removal recomputes: no normal return of remove_peer_connection goes round the
        # recomputation loop (the connection's own state says nothing - close_connection_socket
        # has set it to CLOSED / it was DISCONNECTING after a DPR before the removal runs)
        outer = None
        x = clears_ready[0].ast
        while x in par:
            x = par[x]
            if isinstance(x, ast.For):
                outer = x
        loopn = [n for n in g.nodes if n.kind == "iter" and n.ast is outer]
        ctx.inst(cons + "#always")
        if not loopn or not g.dominated(g.exit, loopn, effect=False):
            ctx.fail(cons + "#always", g.loc(loopn[0]) if loopn else rem.loc(),
                     "remove_peer_connection can return without recomputing application readiness "
                     "(early return / condition in front of the recomputation): an application "
                     "whose last configured peer has just lost its connection keeps reporting ready")
        # the recomputation happens after the owner clear
        if clears and not all(g.can_reach(c, clears_ready[0]) for c in clears):
            ctx.fail(cons + "#order", rem.loc(), "readiness is recomputed before Peer.connection is cleared")
    # an application registered when one of its peers is ready already reports ready
    ctx.cur("C13-R5")
    aa = nc.methods.get("add_application")
    cons_a = "add_application:readiness"
    ctx.inst(cons_a)
    if aa is None:
        ctx.error("Node.add_application not found", rule="C13-R5")
    else:
        ga = cfg_of(aa)
        sets_ = [n for n in ga.nodes if n.kind == "stmt" and any(
            A.call_name(c).endswith(".is_ready.set") for c in n.calls())]
        looks = "PEER_READY_STATES" in ast.unparse(aa.node) or "PEER_READY" in ast.unparse(aa.node)
        if not sets_ or not looks:
            ctx.fail(cons_a, aa.loc(), "add_application never evaluates readiness: it is only set when a "
                     "connection completes its capabilities exchange and cleared when one is removed, "
                     "so an application registered for a peer that is connected already never reports "
                     "ready (wait_for_ready fails) although requests are routed to that peer")
    # a second connection of an already connected peer is detected (election / refusal)
    ctx.rule("C13-R9", "receive_cer recognises the other connections of the same peer by their "
                       "peer identity", floor=1)
    rc_ = nc.methods.get("receive_cer")
    cons = "receive_cer:election-compares-local-name"
    ctx.inst(cons)
    if rc_ is not None:
        ctx.use(rc_)
        # attributes of a connection that hold the LOCAL identity (stored from self.origin_host)
        local_attrs = set()
        for fn_ in nc.all_funcs:
            for x in A.walk_no_nested(fn_.node):
                if isinstance(x, ast.Assign) and A.dotted(x.value) == "self.origin_host":
                    for t in x.targets:
                        if isinstance(t, ast.Attribute):
                            local_attrs.add(t.attr)
        comps = [x for x in ast.walk(rc_.node) if isinstance(x, ast.ListComp)
                 and "self.connections" in ast.unparse(x.generators[0].iter)]
        if not comps:
            ctx.error("receive_cer: no search for other connections of the peer", rule="C13-R9")
        for lc in comps:
            var = lc.generators[0].target.id if isinstance(lc.generators[0].target, ast.Name) else None
            for cond in lc.generators[0].ifs:
                for x in ast.walk(cond):
                    if isinstance(x, ast.Attribute) and isinstance(x.value, ast.Name) and x.value.id == var \
                            and x.attr in local_attrs:
                        ctx.fail(cons, rc_.loc(lc), f"the other connections of the CER's sender are "
                                 f"searched with `{ast.unparse(cond)}`: `{var}.{x.attr}` holds this "
                                 f"node's own name (it is stored from self.origin_host), so the search "
                                 f"never finds anything - a second connection from an already "
                                 f"connected peer is accepted and becomes READY next to the first; "
                                 f"Peer.connection keeps the first one, and when that closes the peer "
                                 f"counts as disconnected (application not ready, peer dialled again) "
                                 f"although the second connection lives")
    # the peer/readiness record is written from several threads: under a common lock?
    ctx.rule("C13-R10", "Peer.connection and Application.is_ready are written under a common lock "
                        "by the reader threads (handshake completion) and the node thread (removal)",
             floor=2)
    from .c14 import _contexts
    from ..effects import fault_effects_of
    from ..lockset import held_locks
    cx = _contexts(model, fault_effects_of(model))
    for what, pred in (("Peer.connection", lambda n: isinstance(n, ast.Assign) and any(
            isinstance(t, ast.Attribute) and t.attr == "connection" for t in n.targets)),
            ("Application.is_ready", lambda n: isinstance(n, ast.Call) and isinstance(n.func, ast.Attribute)
             and n.func.attr in ("set", "clear") and A.dotted(n.func.value).endswith(".is_ready"))):
        sites = []
        for fn_ in nc.all_funcs:
            for n in A.walk_no_nested(fn_.node):
                if pred(n):
                    sites.append((fn_, n))
        ctxs = set()
        for fn_, n in sites:
            ctxs |= cx.get(id(fn_.node), {"api"})
        common = None
        for fn_, n in sites:
            h = set(held_locks(fn_, n))
            common = h if common is None else (common & h)
        cons = f"{what}:unsynchronised-writers"
        ctx.inst(cons, sample={"writers": sorted({f_.qualname for f_, _ in sites}),
                               "thread_contexts": sorted(ctxs), "common_lock": sorted(common or [])})
        if len(ctxs - {"api"}) > 1 and not common:
            ctx.fail(cons, sites[0][0].loc(sites[0][1]), f"{what} is written by "
                     f"{sorted({f_.qualname for f_, _ in sites})} in the thread contexts {sorted(ctxs)} "
                     f"without a common lock: a CER/CEA being completed on a connection's reader thread "
                     f"while the node thread removes that connection leaves the closed connection as the "
                     f"peer's (ready) connection, and a readiness recomputation racing with a handshake "
                     f"completion clears is_ready although a peer is ready - at the next quiescent point "
                     f"the tables are inconsistent and stay so")
    from .common_node import connect_failure_closes
    connect_failure_closes(ctx, "C13-R7")
    from .common_node import ready_state_stores
    ready_state_stores(ctx, "C13-R8")
    # a closed connection leaves the tables when the I/O loop acts on its wake-up: the id the
    # connection writes to the self-pipe and the id the loop reads are the same size
    from .common_node import wakeup_tokens_all_handled
    wakeup_tokens_all_handled(ctx, "C13-R11")
    # writer, readers and purge of the flat transaction tables agree on the key
    from .common_node import transaction_table_keys
    transaction_table_keys(ctx, "C13-R12")
    from .common_node import close_is_thread_tolerant
    close_is_thread_tolerant(ctx, "C13-R13")
