"""C18 - graceful shutdown: DPR to ready peers, drain, refuse newcomers, stop all threads."""
from __future__ import annotations

import ast

from ..report import Ctx
from ..srcmodel import AnalysisError
from ..cfg import cfg_of
from ..atoms import Atomizer, must_facts
from ..lockset import call_sites
from .. import astutil as A
from .common_node import closed_connections_are_removed

TECHNIQUE = "CFG ordering/dominance of the stop sequence, must-facts of the close sites of the I/O " \
            "loop, ownership analysis of constructed connection objects"
EXPLANATION = (
    "Shape of the shutdown decided on the CFGs of node.py: Node.stop checks its life-cycle "
    "flags, sets _stopping before anything else, sends a DPR to every connection whose state "
    "is in PEER_READY_STATES unless forced, waits in a loop bounded by wait_timeout, then stops "
    "and joins the I/O and statistics threads, closes every listening socket and stops every "
    "application - in that order, on every path. The I/O loop closes a connection cleanly only "
    "when it is CLOSED, or CLOSING with an empty write buffer (pending output is flushed "
    "first), at the three places where that can become true; its stop branch closes every "
    "connection and its workers. _stopping guards the registration of new connections (the "
    "newcomer's socket and workers are closed), the timers and the reconnect pass. Every "
    "constructed PeerConnection is either registered or closed on every path.")
ASSUMPTIONS = [
    "not decided: DPA timing, races between stop() and the I/O loop other than snapshot iteration (C14)",
    "StoppableThread.stop()/join() semantics; socket.close() closes",
]


from .common_node import clock_sources


from .common_node import wake_fail


def run(ctx: Ctx):
    model = ctx.model
    from .common_node import names_resolve
    names_resolve(ctx, "C18-RN")
    from .common_node import taken_socket_is_closed
    taken_socket_is_closed(ctx, "C18-R10")
    from .recvmsg import received_messages_reach_dispatch
    received_messages_reach_dispatch(ctx, "C18-R9d", answers=True, requests=False)
    nc = model.cls("node.node", "Node")
    peer_mod = model.module("node.peer")
    P = lambda n: model.fold_name(peer_mod, n)
    READY = frozenset(P("PEER_READY_STATES"))

    # ---------------- R1 stop sequence ------------------------------------------------------
    ctx.rule("C18-R1", "Node.stop: guards, _stopping first, DPR to every ready connection unless "
                       "forced, bounded wait, then threads, listening sockets, applications", floor=8)
    f = nc.methods.get("stop")
    if f is None:
        raise AnalysisError("Node.stop not found")
    ctx.use(f)
    g = cfg_of(f)
    at = Atomizer(model, f.module, nc)
    params = [a.arg for a in f.node.args.args]
    force = "force" if "force" in params else None
    wt = "wait_timeout" if "wait_timeout" in params else None
    stopping = [n for n in g.nodes if n.kind == "stmt" and isinstance(n.ast, ast.Assign)
                and any(A.dotted(t) == "self._stopping" for t in n.ast.targets)
                and model.try_fold(n.ast.value, f.module) is True]
    cons = "stop:sets-stopping-first"
    ctx.inst(cons)
    effects = [n for n in g.nodes if n.kind in ("stmt", "iter") and (
        n.has_call("send_dpr") or n.has_call("stop") or n.has_call("close") or n.has_call("join")
        or n.has_call("sleep"))]
    if len(stopping) != 1:
        ctx.fail(cons, f.loc(), "stop() does not set _stopping exactly once")
    else:
        for e in effects:
            if not g.dominated(e, stopping):
                ctx.fail(cons, g.loc(e), f"`{e.text(60)}` can run before _stopping is set: new "
                         f"connections are still accepted, watchdogs sent and peers dialled while "
                         f"the node shuts down")
                break
        facts = must_facts(g, at, stopping[0])
        if ("self._started", "truthy", None, True) not in facts or ("self._stopping", "truthy", None, False) not in facts:
            ctx.fail(cons + "#guards", g.loc(stopping[0]), "stop() does not refuse to run on a node "
                     "that was not started / is already stopping")
    dprs = [n for n in g.nodes if n.kind == "stmt" and any(A.call_name(c) == "self.send_dpr" for c in n.calls())]
    cons = "stop:dpr-to-ready"
    ctx.inst(cons)
    if len(dprs) != 1:
        ctx.fail(cons, f.loc(), f"expected one send_dpr site in stop(), found {len(dprs)}")
    else:
        d = dprs[0]
        c = [c for c in d.calls() if A.call_name(c) == "self.send_dpr"][0]
        cv = A.dotted(c.args[0])
        facts = must_facts(g, at, d)
        if (f"{cv}.state", "in", READY, True) not in facts:
            ctx.fail(cons, g.loc(d), f"the DPR is not sent to every connection whose state is in "
                     f"PEER_READY_STATES (guards: {[x for x in facts if x[0].endswith('.state')]}): a "
                     f"ready peer that is awaiting a DWA gets no DPR, never answers with a DPA, and "
                     f"stop() blocks for the whole wait timeout")
        if force and (force, "truthy", None, False) not in facts:
            ctx.fail(cons + "#force", g.loc(d), "a forced stop still performs the DPR exchange")
        extra = [x for x in facts if x[0] not in (f"{cv}.state", force, "self._started", "self._stopping")]
        # argument validation is no condition of the shutdown: a test that reads nothing but the
        # call's own arguments, and whose other side raises before anything has been changed
        # (`if not 0 < poll_interval <= 1: raise ValueError`), refuses the call as a whole
        import re as _re
        params_ = {a.arg for a in f.node.args.args + f.node.args.kwonlyargs} - {"self"}

        def _validation(x):
            names = set(_re.findall(r"[A-Za-z_][A-Za-z_0-9.]*", str(x[0]) + " " + (str(x[2]) if isinstance(x[2], str) else "")))
            names = {n_ for n_ in names if not n_.replace(".", "").isdigit() and n_ not in ("not", "and", "or", "in", "is", "None", "True", "False")}
            if not names or not all(n_.split(".")[0] in params_ for n_ in names):
                return False
            for t in ast.walk(f.node):
                if isinstance(t, ast.If) and t.body and isinstance(t.body[-1], ast.Raise) and not t.orelse \
                        and {y.id for y in ast.walk(t.test) if isinstance(y, ast.Name)} <= params_ \
                        and {y.id for y in ast.walk(t.test) if isinstance(y, ast.Name)}:
                    stores_before = any(isinstance(s_, (ast.Assign, ast.AugAssign)) and any(
                        A.dotted(tt).startswith("self.") for tt in A.store_targets(s_))
                        for s_ in f.node.body[:f.node.body.index(t)] if t in f.node.body)
                    if t in f.node.body and not stores_before:
                        return True
            return False
        extra = [x for x in extra if not _validation(x)]
        if extra:
            ctx.fail(cons + "#extra", g.loc(d), f"the DPR is only sent under {extra}")
        loops = [n for n in g.nodes if n.kind == "iter" and any(x is d for l, x in n.succ if l == "iter")
                 or (n.kind == "iter" and d in g.reach([x for l, x in n.succ if l == "iter"], blocked=[n]))]
        if not loops or "self.connections" not in ast.unparse(loops[0].ast.iter):
            ctx.fail(cons + "#all", g.loc(d), "the DPR is not sent for every connection of the node")
    # connections that have not completed their capabilities exchange when stop() is called get
    # no DPR (there is nobody to take leave of) - they are closed, or they complete the exchange
    # afterwards, are served like on a running node and keep stop() waiting for its timeout
    cons_u = "stop:unfinished-handshakes-closed"
    ctx.inst(cons_u)
    CONNECTING_, CONNECTED_ = P("PEER_CONNECTING"), P("PEER_CONNECTED")
    closes_u = []
    for n in g.nodes:
        for c in n.calls():
            is_close = A.call_name(c) == "self.close_connection_socket" and c.args
            is_conn_close = isinstance(c.func, ast.Attribute) and c.func.attr == "close" and not c.args \
                and isinstance(c.func.value, ast.Name)
            if is_close or is_conn_close:
                cv_ = A.dotted(c.args[0]) if is_close else c.func.value.id
                fx = must_facts(g, at, n)
                if any(f_[0] == f"{cv_}.state" and f_[3] is True and (
                        (f_[1] == "in" and {CONNECTING_, CONNECTED_} <= set(f_[2] if isinstance(f_[2], (set, frozenset, tuple, list)) else ()))
                        or (f_[1] == "==" and f_[2] in (CONNECTING_, CONNECTED_))) for f_ in fx) \
                        or any(f_[0] == f"{cv_}.state" and f_[1] == "in" and f_[3] is False
                               and set(f_[2] if isinstance(f_[2], (set, frozenset, tuple, list)) else ()) >= set(READY) for f_ in fx):
                    closes_u.append((n, [x for x in fx if x[0] not in (f"{cv_}.state", force, "self._started",
                                                                       "self._stopping") and not _validation(x)]))
    if closes_u and all(extra_ for _, extra_ in closes_u):
        n_, extra_ = closes_u[0]
        ctx.fail(cons_u + "#extra", g.loc(n_), f"the connections that have not completed their "
                 f"capabilities exchange are only closed under {extra_}: one the condition leaves out "
                 f"(a dialled connection waiting for its CEA is in no half-ready table) survives the "
                 f"start of the shutdown, is taken into service by a late CEA without ever getting a "
                 f"DPR, and stop() waits its whole timeout",
                 expected="closed on the word of conn.state alone", observed=str(extra_))
    closes_u = [n for n, _ in closes_u]
    if not closes_u:
        ctx.fail(cons_u, f.loc(), "stop() sends DPRs to the ready connections and leaves those that are "
                 "still connecting or waiting for their CER/CEA alone: they complete the exchange "
                 "while the node is stopping, are served, never get a DPR, and stop() waits its whole "
                 "timeout for them (their handshake timers are off while stopping)")
    # ... by the node's own thread: while the I/O thread runs it may be using the socket
    # (getsockopt on a connecting socket, recv, send), so stop() - on the caller's thread - asks
    # for the close (PeerConnection.close) and does not close sockets itself before the I/O
    # thread has been joined
    cons_t = "stop:sockets-closed-by-the-io-thread"
    ctx.inst(cons_t)
    joins = [n for n in g.nodes if any(A.call_name(c) == "self._connection_thread.join" for c in n.calls())]
    for n in g.nodes:
        if any(A.call_name(c) == "self.close_connection_socket" for c in n.calls()) \
                and joins and not g.dominated(n, joins):
            ctx.fail(cons_t, g.loc(n), "stop() closes a connection's socket on the caller's thread while the "
                     "I/O thread is still running: the I/O thread's next call on that socket "
                     "(getsockopt(SO_ERROR) of a connecting socket is not guarded) raises OSError(EBADF) "
                     "and ends the thread - the ready peers get no DPR and stop() waits its whole timeout")
            break
    # bounded wait
    cons = "stop:bounded-wait"
    ctx.inst(cons)
    whiles = [n for n in g.nodes if n.kind == "loop"]
    okw = False
    for w in whiles:
        body = ast.unparse(w.ast)
        if "self.connections" in ast.unparse(w.ast.test) and wt and clock_sources(model, f.module, w.ast, f.cls):
            # a break/exit guarded by  time.time() >= wait_until
            wu = [n for n in g.nodes if n.kind == "stmt" and isinstance(n.ast, ast.Assign)
                  and wt in ast.unparse(n.ast.value) and clock_sources(model, f.module, n.ast.value, f.cls)]
            brk = [n for n in g.nodes if n.kind == "stmt" and isinstance(n.ast, ast.Break)]
            if wu and brk:
                wv = A.dotted(wu[0].ast.targets[0])
                fb = must_facts(g, at, brk[0])
                if any(x[1] == ">" and not x[3] and x[0] == wv for x in fb) or \
                        any(x[1] == ">" and x[3] and x[2] == wv for x in fb):
                    okw = True
    # the drain loop is entered whenever connections exist: what else its condition mentions
    # (an abort flag) is a constant that does not end the wait before it began
    cons_e = "stop:drain-entered"
    ctx.inst(cons_e)
    for w in whiles:
        if "self.connections" not in ast.unparse(w.ast.test):
            continue
        inside = {id(x) for b in w.ast.body for x in ast.walk(b)}

        def _ev(e):
            if isinstance(e, ast.BoolOp):
                vs = [_ev(v) for v in e.values]
                if any(v is None for v in vs):
                    return None
                return all(vs) if isinstance(e.op, ast.And) else any(vs)
            if isinstance(e, ast.UnaryOp) and isinstance(e.op, ast.Not):
                v = _ev(e.operand)
                return None if v is None else not v
            if "self.connections" in ast.unparse(e):
                return True            # the case of interest: connections exist
            if isinstance(e, ast.Constant):
                return bool(e.value)
            if isinstance(e, ast.Name):
                defs = [x.value for x in A.walk_no_nested(f.node)
                        if isinstance(x, ast.Assign) and id(x) not in inside
                        and any(isinstance(t, ast.Name) and t.id == e.id for t in x.targets)]
                vals = {(_ev(d) if isinstance(d, ast.Constant) else None) for d in defs}
                return vals.pop() if len(vals) == 1 else None
            return None
        v = _ev(w.ast.test)
        if v is not True:
            ctx.fail(cons_e, g.loc(w), f"with connections present the drain loop of stop() is entered "
                     f"only if `{ast.unparse(w.ast.test)}` holds, and what it mentions besides the "
                     f"connection table is not a constant that lets it start: connections that are "
                     f"still flushing output (a DPA owed to the peer, a 3010 CEA) are reset instead of "
                     f"being drained until the wait timeout")
    if not okw:
        ctx.fail(cons, f.loc(), "the wait for the connections to close is not bounded by "
                 "wait_timeout (`time.time() >= wait_until` leaving the loop)")
    # the sequence
    seq = [
        ("conn-thread-stop", lambda n: any(A.call_name(c) == "self._connection_thread.stop" for c in n.calls())),
        ("conn-thread-join", lambda n: any(A.call_name(c) == "self._connection_thread.join" for c in n.calls())),
        ("stat-thread-stop", lambda n: any(A.call_name(c) == "self._stat_collect_thread.stop" for c in n.calls())),
        ("stat-thread-join", lambda n: any(A.call_name(c) == "self._stat_collect_thread.join" for c in n.calls())),
    ]
    # a join may be skipped for a thread that was never started (a node whose start() failed
    # before it got to its threads): edges taken when `<thread>.ident is None` / not is_alive()
    def _never_started(a):
        if a.subject in ("self._connection_thread.ident", "self._stat_collect_thread.ident") \
                and a.op == "is" and a.value is None:
            return True
        if a.subject in ("self._connection_thread.is_alive()", "self._stat_collect_thread.is_alive()") \
                and a.op == "truthy":
            return False
        return None
    unstarted = g.guard_edges(lambda t: at.label_when(t, _never_started))

    def _dominated(target, by):
        return target not in g.reach([g.entry], normal_blocked=list(by), blocked_edges=unstarted)
    prev = None
    for name, pred in seq:
        cons = f"stop:{name}"
        ctx.inst(cons)
        ns = [n for n in g.nodes if n.kind == "stmt" and pred(n)]
        if not ns or not _dominated(g.exit, ns):
            ctx.fail(cons, f.loc(), f"stop() can return without {name.replace('-', ' ')}: a node "
                     f"thread survives stop()")
        elif prev and not _dominated(ns[0], prev):
            ctx.fail(cons + "#order", g.loc(ns[0]), f"{name} is not ordered after the previous step")
        if ns and dprs and not g.can_reach(dprs[0], ns[0]):
            ctx.fail(cons + "#before-dpr", g.loc(ns[0]), f"{name} happens before the DPR exchange")
        if ns and name.endswith("-join"):
            # start() marks the node as started before it binds its sockets and starts its
            # threads: a bind that fails leaves a "started" node whose threads never ran, and
            # Thread.join() of a thread that was not started raises RuntimeError - before stop()
            # has closed the listening sockets and stopped the applications
            thr = "self._connection_thread" if name.startswith("conn") else "self._stat_collect_thread"
            fx = must_facts(g, at, ns[0])
            guarded = any((f_[0] == f"{thr}.ident" and f_[1] == "is" and f_[2] is None and f_[3] is False)
                          or (f_[0] == f"{thr}.is_alive()" and f_[1] == "truthy" and f_[3] is True) for f_ in fx)
            ctx.inst(cons + "#only-started")
            if not guarded:
                ctx.fail(cons + "#only-started", g.loc(ns[0]), f"`{ns[0].text(60)}` joins the thread whether or not it "
                         f"was started: on a node whose start() failed half-way (address in use) stop() "
                         f"raises RuntimeError here, the bound sockets stay open, the applications keep "
                         f"running, and every further stop()/start() is refused")
        prev = ns or prev
    for attr, what in (("tcp_sockets", "TCP listening"), ("sctp_sockets", "SCTP listening")):
        cons = f"stop:close({attr})"
        ctx.inst(cons)
        loops = [n for n in g.nodes if n.kind == "iter" and A.dotted(n.ast.iter) == f"self.{attr}"]
        ok = False
        for lp in loops:
            tv = ast.unparse(lp.ast.target)
            body = g.reach([x for l, x in lp.succ if l == "iter"], blocked=[lp])
            if any(any(A.call_name(c) == f"{tv}.close" for c in n.calls()) for n in body) \
                    and g.dominated(g.exit, [lp]):
                ok = True
                if prev and not _dominated(lp, prev):
                    ctx.fail(cons + "#order", g.loc(lp), "listening sockets are closed before the node threads were stopped")
        if not ok:
            ctx.fail(cons, f.loc(), f"stop() does not close every {what} socket")
    cons = "stop:applications"
    ctx.inst(cons)
    loops = [n for n in g.nodes if n.kind == "iter" and A.dotted(n.ast.iter) == "self.applications"]
    ok = False
    for lp in loops:
        tv = ast.unparse(lp.ast.target)
        body = g.reach([x for l, x in lp.succ if l == "iter"], blocked=[lp])
        if any(any(A.call_name(c) == f"{tv}.stop" for c in n.calls()) for n in body) and g.dominated(g.exit, [lp]):
            ok = True
    if not ok:
        ctx.fail(cons, f.loc(), "stop() does not stop every application (their worker threads survive)")
    # ... and stopping an application cannot fail for one whose start() failed half-way (it is
    # registered before it is started): its stop() joins only consumer threads that were started
    ta_ = model.cls("node.application", "ThreadingApplication")
    tstop = ta_.methods.get("stop")
    cons = "ThreadingApplication.stop:join#only-started"
    ctx.inst(cons)
    if tstop is not None:
        ctx.use(tstop)
        gt = cfg_of(tstop)
        att = Atomizer(model, tstop.module, ta_)
        for n in gt.nodes:
            for c in n.calls():
                if isinstance(c.func, ast.Attribute) and c.func.attr == "join" and A.dotted(c.func.value).startswith("self."):
                    thr = A.dotted(c.func.value)
                    fx = must_facts(gt, att, n)
                    if not any((f_[0] == f"{thr}.ident" and f_[1] == "is" and f_[2] is None and f_[3] is False)
                               or (f_[0] == f"{thr}.is_alive()" and f_[1] == "truthy" and f_[3] is True) for f_ in fx):
                        ctx.fail(cons, gt.loc(n), f"`{n.text(50)}` joins a consumer thread whether or not it was started: "
                                 f"an application whose start() failed half-way (registered by add_application "
                                 f"before it is started) makes Node.stop() raise RuntimeError in this join - the "
                                 f"applications after it are never stopped")
                        break

    # ---------------- R2 _stopping guards ------------------------------------------------------
    ctx.rule("C18-R2", "_stopping guards: newcomers are closed, no watchdogs, no dialling", floor=3)
    add = nc.methods.get("_add_peer_connection")
    ctx.use(add)
    ga = cfg_of(add)
    ata = Atomizer(model, add.module, nc)
    cparam, sparam = [a.arg for a in add.node.args.args][1:3]
    regs = [n for n in ga.nodes if n.kind == "stmt" and any(
        isinstance(t, ast.Subscript) and A.dotted(t.value) == "self.connections" for t in n.stores())]
    cons = "_add_peer_connection:refuse-while-stopping"
    ctx.inst(cons)
    if not regs or ("self._stopping", "truthy", None, False) not in must_facts(ga, ata, regs[0]):
        ctx.fail(cons, add.loc(), "a connection that arrives while the node is stopping is still "
                 "registered and served")
    for nm in ("_check_timers", "_reconnect_peers"):
        fn = nc.methods.get(nm)
        cons = f"{nm}:idle-while-stopping"
        ctx.inst(cons)
        if fn is None:
            ctx.error(f"Node.{nm} not found")
            continue
        gg = cfg_of(fn)
        att = Atomizer(model, fn.module, nc)
        acts = [n for n in gg.nodes if n.kind == "stmt" and any(
            A.call_name(c) in ("self.send_dwr", "self.close_connection_socket", "self._connect_to_peer")
            for c in n.calls())]
        for a_ in acts:
            if ("self._stopping", "truthy", None, False) not in must_facts(gg, att, a_):
                ctx.fail(cons, gg.loc(a_), f"`{a_.text(60)}` can run while the node is stopping")
                break

    # the flag itself: stop() sets it on the caller's thread, the I/O thread tests it and acts
    # later (dials, sends a DWR) - test and action are one step only under a common lock
    cons_s = "Node._stopping:check-then-act"
    ctx.inst(cons_s)
    st_f = nc.methods.get("stop")
    set_nodes = [x for x in ast.walk(st_f.node) if isinstance(x, ast.Assign)
                 and any(A.dotted(t) == "self._stopping" for t in x.targets)]
    par_s = A.parents(st_f.node)

    def _locked_in(fn, node):
        par = A.parents(fn.node)
        x = node
        while x in par:
            x = par[x]
            if isinstance(x, ast.With) and any("lock" in ast.unparse(i.context_expr).lower() for i in x.items):
                return ast.unparse(x.items[0].context_expr)
        return None
    set_lock = _locked_in(st_f, set_nodes[0]) if set_nodes else None
    racy = []
    for nm_ in ("_reconnect_peers", "_check_timers", "_add_peer_connection"):
        fn_ = nc.methods.get(nm_)
        if fn_ is None:
            continue
        tests = [x for x in ast.walk(fn_.node) if isinstance(x, ast.If) and "self._stopping" in ast.unparse(x.test)]
        for t_ in tests:
            lk = _locked_in(fn_, t_)
            # the guarded action (dial / DWR / registration) follows the test in the same function
            if lk is None or lk != set_lock:
                racy.append((fn_, t_))
    if set_nodes and racy:
        fn_, t_ = racy[0]
        ctx.fail(cons_s, fn_.loc(t_), f"`self._stopping` is set by stop() on the caller's thread"
                 f"{'' if set_lock is None else ' under ' + set_lock} and tested without that lock in "
                 f"{sorted({f_.name for f_, _ in racy})} on the I/O thread, which acts afterwards: a stop() "
                 f"that begins between the test and the action does not prevent it - a peer is dialled "
                 f"(or a DWR is sent after the DPR) while the node is stopping")
    # ---------------- R3 close sites of the I/O loop -------------------------------------------------
    ctx.rule("C18-R3", "the I/O loop closes cleanly only CLOSED connections or CLOSING ones with an "
                       "empty write buffer, at the interrupt, write-ready and after-send sites; the "
                       "stop branch closes everything", floor=4)
    hc = nc.methods.get("_handle_connections")
    ctx.use(hc)
    gh = cfg_of(hc)
    ath = Atomizer(model, hc.module, nc)
    CLEAN = P("DISCONNECT_REASON_CLEAN_DISCONNECT")
    CLOSING, CLOSED = P("PEER_CLOSING"), P("PEER_CLOSED")
    sites = []
    for n in gh.nodes:
        for c in n.calls():
            if A.call_name(c) == "self.close_connection_socket" and len(c.args) + len(c.keywords) >= 2:
                r = model.try_fold(c.args[1] if len(c.args) > 1 else c.keywords[0].value, hc.module)
                if r == CLEAN:
                    sites.append((n, A.dotted(c.args[0])))
    kinds = set()
    for n, cv in sites:
        facts = must_facts(gh, ath, n)
        tag = "interrupt" if any(x[1] == "==x" and x[3] and "interrupt_read" in x[0] + str(x[2]) for x in facts) else \
            "after-send" if any(isinstance(w, ast.With) for w in n.lexical) else "write-ready"
        closed = (f"{cv}.state", "==", CLOSED, True) in facts
        closing = (f"{cv}.state", "==", CLOSING, True) in facts
        empty = (f"len({cv}.write_buffer)", "==", 0, True) in facts
        cons = f"_handle_connections:clean-close@{tag}{'-closed' if closed else ''}"
        ctx.inst(cons, sample={"where": gh.loc(n), "closed": closed, "closing": closing, "buffer_empty": empty})
        # pending output = bytes in the buffer AND messages not yet appended to it
        queued_none = (f"{cv}.has_queued_messages", "truthy", None, False) in facts
        if not queued_none:
            # the same condition held in a boolean local (`idle = not conn.has_queued_messages`)
            for s_, op_, v_, t_ in facts:
                if op_ == "truthy" and s_.isidentifier():
                    try:
                        a_ = ath.atom(ast.parse(A.resolve_local_chain(hc.node, ast.Name(id=s_, ctx=ast.Load())),
                                                mode="eval").body)
                    except SyntaxError:
                        continue
                    if a_.subject == f"{cv}.has_queued_messages" and a_.op == "truthy" and (t_ != a_.flip) is False:
                        queued_none = True
        # "nothing queued" is read BEFORE "buffer empty" (outside the write lock): the writer
        # appends first and counts the message as done afterwards, so the other order can see an
        # empty buffer, then - after the append and task_done() - an idle queue
        if closing and empty and not closed and queued_none and tag != "after-send":
            ctx.inst(cons + "#order")
            rd_q = [x for x in gh.nodes if x.kind in ("test", "stmt") and x.ast is not None
                    and f"{cv}.has_queued_messages" in x.text(400) and x.kind == "test" or
                    (x.kind == "stmt" and isinstance(x.ast, ast.Assign) and x.ast is not None
                     and f"{cv}.has_queued_messages" in x.text(400))]
            rd_b = [x for x in gh.nodes if x.kind == "test" and x.ast is not None
                    and f"len({cv}.write_buffer)" in x.text(400)]
            heads_ = [x for x in gh.nodes if x.kind in ("loop", "iter")]
            bad = None
            for b_ in rd_b:
                if n not in gh.reach([b_], blocked=heads_):
                    continue
                later_q = [q_ for q_ in rd_q if q_ in gh.reach([b_], blocked=heads_, include_starts=False)
                           and n in gh.reach([q_], blocked=heads_)]
                if later_q:
                    bad = (b_, later_q[0])
            if bad:
                ctx.fail(cons + "#order", gh.loc(bad[0]),
                         f"at this close site the write buffer is found empty BEFORE "
                         f"`{cv}.has_queued_messages` is read: the writer thread can append a message "
                         f"and count it as done between the two reads, and the connection is closed "
                         f"with that message still in the buffer")
        if closing and empty and not closed and not queued_none:
            ctx.fail(cons + "#queued", gh.loc(n),
                     f"a CLOSING connection is closed as soon as its write buffer is empty, without "
                     f"requiring `not {cv}.has_queued_messages`: a message still in the connection's "
                     f"queue (or taken from it by the writer thread but not yet appended) is lost - "
                     f"e.g. the DWA of a DWR that is immediately followed by the DPA, or the 3010 CEA")
        if not (closed or (closing and empty)):
            ctx.fail(cons, gh.loc(n),
                     f"the connection is closed cleanly without requiring `state == CLOSED` or "
                     f"(`state == CLOSING` and an empty write buffer): the socket is closed while "
                     f"output (e.g. the answer still queued behind a DPA, or the 3010 CEA) has not "
                     f"been flushed")
        elif closing:
            kinds.add(tag)
    cons = "_handle_connections:closing-sites"
    ctx.inst(cons, sample=sorted(kinds))
    missing = {"interrupt", "write-ready", "after-send"} - kinds
    if missing:
        ctx.fail(cons, hc.loc(), f"a CLOSING connection whose buffer has drained is not closed at "
                 f"the {sorted(missing)} site(s): after the DPA the connection lingers until the "
                 f"wait timeout")
    # what "queued" means: every message handed to add_out_msg until the writer is done with it
    pcx = model.cls("node.peer", "PeerConnection")
    hq = pcx.methods.get("has_queued_messages")
    cons = "PeerConnection.has_queued_messages"
    ctx.inst(cons)
    if hq is None:
        ctx.fail(cons, pcx.loc(), "PeerConnection has no has_queued_messages property: the I/O loop "
                 "cannot tell that output is still on its way to the write buffer")
    else:
        ctx.use(hq)
        rets = [x for x in ast.walk(hq.node) if isinstance(x, ast.Return) and x.value is not None]
        okq = False
        if len(rets) == 1:
            a_ = Atomizer(model, pcx.module, pcx).atom(rets[0].value)
            subj = "self._write_msg_queue.unfinished_tasks"
            okq = (a_.subject == subj and a_.op == ">" and str(a_.value) == "0" and not a_.flip) \
                or (a_.subject == subj and a_.op == "==" and a_.value == 0 and a_.flip) \
                or (a_.subject in (subj, f"bool({subj})") and a_.op == "truthy" and not a_.flip)
        if not okq:
            ctx.fail(cons, hq.loc(), "has_queued_messages is not `_write_msg_queue.unfinished_tasks > 0`: "
                     "qsize()/empty() miss the message the writer has dequeued but not yet appended")
        ww = pcx.methods.get("work_write_queue")
        gw = cfg_of(ww, exc_everywhere=True)
        gets = [x for x in gw.nodes if x.kind == "stmt" and any(
            A.call_name(c).endswith(("_write_msg_queue.get", "_write_msg_queue.get_nowait")) for c in x.calls())]
        dones = [x for x in gw.nodes if any(A.call_name(c).endswith("_write_msg_queue.task_done") for c in x.calls())]
        cons = "work_write_queue:task_done-after-every-message"
        ctx.inst(cons)
        def batch_ok(gt):
            """a site that collects several messages (`L.append(queue.get_nowait())` in a loop) is
            followed, before the writer goes for the next blocking get, by `for m in L:` whose every
            turn counts one message as done"""
            st = gt.ast
            call = st.value if isinstance(st, ast.Expr) else None
            lst = None
            if isinstance(call, ast.Call) and isinstance(call.func, ast.Attribute) \
                    and call.func.attr == "append" and isinstance(call.func.value, ast.Name):
                lst = call.func.value.id
            elif isinstance(st, (ast.Assign, ast.AnnAssign)):
                # `m = queue.get(...)` followed by `batch = [m]`
                tg = st.targets[0] if isinstance(st, ast.Assign) else st.target
                if isinstance(tg, ast.Name):
                    for x in ast.walk(ww.node):
                        if isinstance(x, (ast.Assign, ast.AnnAssign)) and isinstance(getattr(x, "value", None), ast.List) \
                                and any(isinstance(e, ast.Name) and e.id == tg.id for e in x.value.elts):
                            t2 = x.targets[0] if isinstance(x, ast.Assign) else x.target
                            if isinstance(t2, ast.Name):
                                lst = t2.id
            if lst is None:
                return False
            its = [x for x in gw.nodes if x.kind == "iter" and ast.unparse(x.ast.iter) == lst]
            if not its:
                return False
            it = its[0]
            body = [d for l, d in it.succ if l == "iter"]
            turn = gw.reach(body, normal_blocked=dones, blocked=[])
            if it in turn:
                return False          # a turn of the per-message loop without task_done()
            # the next message that is waited for (the assignment form, `m = queue.get(...)`) is not
            # reached around the per-message loop; the collecting site may repeat
            waits = [x for x in gets if isinstance(x.ast, (ast.Assign, ast.AnnAssign))]
            around = gw.reach([d for l, d in gt.succ if l not in ("exc", "raise")], blocked=[it],
                              include_starts=False)
            return gw.exit not in around and not any(o in around for o in waits)
        for gt in gets:
            nxt = [d for l, d in gt.succ if l not in ("exc", "raise")]
            back = gw.reach(nxt, normal_blocked=dones)
            if (gt in back or gw.exit in back) and not batch_ok(gt):
                ctx.fail(cons, gw.loc(gt), "after taking a message from the queue the writer can reach its "
                         "next iteration (or end) without task_done(): has_queued_messages stays true "
                         "for ever and a CLOSING connection is never closed before the wait timeout")
        # ... and the node is woken only after the message counts as done: a wake-up that comes
        # first lets the I/O loop flush the buffer while has_queued_messages is still true, skip the
        # close, and nothing wakes it again
        cons = "work_write_queue:wake-up-after-task_done"
        ctx.inst(cons)
        sigs = [x for x in gw.nodes if any(A.call_name(c) == "self.demand_attention" for c in x.calls())]
        heads = [x for x in gw.nodes if x.kind in ("loop", "iter")]
        if not sigs:
            wake_fail(ctx, cons, ww.loc(), "the writer never wakes the node after appending a message")
        for sg in sigs:
            after = gw.reach([d for l, d in sg.succ if l not in ("exc", "raise")], blocked=heads)
            late = [d for d in dones if d in after]
            if late:
                wake_fail(ctx, cons, gw.loc(sg), "the writer wakes the node (demand_attention) before "
                         "task_done(): the node thread can flush the buffer while has_queued_messages "
                         "is still true, leave a PEER_CLOSING connection open, and is never woken "
                         "again - the rejected (3010) connection stays registered and stop() waits its "
                         "full timeout")
                break
        # ... and a message counts as done only once its bytes are in the buffer: an append that
        # follows task_done() in the same iteration leaves a window in which the buffer is empty,
        # nothing counts as queued, and the message is still a local of the writer thread
        cons = "work_write_queue:task_done-after-the-append"
        ctx.inst(cons)
        apps = [x for x in gw.nodes if x.kind == "stmt" and any(
            A.dotted(t) == "self._write_buffer" for t in x.stores())]
        if not apps:
            ctx.fail(cons, ww.loc(), "the writer never appends to _write_buffer")
        for dn_ in dones:
            after = gw.reach([d for l, d in dn_.succ if l not in ("exc", "raise")], blocked=heads)
            late = [a_ for a_ in apps if a_ in after]
            if late:
                ctx.fail(cons, gw.loc(late[0]), "the writer appends the encoded message to the write "
                         "buffer after task_done(): between the two the I/O loop sees an empty buffer "
                         "and has_queued_messages False, closes a PEER_CLOSING connection, and the "
                         "message (e.g. the DPA / the 3010 CEA) is never handed to the transport")
                break
        # ... and after EVERY message that has been counted as done - the ones that failed to
        # encode included: the close condition of a CLOSING connection (buffer empty, nothing
        # queued) became true through this task_done(), and only a wake-up makes the I/O loop
        # evaluate it
        cons = "work_write_queue:wake-up-after-every-task_done"
        ctx.inst(cons)
        for dn_ in dones:
            after = gw.reach([d for l, d in dn_.succ if l not in ("exc", "raise")], normal_blocked=sigs)
            if any(h in after for h in heads) or gw.exit in after:
                wake_fail(ctx, cons, gw.loc(dn_), "after this task_done() the writer can go for the next message "
                         "(or end) without demand_attention(): if the message was the last one of a "
                         "PEER_CLOSING connection (e.g. it could not be encoded) the node is never "
                         "woken, no timer covers CLOSING, and the connection with its socket and two "
                         "threads stays for ever / stop() waits its full timeout")
    # the interrupt site only sees the wake-ups that are actually taken from the pipe
    from .common_node import wakeup_tokens_all_handled
    wakeup_tokens_all_handled(ctx, "C18-R3b")
    from .common_node import close_is_thread_tolerant
    close_is_thread_tolerant(ctx, "C18-R3c")
    ctx.cur("C18-R3")
    # stop branch
    cons = "_handle_connections:stop-branch"
    ctx.inst(cons)
    SHUT = P("DISCONNECT_REASON_NODE_SHUTDOWN")
    sb = []
    for n in gh.nodes:
        for c in n.calls():
            if A.call_name(c) == "self.close_connection_socket" and len(c.args) > 1 \
                    and model.try_fold(c.args[1], hc.module) == SHUT:
                sb.append(n)
    if not sb:
        ctx.fail(cons, hc.loc(), "on the stop event the I/O loop does not close the remaining connections")
    else:
        facts = must_facts(gh, ath, sb[0])
        if not any(x[0].endswith(".is_stopped") and x[3] for x in facts):
            ctx.fail(cons, gh.loc(sb[0]), "shutdown closes are not tied to the stop event")
        lp = [n for n in gh.nodes if n.kind == "iter" and sb[0] in gh.reach(
            [x for l, x in n.succ if l == "iter"], blocked=[n])]
        if not lp or "self.connections" not in ast.unparse(lp[-1].ast.iter):
            ctx.fail(cons + "#all", gh.loc(sb[0]), "not every connection is closed on the stop event")
        rets = [n for n in gh.nodes if n.kind == "stmt" and isinstance(n.ast, ast.Return)]
        if not rets or not any(any(x[0].endswith(".is_stopped") and x[3] for x in must_facts(gh, ath, r)) for r in rets):
            ctx.fail(cons + "#return", hc.loc(), "the I/O thread does not end on the stop event")

    # ---------------- R4 ownership of constructed connections ------------------------------------------
    ctx.rule("C18-R4", "every constructed PeerConnection is registered or closed on every path "
                       "(its two non-daemon workers are started by the constructor)", floor=5)
    cons = "_add_peer_connection:registers-or-closes"
    ctx.inst(cons)
    closes = [n for n in ga.nodes if n.kind == "stmt" and any(A.call_name(c) == f"{cparam}.close" for c in n.calls())]
    r = ga.reach([ga.entry], normal_blocked=regs + closes)
    if ga.exit in r:
        ctx.fail(cons, add.loc(), "_add_peer_connection can return without having registered the "
                 "connection or closed it: a refused connection's two worker threads keep running "
                 "(also after Node.stop()), one pair per refused attempt")
    sclose = [n for n in ga.nodes if n.kind == "stmt" and any(A.call_name(c) == f"{sparam}.close" for c in n.calls())]
    # (a close() that fails has been attempted: its exceptional edge counts as closed)
    r = ga.reach([ga.entry], normal_blocked=regs, blocked=sclose)
    if ga.exit in r:
        ctx.fail(cons + "#socket", add.loc(), "a refused connection's socket is not closed")
    for fn in nc.all_funcs:
        for node in A.walk_no_nested(fn.node):
            if isinstance(node, ast.Call) and A.call_name(node) == "PeerConnection":
                gg = cfg_of(fn)
                n = [x for x in gg.nodes if node in x.calls()][0]
                cv = A.dotted(A.store_targets(n.ast)[0]) if A.store_targets(n.ast) else None
                tag = "accept" if "PEER_RECV" in ast.unparse(node) else "dial"
                proto = "sctp" if any("SCTP" in ast.unparse(c) for m in gg.reach([n]) for c in m.calls()
                                      if A.call_name(c) == "self._add_peer_connection"
                                      and gg.dominated(m, [n])) else "tcp"
                cons = f"{fn.qualname}:PeerConnection@{tag}"
                ctx.use(fn)
                ctx.inst(cons, sample={"where": gg.loc(n), "var": cv})
                from ..effects import fault_effects_of
                gg = cfg_of(fn, effects=fault_effects_of(model))
                n = [x for x in gg.nodes if any(isinstance(c, ast.Call) and A.call_name(c) == "PeerConnection"
                                                and c.lineno == node.lineno for c in x.calls())][0]
                owners = [m for m in gg.nodes if any(
                    A.call_name(c) == "self._add_peer_connection" and c.args and A.dotted(c.args[0]) == cv
                    for c in m.calls())]
                stops = [x for x in gg.nodes if x.kind in ("iter", "loop")] + [gg.exit, gg.raise_exit]
                after = gg.reach([d for l, d in n.succ if l != "exc"],
                                 blocked=owners + [x for x in gg.nodes if x.kind == "stmt" and x is not n and any(
                                     A.dotted(t) == cv for t in x.stores())])
                if any(s in after for s in stops):
                    ctx.fail(cons, gg.loc(n), f"a PeerConnection constructed in {fn.qualname} can be "
                             f"dropped without being handed to _add_peer_connection (e.g. when a later "
                             f"statement such as the socket constructor raises): its two worker "
                             f"threads are never stopped")
    # dial refused / failed connect
    cp = nc.methods.get("_connect_to_peer")
    if cp is not None:
        gc = cfg_of(cp)
        atc = Atomizer(model, cp.module, nc)
        dials = [n for n in gc.nodes if n.kind == "stmt" and any(
            isinstance(c.func, ast.Attribute) and c.func.attr in ("connect", "connectx") for c in n.calls())]
        cons = "_connect_to_peer:refusal-stops-dial"
        ctx.inst(cons)
        for d in dials:
            facts = must_facts(gc, atc, d)
            if not any("_add_peer_connection" in x[0] and x[1] == "is" and x[2] is None and not x[3]
                       for x in facts):
                ctx.fail(cons, gc.loc(d), "connect() is attempted although _add_peer_connection may "
                         "have refused (and closed) the connection")
                break
    closed_connections_are_removed(ctx, "C18-R4b")
    from . import c14
    ctx.include(c14.run, {"C14-R1"}, "C18-R1d",
                "the connection thread, which performs every close and the whole DPR exchange of "
                "stop(), cannot be ended by a fault of the fault model (transport errors incl. "
                "accept(), user callbacks)", floor=7,
                constructs=lambda c: "_handle_connections" in c)
    ctx.include(c14.run, {"C14-R4"}, "C18-R1c",
                "stop() and the functions it calls iterate snapshots of the tables that other "
                "threads resize meanwhile (an exception there leaves the remaining applications "
                "running)", floor=6, constructs=lambda c: "stop" in c.lower())
    from . import c12
    ctx.include(c12.run, {"C12-R1", "C12-R5"}, "C18-R5",
                "the DPR/DPA exchange of a shutdown: send_dpr marks DISCONNECTING, a DPA always "
                "leads to CLOSING + wake-up, and nothing turns a DISCONNECTING connection back into a "
                "ready one", floor=5)
    from . import c15
    ctx.include(c15.run, {"C15-R2", "C15-R5"}, "C18-R3d",
                "the DPR that stop() queues reaches the write buffer whatever else is queued with it: the "
                "writer appends each dequeued message by itself, so one message that cannot be encoded "
                "is dropped alone and does not take the DPR (and the wait for the DPA) with it", floor=2,
                constructs=lambda c: "work_write_queue" in c)
