"""C17 - retransmitted (T flag) duplicates of answered requests are rejected, no others."""
from __future__ import annotations

import ast

from ..report import Ctx
from ..srcmodel import AnalysisError
from ..cfg import cfg_of
from ..atoms import Atomizer, must_facts
from ..lockset import call_sites
from .. import astutil as A
from .recvmsg import RecvModel

TECHNIQUE = "CFG must-facts of the duplicate-rejection branch + def-use agreement of the window keys + writer discipline"
EXPLANATION = (
    "From the CFG of Node._receive_message the conditions that hold on every path to the "
    "duplicate rejection (the 5012 answer that returns before dispatch) are computed and must "
    "be exactly: request, T flag, origin present in the window table, end-to-end id in that "
    "origin's window. The key under which the origin is recorded on reception, the key under "
    "which _record_answer files the answered id, and the key used by the check are compared as "
    "expressions over the message (def-use); the window is a deque(maxlen=retransmit_queue_size) "
    "written only by _record_answer, which is called only for answers from send_message; the "
    "origin of a request is recorded before any branch that can answer it.")
ASSUMPTIONS = [
    "not decided: histories (eviction order beyond deque(maxlen) semantics - trusted)",
    "collections.deque(maxlen=n) keeps the n most recent appended items",
]

WIN = "_sent_answers"
ORIG = "_origin_waiting_answer"


def _norm(e: ast.AST, var: str) -> str:
    return ast.unparse(e).replace(var + ".", "<msg>.")


def _mid_fields(js: ast.AST):
    if isinstance(js, ast.Tuple):
        # a tuple key: same fields, written in the notation of the string form
        out = []
        for i, v in enumerate(js.elts):
            if i:
                out.append(":")
            out.append(ast.unparse(v).split(".")[-1])
        return out
    if not isinstance(js, ast.JoinedStr):
        return None
    out = []
    for v in js.values:
        if isinstance(v, ast.FormattedValue):
            out.append(ast.unparse(v.value).split(".")[-1])
        elif isinstance(v, ast.Constant):
            out.append(v.value)
    return out


def _origin_vars(fn: ast.FunctionDef, msg: str) -> set:
    """Locals of _receive_message that hold the request's Origin-Host (possibly None)."""
    out = set()
    for n in A.walk_no_nested(fn):
        if isinstance(n, ast.Assign) and len(n.targets) == 1 and isinstance(n.targets[0], ast.Name):
            t = ast.unparse(n.value).replace('"', "'")
            if t in (f"{msg}.origin_host", f"getattr({msg}, 'origin_host', None)"):
                out.add(n.targets[0].id)
    return out


def _origin_present_subject(subject: str, msg: str, ovars: set) -> bool:
    if subject == f"hasattr({msg}, 'origin_host')":
        return True
    if subject in ovars:
        return True
    return any(subject.replace(" ", "") == f"isinstance({v},bytes)" for v in ovars)


from .common_node import key_fields_flat


def run(ctx: Ctx):
    model = ctx.model
    from .common_node import names_resolve
    names_resolve(ctx, "C17-RN")
    from .common_node import single_transmit_gate
    single_transmit_gate(ctx, "C17-R7")
    R = RecvModel(ctx)
    g, at, msg, conn = R.g, R.at, R.msg, R.conn
    nc = R.nc
    ovars = _origin_vars(R.f.node, msg)
    UNABLE = R.code("E_RESULT_CODE_DIAMETER_UNABLE_TO_COMPLY")

    # ---------------- R1 rejection condition --------------------------------------
    ctx.rule("C17-R1", "the duplicate rejection is reachable exactly under request & T flag & "
                       "origin known & end-to-end id in the origin's window; it answers 5012 and "
                       "returns before dispatch", floor=1)
    dup = []
    for n in R.answers:
        facts = R.facts(n)
        if (f"{msg}.header.is_retransmit", "truthy", None, True) in facts:
            dup.append((n, facts))
    cons = "_receive_message:duplicate-rejection"
    ctx.inst(cons, sample=[g.loc(n) for n, _ in dup])
    if len(dup) != 1:
        ctx.fail(cons, R.f.loc(), f"expected exactly one rejection branch guarded by the T flag, "
                 f"found {len(dup)}: retransmitted duplicates are "
                 f"{'not detected' if not dup else 'handled inconsistently'}")
        win_key = None
    else:
        n, facts = dup[0]
        win_key = None
        need = []
        if not R.is_request_fact(facts):
            need.append("the message is a request")
        mem = [f for f in facts if f[1] == "in-expr" and f[2] == f"self.{WIN}" and f[3]]
        if not mem:
            need.append(f"the origin host is present in self.{WIN}")
        else:
            win_key = mem[0][0]
        e2e = [f for f in facts if f[1] == "in-expr" and str(f[2]).startswith(f"self.{WIN}[") and f[3]]
        if not e2e:
            need.append("the end-to-end identifier is in that origin's window")
        else:
            if e2e[0][0] != f"{msg}.header.end_to_end_identifier":
                need.append("the identifier looked up is the request's end-to-end identifier")
            if win_key and e2e[0][2] != f"self.{WIN}[{win_key}]":
                need.append("the window searched belongs to the request's origin host")
        for p in need:
            ctx.fail(cons, g.loc(n), f"the duplicate rejection does not require that {p}: "
                     f"{'requests that are no duplicates are rejected' if 'request' not in p else 'an answer carrying the T bit is answered'}")
            break
        # nothing else may be required (otherwise real duplicates slip through)
        allowed_subjects = {R.is_req, f"{msg}.header.is_retransmit", win_key,
                            f"{msg}.header.end_to_end_identifier",
                            f"hasattr({msg}, 'origin_host')"}
        # (not: the outcome of the mandatory-AVP validation - a repeat that lacks an AVP is a
        # duplicate all the same and is answered 5012, not 5005)
        extra = [f for f in facts if f[0] not in allowed_subjects
                 and not _origin_present_subject(f[0], msg, ovars)]
        if extra:
            ctx.fail(cons + "#extra", g.loc(n), f"the duplicate rejection additionally requires "
                     f"{extra}: duplicates not satisfying it are delivered to the application again")
        # the check comes before the mandatory-AVP validation: a repeat of an answered request is a
        # duplicate whatever it carries, and is answered 5012 - not 5005 (again)
        cons_o = cons + "#before-validation"
        ctx.inst(cons_o)
        vtests = [t_ for t_ in g.nodes if t_.kind == "test" and t_.ast is not None
                  and "validate_received_request_avps" in t_.text(200)]
        if vtests and any(g.can_reach(t_, n) for t_ in vtests):
            ctx.fail(cons_o, g.loc(vtests[0]), "the mandatory-AVP validation runs before the duplicate check "
                     "(the duplicate rejection is reachable from it): the T-flagged repeat of an answered "
                     "request that lacks a mandatory AVP is answered 5005 instead of 5012")
        # outcome: 5012, one send on the same connection, return before dispatch
        avar = A.dotted(A.store_targets(n.ast)[0]) if A.store_targets(n.ast) else None
        sends = [s for s in R.sends if g.dominated(s, [n])]
        rc = None
        if sends:
            rc, _ = R.result_code_store(avar, sends[0])
        if len(sends) != 1 or rc != UNABLE:
            ctx.fail(cons + "#outcome", g.loc(n), f"the duplicate is not answered with exactly one "
                     f"5012 (result code {rc}, {len(sends)} sends)")
        else:
            sc, sm = R.answer_var_of_send(sends[0])
            if sc != conn or sm != avar:
                ctx.fail(cons + "#outcome", g.loc(sends[0]), "the rejection is not sent on the "
                         "connection the duplicate arrived on")
            after = g.reach([sends[0]], include_starts=False)
            if any(d in after for d, _, _ in R.dispatch):
                ctx.fail(cons + "#dispatch", g.loc(sends[0]), "after rejecting the duplicate the "
                         "message is still dispatched (delivered to the application again)")

    # ---------------- R2 window discipline ----------------------------------------------
    ctx.rule("C17-R2", "the window is deque(maxlen=retransmit_queue_size) per origin, written only "
                       "by _record_answer for answers sent through send_message", floor=4)
    rec = nc.methods.get("_record_answer")
    if rec is None:
        raise AnalysisError("Node._record_answer not found")
    ctx.use(rec)
    gr = cfg_of(rec)
    rmsg = [a.arg for a in rec.node.args.args][2]
    creates = []     # (node, expression the window is created with)
    for n in A.walk_no_nested(rec.node):
        if isinstance(n, ast.Assign) and any(
                isinstance(t, ast.Subscript) and A.dotted(t.value) == f"self.{WIN}" for t in n.targets):
            creates.append((n, n.value))
        elif isinstance(n, ast.Call) and isinstance(n.func, ast.Attribute) and n.func.attr == "setdefault" \
                and A.dotted(n.func.value) == f"self.{WIN}" and len(n.args) == 2:
            creates.append((n, n.args[1]))     # atomic get-or-create
    cons = "_record_answer:window-type"
    ctx.inst(cons)
    ok = False
    for c, v in creates:
        if isinstance(v, ast.Call) and A.call_name(v) in ("deque", "collections.deque"):
            ml = [k.value for k in v.keywords if k.arg == "maxlen"]
            if len(v.args) >= 2:
                ml = [v.args[1]]
            if ml and A.dotted(ml[0]) == "self.retransmit_queue_size" and len(v.args) <= 1 \
                    and (not v.args or (isinstance(v.args[0], (ast.List, ast.Tuple)) and not v.args[0].elts)):
                ok = True
    if not ok:
        ctx.fail(cons, rec.loc(creates[0][0]) if creates else rec.loc(),
                 "an origin's window is not created as deque(maxlen=self.retransmit_queue_size): "
                 "the configured number of most recent answers is not what is remembered")
    # answers are recorded by application and connection threads alike: the window of an origin
    # is created by one atomic get-or-create (or under a lock), not by check-then-assign - two
    # threads sending the first answers to an origin would each create a window, and the
    # identifier remembered in the one that loses is forgotten
    cons_c = "_record_answer:window-created-atomically"
    ctx.inst(cons_c)
    par_r = A.parents(rec.node)
    for c, v in creates:
        if isinstance(c, ast.Assign):
            x, locked_ = c, False
            while x in par_r:
                x = par_r[x]
                if isinstance(x, ast.With) and any("lock" in ast.unparse(i.context_expr).lower() for i in x.items):
                    locked_ = True
            if not locked_:
                ctx.fail(cons_c, rec.loc(c), f"`{ast.unparse(c)[:70]}` creates an origin's window by "
                         f"check-then-assign without a lock: _record_answer runs on application and "
                         f"connection threads, two of them answering the first requests of an origin "
                         f"each create a window and one answered identifier is lost - its T-flagged "
                         f"repeat is delivered to the application again",
                         expected="self._sent_answers.setdefault(origin, deque(maxlen=...)) or a lock")
    # other mutations of the window than append
    cons = "window:writers"
    ctx.inst(cons)
    for f in model.all_funcs():
        if ".node" not in f.module.name:
            continue
        for n in A.walk_no_nested(f.node):
            if isinstance(n, ast.Call) and isinstance(n.func, ast.Attribute) \
                    and n.func.attr in ("append", "appendleft", "pop", "popleft", "clear", "remove",
                                        "extend", "insert") \
                    and f"self.{WIN}" in ast.unparse(n.func.value):
                if not (f is rec and n.func.attr == "append"):
                    ctx.fail(cons, f.loc(n), f"`{ast.unparse(n)}` in {f.qualname} mutates a "
                             f"retransmission window outside the append in _record_answer")
            if isinstance(n, (ast.Assign, ast.Delete)) and f is not rec:
                tg = n.targets
                if any(f"self.{WIN}" in ast.unparse(t) and isinstance(t, ast.Subscript) for t in tg) \
                        and f.name != "__init__":
                    ctx.fail(cons, f.loc(n), f"{f.qualname} stores into self.{WIN}")
    appends = [n for n in A.walk_no_nested(rec.node) if isinstance(n, ast.Call)
               and isinstance(n.func, ast.Attribute) and n.func.attr == "append"
               and f"self.{WIN}" in ast.unparse(n.func.value)]
    cons = "_record_answer:append"
    ctx.inst(cons)
    rec_key = None
    if len(appends) != 1:
        ctx.fail(cons, rec.loc(), f"expected one append to the window, found {len(appends)}")
    else:
        a = appends[0]
        if not (len(a.args) == 1 and _norm(a.args[0], rmsg) == "<msg>.header.end_to_end_identifier"):
            ctx.fail(cons, rec.loc(a), "the value remembered is not the answer's end-to-end identifier")
        sub = a.func.value
        rec_key = ast.unparse(sub.slice) if isinstance(sub, ast.Subscript) else None
        if rec_key is None and isinstance(sub, ast.Call) and isinstance(sub.func, ast.Attribute) \
                and sub.func.attr == "setdefault" and A.dotted(sub.func.value) == f"self.{WIN}" and sub.args:
            rec_key = ast.unparse(sub.args[0])
        # the append must happen whenever the origin is known (dominates normal exit past the lookup)
        an = [n for n in gr.nodes if a in n.calls()]
        facts = must_facts(gr, Atomizer(model, rec.module, nc), an[0]) if an else set()
        # allowed: table membership, and "the recorded origin is known" (rec_key is not None)
        def _looked_up(name):
            # `rec = self.<origin table>.get(key)`: `rec is not None` is the membership test
            return any(isinstance(x, ast.Assign) and any(isinstance(t, ast.Name) and t.id == name for t in x.targets)
                       and isinstance(x.value, ast.Call) and isinstance(x.value.func, ast.Attribute)
                       and x.value.func.attr == "get" and A.dotted(x.value.func.value) == f"self.{ORIG}"
                       for x in ast.walk(rec.node))
        bad = [f for f in facts if not (f[1] == "in-expr" and f[2] in (f"self.{ORIG}", f"self.{WIN}"))
               and not (f[1] == "is" and f[2] is None and f[3] is False and isinstance(f[0], str)
                        and f[0].isidentifier() and _looked_up(f[0]))
               and not (rec_key is not None and f[0] == rec_key and
                        ((f[1] == "is" and f[2] is None and f[3] is False) or (f[1] == "truthy" and f[3])))]
        if bad:
            ctx.fail(cons + "#conditional", rec.loc(a), f"the answered id is only remembered under {bad}")
    # "within the configured number of most recent answers": the size is read when an origin's
    # window is created; a later change of retransmit_queue_size must reach existing windows too
    cons = "_record_answer:window-size-follows-setting"
    ctx.inst(cons)
    if "maxlen" in ast.unparse(rec.node) and not any(
            isinstance(x, ast.Compare) and "maxlen" in ast.unparse(x) for x in ast.walk(rec.node)):
        ctx.fail(cons, rec.loc(), "an origin's window is created with deque(maxlen=retransmit_queue_size) and "
                 "never resized: a change of the setting on a running node is ignored for every origin that "
                 "already has a window - and the first answer to a peer is its CEA (findings/audit3/C17-1)")
    # callers
    cons = "_record_answer:callers"
    ctx.inst(cons)
    callers = call_sites(model, "_record_answer")
    sm = nc.methods.get("send_message")
    if len(callers) != 1 or callers[0].func is not sm:
        ctx.fail(cons, callers[0].where if callers else rec.loc(),
                 f"_record_answer must be called exactly once, from send_message "
                 f"(found {[c.func.qualname for c in callers]})")
    else:
        gs = cfg_of(sm)
        ats = Atomizer(model, sm.module, nc)
        smsg = [a.arg for a in sm.node.args.args][2]
        cn = [n for n in gs.nodes if callers[0].node in n.calls()][0]
        facts = must_facts(gs, ats, cn)
        if (f"{smsg}.header.is_request", "truthy", None, False) not in facts:
            ctx.fail(cons, gs.loc(cn), "_record_answer is not restricted to answers")
        others = [f for f in facts if f[0] != f"{smsg}.header.is_request"]
        if others:
            ctx.fail(cons + "#conditional", gs.loc(cn), f"answers are only recorded under {others}")
        if [ast.unparse(a) for a in callers[0].node.args][1:] != [smsg]:
            ctx.fail(cons + "#arg", gs.loc(cn), "the recorded message is not the one being sent")

    # ---------------- R3 origin recorded, keys agree ---------------------------------------
    ctx.rule("C17-R3", "the origin of every request is recorded before anything can answer it; "
                       "recording key, window key and lookup key are the same expression", floor=3)
    stores = [n for n in g.nodes if n.kind == "stmt" and isinstance(n.ast, ast.Assign) and any(
        isinstance(t, ast.Subscript) and A.dotted(t.value) == f"self.{ORIG}" for t in n.ast.targets)]
    cons = "_receive_message:origin-recorded"
    ctx.inst(cons)
    orig_key = None
    if len(stores) != 1:
        ctx.fail(cons, R.f.loc(), f"expected one store into self.{ORIG} in _receive_message, found {len(stores)}")
    else:
        s = stores[0]
        v = s.ast.value
        if isinstance(v, ast.Tuple) and v.elts:
            orig_key = _norm(v.elts[0], msg)
        facts = R.facts(s)
        bad = [f for f in facts if f[0] != R.is_req and not _origin_present_subject(f[0], msg, ovars)]
        if bad or (R.is_req, "truthy", None, False) in facts:
            ctx.fail(cons, g.loc(s), f"the origin of a request is only recorded under {bad or facts}")
        # before every send / dispatch
        for n in R.sends + [d for d, _, _ in R.dispatch]:
            if not g.dominated(n, [s]):
                # allowed: paths on which the message has no origin host or is an answer
                def _no_origin(a):
                    # truth value of the atom under which the message is an answer / has no origin
                    if a.subject in (R.is_req, f"hasattr({msg}, 'origin_host')") and a.op == "truthy":
                        return False
                    if a.subject in ovars and a.op == "is" and a.value is None:
                        return True
                    if a.subject in ovars and a.op == "truthy":
                        return False
                    if any(a.subject.replace(" ", "") == f"isinstance({v},bytes)" for v in ovars):
                        return False
                    return None
                from ..atoms import FlagTracker as _FT
                r = g.reach([g.entry], normal_blocked=[s], tracker=_FT(at, set(ovars)) if ovars else None,
                            blocked_edges=g.guard_edges(lambda t: at.label_when(t, _no_origin)))
                if n in r:
                    ctx.fail(cons + "#order", g.loc(n), f"`{n.text(60)}` can run for a request with "
                             f"an Origin-Host before its origin is recorded: its answer is not "
                             f"entered into the window")
                    break
        # the recorded origin is later used as a dictionary key (window per origin): it must
        # be a bytes value - an untyped message exposes a repeated Origin-Host as a list
        cons_h = "_receive_message:origin-is-bytes"
        ctx.inst(cons_h)
        ov = v.elts[0] if isinstance(v, ast.Tuple) and v.elts else None
        from ..atoms import FlagTracker as _FT2, must_facts as _mf
        fx = _mf(g, at, s, tracker=_FT2(at, set(ovars))) if ovars else facts
        okh = ov is not None and any(
            f_[0].replace(" ", "") == f"isinstance({ast.unparse(ov)},bytes)" and f_[1] == "truthy" and f_[3]
            for f_ in fx)
        if not okh and isinstance(ov, ast.Name):
            # the "bytes or None" idiom: a dominating `if not isinstance(x, bytes): x = None`
            for t_ in g.nodes:
                if t_.kind != "test":
                    continue
                a_ = at.node_atom(t_)
                if a_ is None or a_.subject.replace(" ", "") != f"isinstance({ov.id},bytes)" or a_.op != "truthy":
                    continue
                false_lab = "T" if a_.flip else "F"
                nxt = [d for l, d in t_.succ if l == false_lab]
                resets = bool(nxt) and nxt[0].kind == "stmt" and isinstance(nxt[0].ast, ast.Assign) \
                    and any(A.dotted(x) == ov.id for x in nxt[0].ast.targets) \
                    and isinstance(nxt[0].ast.value, ast.Constant) and nxt[0].ast.value.value is None
                def _bytes_to_bytes(n_):
                    # `x = x.lower()` (bytes in, bytes out) on the branch on which x is bytes
                    v_ = getattr(n_.ast, "value", None)
                    if not (isinstance(v_, ast.Call) and isinstance(v_.func, ast.Attribute) and not v_.args
                            and v_.func.attr in ("lower", "upper", "casefold", "strip")
                            and A.dotted(v_.func.value) == ov.id):
                        return False
                    return any(f_[0].replace(" ", "") == f"isinstance({ov.id},bytes)" and f_[1] == "truthy"
                               and f_[3] for f_ in _mf(g, at, n_))
                restored = [n_ for n_ in g.nodes if n_.kind == "stmt" and n_ is not (nxt[0] if nxt else None)
                            and any(A.dotted(x) == ov.id for x in n_.stores())
                            and n_ in g.reach([t_], include_starts=False) and not _bytes_to_bytes(n_)]
                if resets and g.dominated(s, [t_]) and not restored:
                    okh = True
        if not okh:
            ctx.fail(cons_h, g.loc(s), f"`{ast.unparse(ov) if ov is not None else '?'}` is recorded as the "
                     f"request's origin without having been checked to be bytes: for a command without "
                     f"python implementation a repeated Origin-Host AVP makes it a list, and "
                     f"_record_answer (run after the answer is queued) raises TypeError when it uses "
                     f"it as a dictionary key - the error handler then answers the request again")
        mid_var = ast.unparse([t for t in s.ast.targets][0].slice)
        mdef = [n for n in g.nodes if n.kind == "stmt" and any(
            isinstance(t, ast.Name) and t.id == mid_var for t in n.stores())]
        rdef = [n for n in gr.nodes if n.kind == "stmt" and isinstance(n.ast, ast.Assign)
                and (isinstance(n.ast.value, ast.JoinedStr)
                     or (isinstance(n.ast.value, ast.Tuple) and len(n.ast.value.elts) == 3))]
        m1 = _mid_fields(mdef[0].ast.value) if mdef else None
        m2 = _mid_fields(rdef[0].ast.value) if rdef else None
        ctx.inst("message-id:agreement", sample={"receive": m1, "record": m2})
        if not m1 or m1 != m2 or "hop_by_hop_identifier" not in m1 or "end_to_end_identifier" not in m1:
            ctx.fail("message-id:agreement", g.loc(s), f"the transaction key built on reception "
                     f"({m1}) and the one built when the answer is recorded ({m2}) differ")
        elif "ident" not in m1:
            ctx.fail("message-id:agreement#connection", g.loc(s), f"the transaction key {m1} does not "
                     f"contain the connection: hop-by-hop and end-to-end identifiers are chosen by "
                     f"the peers, the same pair on two connections overwrites the first request's "
                     f"origin - its answer is entered into the wrong origin's window (a request never "
                     f"answered to that origin is then rejected as duplicate)")
    # key agreement
    cons = "origin-key:agreement"
    lookup = _norm(ast.parse(win_key, mode="eval").body, msg) if win_key else None
    # _record_answer: origin_host comes from the recorded tuple's first element
    rk_ok = False
    if rec_key:
        for n in A.walk_no_nested(rec.node):
            src_ = n.value if isinstance(n, ast.Assign) else None
            if isinstance(src_, ast.Name):
                # `rec = self.<table>.get(key)` ... `origin, t = rec`
                ds_ = [x.value for x in A.walk_no_nested(rec.node) if isinstance(x, ast.Assign)
                       and any(isinstance(t, ast.Name) and t.id == src_.id for t in x.targets)]
                src_ = ds_[0] if len(ds_) == 1 else None
            from_table = (isinstance(src_, ast.Subscript) and A.dotted(src_.value) == f"self.{ORIG}") or \
                (isinstance(src_, ast.Call) and isinstance(src_.func, ast.Attribute) and src_.func.attr == "get"
                 and A.dotted(src_.func.value) == f"self.{ORIG}")
            if isinstance(n, ast.Assign) and isinstance(n.targets[0], ast.Tuple) and from_table:
                first = n.targets[0].elts[0]
                if isinstance(first, ast.Name) and first.id == rec_key:
                    rk_ok = True
        # ... unchanged: the duplicate check looks the window up under the Origin-Host as it was
        # received, so a normalised (lower-cased, stripped, decoded) copy files the answer where
        # the check never looks
        stores = [n for n in A.walk_no_nested(rec.node) if isinstance(n, ast.Name)
                  and isinstance(n.ctx, ast.Store) and n.id == rec_key]
        if len(stores) > 1:
            rk_ok = False
    ctx.inst(cons, sample={"recorded": orig_key, "lookup": lookup, "window_key_from_record": rk_ok})
    if orig_key is not None and lookup is not None and orig_key != lookup:
        ctx.fail(cons, R.f.loc(), f"the origin is recorded as `{orig_key}` but the duplicate check "
                 f"looks the window up under `{lookup}`: for some Origin-Host values (e.g. with "
                 f"upper-case letters) an answered request is never recognised as duplicate")
    # "origin host ... equal": Origin-Host is a DiameterIdentity, the same host whatever the case
    # it is spelled in (the node folds names everywhere else: add_peer, receive_cer, realms).  The
    # value recorded as the origin - the key of the windows on both sides - is case-folded
    ctx.inst(cons + "#case-folded")
    folded = False
    for v_ in sorted(ovars):
        for x in A.walk_no_nested(R.f.node):
            if isinstance(x, ast.Assign) and any(isinstance(t, ast.Name) and t.id == v_ for t in x.targets):
                e_ = x.value
                while isinstance(e_, ast.Call) and isinstance(e_.func, ast.Attribute) \
                        and e_.func.attr in ("lower", "casefold", "strip"):
                    if e_.func.attr in ("lower", "casefold"):
                        folded = True
                    e_ = e_.func.value
    if ovars and not folded:
        ctx.fail(cons + "#case-folded", R.f.loc(), f"the origin ({sorted(ovars)}) is recorded and looked up as the "
                 f"bytes received: a T-flagged repeat whose Origin-Host differs in case from the original "
                 f"(Client.Example / client.example) is looked up in another window, delivered to the "
                 f"application again and answered 2001",
                 expected="<origin>.lower() (bytes fold) where the origin is read", observed="raw bytes")
    if rec_key is not None and not rk_ok:
        ctx.fail(cons + "#record", rec.loc(), f"_record_answer files the answered id under "
                 f"`{rec_key}`, which is not the origin recorded on reception")
    ctx.rule("C17-R6", "an answer is in the origin's window before the peer can see it; every "
                       "outstanding request keeps its own origin record", floor=2)
    sm_ = nc.methods.get("send_message")
    gs_ = cfg_of(sm_)
    q_ = [n for n in gs_.nodes if any(A.call_name(c).endswith(".add_out_msg") for c in n.calls())]
    r_ = [n for n in gs_.nodes if any(A.call_name(c) == "self._record_answer" for c in n.calls())]
    cons = "send_message:recorded-before-queued"
    ctx.inst(cons)
    if q_ and r_ and any(gs_.can_reach(q, r) for q in q_ for r in r_):
        ctx.fail(cons, gs_.loc(r_[0]), "send_message hands the answer to the connection (add_out_msg) and "
                 "records its end-to-end identifier afterwards: the writer thread can put the answer on "
                 "the wire and the peer's T-flagged repeat can be handled by the reader thread before "
                 "the submitting thread has recorded it - the repeat is delivered to the application "
                 "again instead of being answered 5012")
    cons = "origin-record:one-origin-per-key"
    ctx.inst(cons)
    ostores = [n for n in g.nodes if n.kind == "stmt" and isinstance(n.ast, ast.Assign) and any(
        isinstance(t, ast.Subscript) and A.dotted(t.value) == f"self.{ORIG}" for t in n.ast.targets)]
    if ostores:
        s0 = ostores[0]
        keyfields = key_fields_flat(R.f.node, [t for t in s0.ast.targets if isinstance(t, ast.Subscript)][0].slice) or []
        holds_one = isinstance(s0.ast.value, ast.Tuple)
        if holds_one and not any("origin" in str(k) for k in keyfields):
            ctx.fail(cons, g.loc(s0), f"the origin of a request is recorded as ONE value under the key "
                     f"{keyfields} - identifiers the peer chooses: two requests of different origin hosts "
                     f"that a relay forwards over one connection with the same hop-by-hop and end-to-end "
                     f"identifiers overwrite each other's record, the answer to the first is entered into "
                     f"the second origin's window (its repeat is delivered again, and a request of the "
                     f"second origin that was never answered is rejected as duplicate)")
    # writer, readers and purge of the flat transaction tables agree on the key
    from .common_node import transaction_table_keys
    transaction_table_keys(ctx, "C17-R5", tables=("_origin_waiting_answer",))
    from . import c20
    ctx.include(c20.run, {"C20-R4"}, "C17-R4",
                "the 5012 rejection actually carries its Result-Code: what _generate_answer "
                "returns encodes the attributes set on it", floor=2,
                constructs=lambda c: "untyped" in c and "Node." in c)
