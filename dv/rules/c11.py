"""C11 - watchdog: idle sends one DWR, DWA restores ready, silence closes."""
from __future__ import annotations

import ast

from ..report import Ctx
from ..srcmodel import AnalysisError
from ..cfg import cfg_of
from ..atoms import Atomizer, must_facts
from ..effects import effects_of
from .. import astutil as A
from .timers import TimerTable

TECHNIQUE = "decision table of _check_timers from CFG guard facts + typestate checks of the DWR/DWA state updates"
EXPLANATION = (
    "The decision table of Node._check_timers is extracted from its CFG: for every action "
    "(send_dwr, close_connection_socket) the set of atomic conditions that hold on all paths "
    "to it is computed and compared with the specification (state, direction, strict '>' "
    "against the timeout that belongs to that state, per-peer override before node default, "
    "nothing while stopping, no DWR while one is outstanding). The state updates of the "
    "DWR/DWA exchange (reset_last_dwr / reset_last_dwa / dwa_wait_time / last_read_since), the "
    "single-path shape of receive_dwr, the refresh of the idle clock on every received chunk "
    "and the unconditional timer pass of the I/O loop are checked structurally.")
ASSUMPTIONS = [
    "not decided: timing histories (1 s clock resolution, wake-up interval interaction)",
    "time.time() is monotone enough for second-resolution timers",
]


from .common_node import clock_sources, clock_agreement


def run(ctx: Ctx):
    model = ctx.model
    from .common_node import names_resolve
    names_resolve(ctx, "C11-RN")
    from .recvmsg import received_messages_reach_dispatch
    received_messages_reach_dispatch(ctx, "C11-R9d", answers=True, requests=False)
    T = TimerTable(ctx)
    g, at, conn = T.g, T.at, T.conn
    READY = frozenset(T.state_const("PEER_READY_STATES"))
    WAITING = T.state_const("PEER_READY_WAITING_DWA")
    PREADY = T.state_const("PEER_READY")
    DWA_TIMEOUT = T.state_const("DISCONNECT_REASON_DWA_TIMEOUT")

    # ---------------- R1 decision table ----------------------------------------
    ctx.rule("C11-R1", "decision table of _check_timers for the ready sub-states", floor=2)
    dwr = [a for a in T.actions if a[1] == "send_dwr"]
    closes = [a for a in T.actions if a[1] == "close"]
    ctx.inst("_check_timers:send_dwr", sample=[g.loc(n) for n, _, _ in dwr])
    if len(dwr) != 1:
        ctx.fail("_check_timers:send_dwr", T.f.loc(), f"expected exactly one send_dwr site, found {len(dwr)}")
    for n, _, c in dwr:
        facts = T.facts(n)
        cons = "_check_timers:send_dwr"
        need = []
        if ("self._stopping", "truthy", None, False) not in facts:
            need.append("node is not stopping")
        in_ready = (f"{conn}.state", "in", READY, True) in facts or \
            (f"{conn}.state", "==", PREADY, True) in facts
        if not in_ready:
            need.append("connection state is ready")
        not_waiting = (f"{conn}.state", "==", WAITING, False) in facts or \
            (f"{conn}.state", "==", PREADY, True) in facts
        if not not_waiting:
            need.append("no DWR is outstanding (state != READY_WAITING_DWA)")
        cfgt = T.timeout_fact(facts, "last_read_since")
        if cfgt is None:
            need.append("conn.last_read_since > idle timeout (strict)")
        elif cfgt.get("node") != "idle_timeout":
            need.append(f"the idle comparison uses {cfgt.get('node')} instead of idle_timeout")
        if [ast.unparse(a) for a in c.args] != [conn]:
            need.append("DWR is sent on the checked connection")
        for p in need:
            ctx.fail(cons, g.loc(n), f"send_dwr is not conditioned on: {p} "
                     f"(facts on all paths: {_fmt(facts)})")
            break
        # at most one DWR per check
        after = g.reach([n], include_starts=False)
        if n in after:
            ctx.fail(cons + "#once", g.loc(n), "send_dwr can be reached twice in one timer check")
    dwa_close = [(n, c) for n, k, c in closes if T.reason(c) == DWA_TIMEOUT]
    ctx.inst("_check_timers:dwa-timeout-close", sample=[g.loc(n) for n, _ in dwa_close])
    if len(dwa_close) != 1:
        ctx.fail("_check_timers:dwa-timeout-close", T.f.loc(),
                 f"expected one close with DISCONNECT_REASON_DWA_TIMEOUT, found {len(dwa_close)}")
    for n, c in dwa_close:
        facts = T.facts(n)
        cons = "_check_timers:dwa-timeout-close"
        need = []
        if (f"{conn}.state", "==", WAITING, True) not in facts:
            need.append("state == READY_WAITING_DWA")
        cfgt = T.timeout_fact(facts, "dwa_wait_time")
        if cfgt is None:
            need.append("conn.dwa_wait_time > dwa timeout (strict)")
        elif cfgt.get("node") != "dwa_timeout":
            need.append(f"the DWA comparison uses {cfgt.get('node')} instead of dwa_timeout")
        if ("self._stopping", "truthy", None, False) not in facts:
            need.append("node is not stopping")
        if not c.args or ast.unparse(c.args[0]) != conn:
            need.append("the checked connection is the one closed")
        for p in need:
            ctx.fail(cons, g.loc(n), f"watchdog close is not conditioned on: {p} "
                     f"(facts: {_fmt(facts)})")
            break
        # "if none ARRIVES within the DWA timeout": the DWA is recognised by the connection's reader
        # thread, which may be busy (the handler of a plain Application runs on it); bytes that
        # have arrived and wait in the read queue may contain it
        ctx.inst(cons + "#queued-input")
        if not any("_read_buffer_queue" in str(f_[0]) or "unread" in str(f_[0]) or "pending_input" in str(f_[0])
                   for f_ in facts):
            ctx.fail(cons + "#queued-input", g.loc(n), "the DWA time-out closes the connection without "
                     "looking at input that has arrived but not been processed yet: a DWA that reached the "
                     "node 1 ms after the DWR, queued behind a request whose handler runs for longer than "
                     "the DWA timeout, does not stop the clock - the connection is closed with DWA_TIMEOUT "
                     "and the running request's answer cannot be routed")
    # no other action is possible in a ready state
    for n, k, c in T.actions:
        if k in ("send_dwr",) or (k == "close" and T.reason(c) == DWA_TIMEOUT):
            continue
        facts = T.facts(n)
        if not any(f[0] == f"{conn}.state" and f[3] and
                   ((f[1] == "==" and f[2] not in READY) or
                    (f[1] == "in" and not (set(f[2]) & READY))) for f in facts):
            ctx.inst(f"_check_timers:other-action({k})")
            ctx.fail(f"_check_timers:other-action({k})", g.loc(n),
                     f"`{n.text(70)}` can run for a connection in a ready state")

    # ---------------- R2 overrides ----------------------------------------------
    ctx.rule("C11-R2", "per-peer timer settings take precedence over the node defaults", floor=3)
    T.check_overrides(ctx, ["idle_timeout", "dwa_timeout"], "C11-R2")

    # ---------------- R3 state updates -------------------------------------------
    ctx.rule("C11-R3", "DWR/DWA state updates: send then mark waiting; DWA restores ready only "
                       "from waiting; wait/idle clocks", floor=6)
    nc = model.cls("node.node", "Node")
    pc = model.cls("node.peer", "PeerConnection")
    ctx.use(pc)
    sd = nc.methods.get("send_dwr")
    if sd is None:
        raise AnalysisError("Node.send_dwr not found")
    gs = cfg_of(sd)
    sparam = [a.arg for a in sd.node.args.args][1]
    sends = [n for n in gs.nodes if n.has_call("send_message")]
    marks = [n for n in gs.nodes if any(A.call_name(c) == f"{sparam}.reset_last_dwr" for c in n.calls())]
    ctx.inst("send_dwr:mark-waiting")
    if len(sends) != 1 or not marks or not gs.dominated(gs.exit, marks) or not gs.dominated(gs.exit, sends):
        ctx.fail("send_dwr:mark-waiting", sd.loc(), "send_dwr must send exactly one DWR and mark "
                 "the connection as awaiting the DWA (reset_last_dwr) on every path; otherwise a DWR "
                 "is sent at every timer check and the DWA timeout never runs")
    else:
        msgs = [n for n in gs.nodes if n.kind == "stmt" and isinstance(n.ast, ast.Assign)
                and isinstance(n.ast.value, ast.Call) and A.call_name(n.ast.value) == "DeviceWatchdogRequest"]
        if not msgs:
            ctx.fail("send_dwr:mark-waiting#type", sd.loc(), "the watchdog request is not a DeviceWatchdogRequest")
    rdwr = pc.methods.get("reset_last_dwr")
    rdwa = pc.methods.get("reset_last_dwa")
    if rdwr is None or rdwa is None:
        raise AnalysisError("PeerConnection.reset_last_dwr/reset_last_dwa not found")
    atp = Atomizer(model, pc.module, pc)
    for f, target, guard_ok, what in (
            (rdwr, WAITING, lambda fs: ("self.state", "in", READY, True) in fs
             or ("self.state", "==", PREADY, True) in fs, "ready"),
            (rdwa, PREADY, lambda fs: ("self.state", "==", WAITING, True) in fs, "READY_WAITING_DWA")):
        gf = cfg_of(f)
        cons = f"PeerConnection.{f.name}:state"
        ctx.inst(cons)
        stores = [n for n in gf.nodes if n.kind == "stmt"
                  and any(A.dotted(t) == "self.state" for t in n.stores())]
        if len(stores) != 1 or model.try_fold(stores[0].ast.value, pc.module, pc) != target:
            ctx.fail(cons, f.loc(), f"{f.name} must store exactly the state {target:#x}")
            continue
        fs = must_facts(gf, atp, stores[0])
        if not guard_ok(fs):
            ctx.fail(cons, gf.loc(stores[0]),
                     f"{f.name} changes the state without requiring the current state to be "
                     f"{what}: e.g. a late DWA turns a DISCONNECTING/CLOSING connection back into "
                     f"a ready one that is routed to (facts: {_fmt(fs)})")
        # _last_dwr
        ld = [n for n in gf.nodes if n.kind == "stmt"
              and any(A.dotted(t) == "self._last_dwr" for t in n.stores())]
        cons = f"PeerConnection.{f.name}:_last_dwr"
        ctx.inst(cons)
        if not ld or not gf.dominated(gf.exit, ld):
            ctx.fail(cons, f.loc(), f"{f.name} does not update _last_dwr on every path")
        else:
            v = ld[0].ast.value
            if f is rdwa and model.try_fold(v, pc.module, pc) != 0:
                ctx.fail(cons, gf.loc(ld[0]), "reset_last_dwa must zero _last_dwr (DWA wait clock keeps running)")
            if f is rdwr and not clock_sources(model, pc.module, v, pc):
                ctx.fail(cons, gf.loc(ld[0]), "reset_last_dwr must store the current time")
    # receive_dwa -> reset_last_dwa
    rd = nc.methods.get("receive_dwa")
    ctx.inst("Node.receive_dwa")
    if rd is None:
        ctx.error("Node.receive_dwa not found")
    else:
        gp = cfg_of(rd)
        p = [a.arg for a in rd.node.args.args][1]
        calls = [n for n in gp.nodes if any(A.call_name(c) == f"{p}.reset_last_dwa" for c in n.calls())]
        if not calls or not gp.dominated(gp.exit, calls):
            ctx.fail("Node.receive_dwa", rd.loc(), "a received DWA does not reset the watchdog "
                     "(connection is closed although the peer answered)")
        else:
            # ... on exceptional paths too: nothing that can raise precedes the reset
            from ..effects import effects_of
            ge = cfg_of(rd, effects=effects_of(model))
            ecalls = [n for n in ge.nodes if any(A.call_name(c) == f"{p}.reset_last_dwa" for c in n.calls())]
            before = ge.reach([ge.entry], blocked=ecalls)
            esc = [n for n in before if n.raises and any(l in ("exc", "raise") for l, _ in n.succ)]
            if esc:
                ctx.fail("Node.receive_dwa#raises-first", ge.loc(esc[0]), f"`{esc[0].text(80)}` can raise "
                         f"({sorted(esc[0].raises)}) before the watchdog is reset: the exception is "
                         f"swallowed by _receive_message, the connection stays in READY_WAITING_DWA "
                         f"and is closed with DWA_TIMEOUT although the DWA arrived in time")
        if any(n.has_call("send_message") for n in gp.nodes):
            ctx.fail("Node.receive_dwa#send", rd.loc(), "receive_dwa transmits a message")
    # only a DWA ends the wait for a DWA: reset_last_dwa has no caller but receive_dwa (who-may-call)
    ctx.inst("reset_last_dwa:called-for-a-DWA-only")
    for f_ in model.all_funcs():
        if ".node" not in f_.module.name or (f_.cls is nc and f_.name == "receive_dwa"):
            continue
        for c_ in ast.walk(f_.node):
            if isinstance(c_, ast.Call) and isinstance(c_.func, ast.Attribute) and c_.func.attr == "reset_last_dwa":
                ctx.fail("reset_last_dwa:called-for-a-DWA-only", f_.loc(c_),
                         f"{f_.qualname} ends the wait for the DWA (`{ast.unparse(c_)[:50]}`) without a DWA "
                         f"having been received: the connection returns to READY on other traffic (the "
                         f"peer's own DWR, a request), is not closed when the DWA timeout expires, and a "
                         f"second DWR is sent while the first is unanswered",
                         expected="reset_last_dwa called from Node.receive_dwa only", observed=f_.qualname)
    # clocks
    for prop, attr in (("dwa_wait_time", "_last_dwr"), ("last_read_since", "_last_read")):
        f = pc.methods.get(prop)
        cons = f"PeerConnection.{prop}"
        ctx.inst(cons)
        if f is None:
            ctx.error(f"PeerConnection.{prop} not found")
            continue
        rets = [n for n in ast.walk(f.node) if isinstance(n, ast.Return) and n.value is not None]
        # the stamp may be read once into a local (`v = self.<attr>`) that is tested and subtracted
        local = {t.id for x in ast.walk(f.node) if isinstance(x, ast.Assign)
                 and A.dotted(x.value) == f"self.{attr}" for t in x.targets if isinstance(t, ast.Name)}
        ok = any(isinstance(r.value, ast.BinOp) and isinstance(r.value.op, ast.Sub)
                 and clock_sources(model, pc.module, r.value.left, pc)
                 and (A.dotted(r.value.right) == f"self.{attr}"
                      or (isinstance(r.value.right, ast.Name) and r.value.right.id in local)) for r in rets)
        if not ok:
            ctx.fail(cons, f.loc(), f"{prop} is not `now - self.{attr}`")
        if prop == "dwa_wait_time":
            # the stamp is cleared by the reader thread when the DWA arrives while the I/O thread
            # evaluates this property for the timer check: it is read ONCE (directly or through a
            # property that reads it), so that the test and the subtraction see the same value
            readers_ = {m.name for m in pc.all_funcs if m.is_property and m is not f and any(
                isinstance(x, ast.Attribute) and x.attr == attr and A.dotted(x.value) == "self"
                for x in ast.walk(m.node))}
            loads = [x for x in ast.walk(f.node) if isinstance(x, ast.Attribute) and isinstance(x.ctx, ast.Load)
                     and A.dotted(x.value) == "self" and (x.attr == attr or x.attr in readers_)]
            ctx.inst(cons + "#read-once", sample=len(loads))
            if len(loads) > 1:
                ctx.fail(cons + "#read-once", f.loc(loads[1]), f"{prop} reads the DWR time stamp {len(loads)} times "
                         f"({[ast.unparse(x) for x in loads]}): the reader thread resets it to 0 when the DWA "
                         f"arrives; between a test `> 0` and the subtraction that makes the wait `now - 0` - the "
                         f"timer check of that round closes the connection with DWA_TIMEOUT although the DWA "
                         f"arrived in time")
            zero = [r for r in rets if model.try_fold(r.value, pc.module, pc) == 0]
            gf = cfg_of(f)
            zn = [n for n in gf.nodes if n.kind == "stmt" and n.ast in zero]
            fs = must_facts(gf, atp, zn[0]) if zn else set()
            stamp = ["self._last_dwr"] + sorted(local)
            if not zn or not (("self.is_waiting_for_dwa", "truthy", None, False) in fs
                              or any((v_, ">", "0", False) in fs or (v_, "==", 0, True) in fs
                                     or (v_, "truthy", None, False) in fs for v_ in stamp)):
                ctx.fail(cons + "#idle", f.loc(), "dwa_wait_time must be 0 while no DWR is outstanding")
    w = pc.methods.get("is_waiting_for_dwa")
    ctx.inst("PeerConnection.is_waiting_for_dwa")
    if w is not None:
        rets = [n for n in ast.walk(w.node) if isinstance(n, ast.Return)]
        a = atp.atom(rets[0].value) if rets else None
        if not (a and a.subject == "self._last_dwr" and a.op == ">" and a.value == "0" and not a.flip):
            ctx.fail("PeerConnection.is_waiting_for_dwa", w.loc(), "is_waiting_for_dwa must be `_last_dwr > 0`")

    # ---------------- R4 receive_dwr ------------------------------------------------
    ctx.rule("C11-R4", "receive_dwr: single path, 2001, Origin-State-Id, one send, no state test "
                       "or change", floor=1)
    f = nc.methods.get("receive_dwr")
    if f is None:
        raise AnalysisError("Node.receive_dwr not found")
    ctx.use(f)
    gd = cfg_of(f)
    cons = "Node.receive_dwr"
    ctx.inst(cons)
    tests = [n for n in gd.nodes if n.kind in ("test", "iter")]
    sends = [n for n in gd.nodes if n.has_call("send_message")]
    probs = []
    if tests:
        probs.append(f"it branches on `{tests[0].text(50)}` (must answer in either ready sub-state)")
    if len(sends) != 1 or not gd.dominated(gd.exit, sends):
        probs.append("it does not send exactly one answer on every path")
    src_stores = {A.dotted(t): n for n in gd.nodes if n.kind == "stmt" for t in n.stores()}
    rc = [n for k, n in src_stores.items() if k.endswith(".result_code")]
    if not rc or model.try_fold(rc[0].ast.value, f.module) != 2001:
        probs.append("Result-Code is not 2001")
    osi = [n for k, n in src_stores.items() if k.endswith(".origin_state_id")]
    if not osi or A.dotted(osi[0].ast.value) != "self.state_id":
        probs.append("Origin-State-Id is not the node's state id")
    if any(k.endswith(".state") for k in src_stores):
        probs.append("it changes the connection state")
    ans = [n for n in gd.nodes if n.kind == "stmt" and isinstance(getattr(n.ast, "value", None), ast.Call)
           and A.call_name(n.ast.value) == "self._generate_answer"]
    if not ans:
        probs.append("the answer is not built from the request")
    for p in probs:
        ctx.fail(cons, f.loc(), f"receive_dwr: {p}")
        break

    # ---------------- R5 idle clock refresh & timer pass -------------------------------
    ctx.rule("C11-R5", "the idle clock is refreshed on every received chunk; the I/O loop checks "
                       "the timers of every connection on every pass", floor=3)
    rq = pc.methods.get("work_read_queue")
    gq = cfg_of(rq, effects=effects_of(model))
    gets = [n for n in gq.nodes if n.kind == "stmt" and any(
        isinstance(c.func, ast.Attribute) and c.func.attr in ("get", "get_nowait")
        and A.dotted(c.func.value) == "self._read_buffer_queue" for c in n.calls())]
    refresh = [n for n in gq.nodes if any(A.call_name(c) == "self.reset_last_read" for c in n.calls())]
    # the clock follows arrival only: refreshing it again when the reader takes a chunk from its
    # queue would make it jump to "now" for bytes that arrived long ago (the reader may have been
    # busy in a request handler), and an idle peer would get its DWR that much too late
    cons = "work_read_queue:no-refresh-on-dequeue"
    ctx.inst(cons)
    if refresh:
        ctx.fail(cons, gq.loc(refresh[0]), "the reader thread refreshes the idle clock when it takes a "
                 "chunk from its queue: last_read jumps to the time of processing instead of staying "
                 "at the time of arrival, so after a slow handler the DWR for a silent peer is sent "
                 "late by the time the chunk waited")
    # ... and already when they ARRIVE: the reader thread may be busy (the request handler of a
    # plain Application runs on it, a large message takes seconds to decode) while the peer keeps
    # sending - bytes waiting in the read queue are received bytes
    aib = pc.methods.get("add_in_bytes")
    cons_ai = "add_in_bytes:idle-refresh"
    ctx.inst(cons_ai)
    if aib is None:
        ctx.error("PeerConnection.add_in_bytes not found", rule="C11-R5")
    else:
        ctx.use(aib)
        ga = cfg_of(aib)
        rf = [n for n in ga.nodes if any(A.call_name(c) == "self.reset_last_read" for c in n.calls())]
        if not rf or not ga.dominated(ga.exit, rf):
            ctx.fail(cons_ai, aib.loc(), "add_in_bytes (called by the I/O thread for every chunk read "
                     "from the socket) does not refresh the idle clock: last_read follows what the "
                     "reader thread has taken from its queue, so a peer that keeps sending while the "
                     "reader is busy is treated as idle, gets a DWR and is closed with DWA_TIMEOUT "
                     "although its DWA has arrived")
    rl = pc.methods.get("reset_last_read")
    ctx.inst("PeerConnection.reset_last_read")
    if rl is None or not clock_sources(model, pc.module, rl.node, pc) or "_last_read" not in ast.unparse(rl.node):
        ctx.fail("PeerConnection.reset_last_read", pc.loc(), "reset_last_read must store the current time in _last_read")
    hc = nc.methods.get("_handle_connections")
    gh = cfg_of(hc)
    loops = [n for n in gh.nodes if n.kind == "iter" and any(
        m.has_call("_check_timers") for m in gh.reach([d for l, d in n.succ if l == "iter"], blocked=[n]))]
    ctx.inst("_handle_connections:timer-pass")
    outer = [n for n in gh.nodes if n.kind == "loop"]
    if not loops or not outer:
        ctx.fail("_handle_connections:timer-pass", hc.loc(), "the I/O loop never checks connection timers")
    else:
        it = loops[0]
        if "connections" not in ast.unparse(it.ast.iter):
            ctx.fail("_handle_connections:timer-pass", gh.loc(it), "timers are not checked for every connection")
        r = gh.reach([d for l, d in outer[0].succ], blocked=[it])
        if outer[0] in r:
            ctx.fail("_handle_connections:timer-pass", gh.loc(it), "an iteration of the I/O loop can "
                     "skip the timer pass")
        inloop = gh.reach([d for l, d in it.succ if l == "iter"], blocked=[it])
        body = [m for m in inloop if m.has_call("_check_timers")][0]
        call = [c for c in body.calls() if A.call_name(c) == "self._check_timers"]
        # the only connections the pass may leave out are those it closes instead (CLOSED, or
        # CLOSING with nothing left to write): they have no timers any more
        skip = gh.reach([d for l, d in it.succ if l == "iter"], blocked=[it, body])
        skipping_exits = [m for m in skip if any(d is it for l, d in m.succ)]
        for m in skipping_exits:
            if not any(A.call_name(c) == "self.close_connection_socket" for c in m.calls()) and m is not body:
                fx = must_facts(gh, Atomizer(model, hc.module, nc), m)
                ctx.fail("_handle_connections:timer-pass#every-connection", gh.loc(m),
                         f"the timer pass leaves out a connection without closing it "
                         f"({sorted(map(str, fx))[:3]}): its time-outs are never checked")
                break
        if not call or [ast.unparse(a) for a in call[0].args] != [ast.unparse(it.ast.target)]:
            ctx.fail("_handle_connections:timer-pass#arg", gh.loc(body), "_check_timers is not called with the iterated connection")

    # a connection waiting for its DWA leaves that state only through a DWA or a close: nothing
    # else (e.g. a second CER / an unsolicited CEA) may store PEER_READY
    from .common_node import ready_state_stores
    ready_state_stores(ctx, "C11-R6")
    from . import c06
    ctx.include(c06.run, {"C06-R1"}, "C11-R8",
                "in either ready sub-state every received message - a DWR while the own DWR is "
                "outstanding included - reaches the node's dispatch (gate table of the connection)",
                floor=9, constructs=lambda c: "gate(PEER_READY" in c)
    clock_agreement(ctx, "C11-R7", {("node.peer", "PeerConnection", "_last_read"): ["last_read_since"],
                                    ("node.peer", "PeerConnection", "_last_dwr"): ["dwa_wait_time"]})


def _fmt(facts) -> str:
    return "; ".join(f"{'' if t else 'not '}({s} {o} {sorted(v) if isinstance(v, frozenset) else v})"
                     for s, o, v, t in sorted(facts, key=str))[:400]
