"""C08 - requests reach exactly the matching application, else the specified error."""
from __future__ import annotations

import ast

from ..report import Ctx
from ..srcmodel import AnalysisError
from ..cfg import cfg_of
from ..atoms import Atomizer, AtomTracker, FlagTracker, ComboTracker, must_facts, guarded_any
from ..effects import effects_of
from .. import astutil as A
from .recvmsg import RecvModel

TECHNIQUE = "dispatch table from CFG must-facts with atom-consistency tracking; outcome table of " \
            "_receive_app_request; structural checks of validation and route-table construction"
EXPLANATION = (
    "The dispatch table of Node._receive_message is extracted from its CFG (match arms "
    "decomposed, the same test kept consistent along a path): which (R bit, command code) "
    "combinations reach which handler; application handlers are reachable only for non-base "
    "codes and nothing below the base handlers reaches an Application method. The validation "
    "branch (request & switch on -> 5005 with Failed-AVP = the list returned by "
    "validate_message_avps, one send, return) and validate_message_avps' selection condition are "
    "checked as shapes; the outcome table of _receive_app_request (realm not served -> 3003, no "
    "application -> 3007, match -> record + exactly one receive_request on the application "
    "selected under application-id equality and peer membership, first match wins) is "
    "extracted from guard facts; result codes are compared after constant folding; the route "
    "table construction in add_application/add_peer is checked structurally.")
ASSUMPTIONS = [
    "not decided: behaviour under interleaved traffic; correctness of user handle_request implementations",
    "Application objects are truthy (no __bool__/__len__ on Application - checked)",
]

BASE = {"receive_cer": (True, "CMD_CAPABILITIES_EXCHANGE"), "receive_cea": (False, "CMD_CAPABILITIES_EXCHANGE"),
        "receive_dwr": (True, "CMD_DEVICE_WATCHDOG"), "receive_dwa": (False, "CMD_DEVICE_WATCHDOG"),
        "receive_dpr": (True, "CMD_DISCONNECT_PEER"), "receive_dpa": (False, "CMD_DISCONNECT_PEER")}


def run(ctx: Ctx):
    model = ctx.model
    from .common_node import names_resolve
    names_resolve(ctx, "C08-RN")
    from .recvmsg import received_messages_reach_dispatch
    received_messages_reach_dispatch(ctx, "C08-R12", answers=False, requests=True)
    from .common_node import application_delivery_chain
    application_delivery_chain(ctx, "C08-R11")
    # ---------------- R13 the outcome is decided for any content ------------------------------------
    # _receive_app_request reads AVP attributes of the request (Destination-Realm, ...): a typed
    # request has every attribute, set to None when the AVP is absent (with validation of received
    # requests off that reaches this function).  An AttributeError / TypeError there is the
    # catch-all's 5012 in place of the specified 3003 / 3007
    E13 = effects_of(model)
    ctx.rule("C08-R13", "_receive_app_request raises nothing that depends on which AVPs the request "
                        "carries", floor=1)
    f13 = model.cls("node.node", "Node").methods.get("_receive_app_request")
    ctx.inst("_receive_app_request:decided-for-any-content", rule="C08-R13")
    if f13 is not None:
        ctx.use(f13)
        # the realm is used as bytes (`.lower()`, `.decode()`) only where it is known to BE bytes:
        # `hasattr(message, "destination_realm")` is true for every typed request, whose attribute
        # is None when the AVP is absent
        g13 = cfg_of(f13)
        at13 = Atomizer(model, f13.module, f13.cls)
        ctx.inst("_receive_app_request:realm-is-bytes", rule="C08-R13")
        for n13 in g13.nodes:
            if n13.ast is None or n13.kind not in ("stmt", "test"):
                continue
            uses = [x for x in ast.walk(n13.ast) if isinstance(x, ast.Call) and isinstance(x.func, ast.Attribute)
                    and x.func.attr in ("lower", "decode", "casefold", "strip")
                    and isinstance(x.func.value, ast.Attribute) and x.func.value.attr == "destination_realm"]
            if not uses:
                continue
            fx = must_facts(g13, at13, n13)
            known = any("destination_realm" in str(f_[0]) and (
                (str(f_[0]).replace(" ", "").startswith("isinstance(") and f_[1] == "truthy" and f_[3] is True)
                or (f_[1] == "is" and f_[2] is None and f_[3] is False)) for f_ in fx)
            if not known:
                ctx.fail("_receive_app_request:realm-is-bytes", g13.loc(n13),
                         f"`{ast.unparse(uses[0])[:60]}` runs without the realm being known to be bytes (guards: "
                         f"{[str(x) for x in fx if 'destination_realm' in str(x[0])][:2]}): a typed request without "
                         f"Destination-Realm (attribute None; validation of received requests off) raises "
                         f"AttributeError - the catch-all's 5012 instead of 3007 'realm name not present'",
                         rule="C08-R13", expected="isinstance(getattr(message, 'destination_realm', None), bytes)",
                         observed="hasattr() or no test")
                break
        for e_ in sorted(set(E13.raises(f13)) & {"AttributeError", "TypeError", "UnicodeDecodeError"}):
            ch = E13.why(f13, e_)
            if ch and "handle_request" in " ".join(ch):
                continue          # what the application's handler raises is the handler's
            ctx.fail(f"_receive_app_request:{e_}", ch[-1].split(": ")[0] if ch else f13.loc(),
                     f"_receive_app_request can raise {e_} on the request's content "
                     f"({ch[-1].split(': ', 1)[-1] if ch else ''}): the peer gets the catch-all 5012 instead of "
                     f"the outcome specified for a request without (usable) Destination-Realm", rule="C08-R13",
                     steps=ch)
    R = RecvModel(ctx)
    g, at, msg, conn, nc = R.g, R.at, R.msg, R.conn, R.nc
    E = effects_of(model)
    tr = AtomTracker(at, {R.is_req, R.cmd})
    codes = {n: R.code(n) for n in ("CMD_CAPABILITIES_EXCHANGE", "CMD_DEVICE_WATCHDOG", "CMD_DISCONNECT_PEER")}

    # ---------------- R1 dispatch table ----------------------------------------------
    ctx.rule("C08-R1", "dispatch table: base-protocol messages go to their own handlers, "
                       "applications only see other command codes", floor=8)
    seen = {}
    for n, name, c in R.dispatch:
        facts = must_facts(g, at, n, tracker=tr)
        seen.setdefault(name, []).append((n, facts, c))
    for name, (isreq, cname) in BASE.items():
        cons = f"_receive_message:dispatch({name})"
        ctx.inst(cons)
        if name not in seen:
            ctx.fail(cons, R.f.loc(), f"{name} is never dispatched")
            continue
        for n, facts, c in seen[name]:
            ok = (R.is_req, "truthy", None, isreq) in facts and (R.cmd, "==", codes[cname], True) in facts
            if not ok:
                ctx.fail(cons, g.loc(n), f"{name} is not dispatched exactly for "
                         f"({'request' if isreq else 'answer'}, {cname}); e.g. a wildcard arm placed "
                         f"before it takes its messages")
            if [A.dotted(a) for a in c.args] != [conn, msg]:
                ctx.fail(cons + "#args", g.loc(n), f"{name} is not called with (connection, message)")
    for name, isreq in (("_receive_app_request", True), ("_receive_app_answer", False)):
        cons = f"_receive_message:dispatch({name})"
        ctx.inst(cons)
        if name not in seen or len(seen[name]) != 1:
            ctx.fail(cons, R.f.loc(), f"{name} must be dispatched from exactly one place")
            continue
        n, facts, c = seen[name][0]
        if (R.is_req, "truthy", None, isreq) not in facts:
            ctx.fail(cons, g.loc(n), f"{name} is reachable for the wrong direction (R bit)")
        for cname, val in codes.items():
            if (R.cmd, "==", val, False) not in facts:
                ctx.fail(cons, g.loc(n), f"{name} is reachable for {cname}: base-protocol messages "
                         f"are handed to an application")
                break
        if [A.dotted(a) for a in c.args] != [conn, msg]:
            ctx.fail(cons + "#args", g.loc(n), f"{name} is not called with (connection, message)")
    # nothing below the base handlers reaches an application
    app_methods = {"receive_request", "receive_answer", "handle_request", "handle_answer"}
    for name in BASE:
        f = nc.methods.get(name)
        if f is None:
            continue
        cons = f"Node.{name}:no-application"
        ctx.inst(cons)
        for h in E.reachable_funcs([f]):
            if h.cls is not None and "Application" in h.cls.name and h.name in app_methods:
                ctx.fail(cons, f.loc(), f"{h.qualname} is reachable from {name}: a base-protocol "
                         f"message is shown to an application")
                break
    # 5012 on handler failure
    cons = "_receive_message:handler-5012"
    ctx.inst(cons)
    UNABLE = R.code("E_RESULT_CODE_DIAMETER_UNABLE_TO_COMPLY")
    hs = [s for s in R.sends if any(isinstance(x, ast.ExceptHandler) for x in _anc(R.f.node, s.ast))]
    disp_in_try = all(any(isinstance(x, ast.Try) for x in n.lexical) for n, _, _ in R.dispatch)
    if not hs or not disp_in_try:
        ctx.fail(cons, R.f.loc(), "dispatch is not wrapped by a handler that answers 5012 when "
                 "handling fails")
    else:
        av = R.answer_var_of_send(hs[0])[1]
        rc, _ = R.result_code_store(av, hs[0])
        if rc != UNABLE:
            ctx.fail(cons, g.loc(hs[0]), f"handling failures are answered {rc}, not 5012")
        for t in [x for x in R.dispatch[0][0].lexical if isinstance(x, ast.Try)]:
            if not any(h.type is None or ast.unparse(h.type) in ("Exception", "BaseException")
                       for h in t.handlers):
                ctx.fail(cons + "#narrow", R.f.loc(t), "the handler around dispatch does not catch Exception")
            # every handler of that try answers (or re-raises): none swallows a failure silently
            for h in t.handlers:
                own = [s_ for s_ in hs if h in _anc(R.f.node, s_.ast)]
                reraises = any(isinstance(x, ast.Raise) for x in A.stmts_walk(h.body))
                okh = False
                for s_ in own:
                    av_ = R.answer_var_of_send(s_)[1]
                    if R.result_code_store(av_, s_)[0] == UNABLE:
                        okh = True
                if not okh and not reraises:
                    ctx.fail(cons + "#swallow", R.f.loc(h), f"`except "
                             f"{ast.unparse(h.type) if h.type is not None else ''}` around dispatch "
                             f"neither answers 5012 nor re-raises: a request whose handling fails "
                             f"with that exception is never answered")

    # ---------------- R2 validation branch ------------------------------------------------
    ctx.rule("C08-R2", "required-AVP validation: request & switch -> 5005 + Failed-AVP(list) + one "
                       "send + return; selection = is_required and attribute is None", floor=2)
    MISSING = R.code("E_RESULT_CODE_DIAMETER_MISSING_AVP")
    vcalls = [n for n in g.nodes if n.kind == "stmt" and any(
        A.call_name(c) == "validate_message_avps" for c in n.calls())]
    cons = "_receive_message:validation"
    ctx.inst(cons)
    if len(vcalls) != 1:
        ctx.fail(cons, R.f.loc(), "required-AVP validation is not performed exactly once")
    else:
        v = vcalls[0]
        facts = R.facts(v)
        if not R.is_request_fact(facts) or ("self.validate_received_request_avps", "truthy", None, True) not in facts:
            ctx.fail(cons, g.loc(v), "validation must run for requests when "
                     "validate_received_request_avps is on")
        extra = [f for f in facts if f[0] not in (R.is_req, "self.validate_received_request_avps")]
        if extra:
            ctx.fail(cons + "#extra", g.loc(v), f"validation additionally requires {extra}")
        res = A.dotted(A.store_targets(v.ast)[0]) if A.store_targets(v.ast) else None
        call = [c for c in v.calls() if A.call_name(c) == "validate_message_avps"][0]
        if [A.dotted(a) for a in call.args] != [msg]:
            ctx.fail(cons + "#arg", g.loc(v), "validation is not applied to the received message")
        # the 5005 branch
        branch = [n for n in R.answers if (res, "truthy", None, True) in R.facts(n)]
        if len(branch) != 1:
            ctx.fail(cons + "#branch", g.loc(v), "a non-empty validation result does not lead to "
                     "exactly one error answer")
        else:
            b = branch[0]
            av = A.dotted(A.store_targets(b.ast)[0])
            sends = [s for s in R.sends if g.dominated(s, [b]) and R.answer_var_of_send(s)[1] == av]
            if len(sends) != 1:
                ctx.fail(cons + "#send", g.loc(b), "the 5005 answer is not sent exactly once")
            else:
                s = sends[0]
                rc, _ = R.result_code_store(av, s)
                if rc != MISSING:
                    ctx.fail(cons + "#code", g.loc(s), f"missing required AVPs are answered {rc}, not 5005")
                fav = [n for n in g.nodes if n.kind == "stmt" and isinstance(n.ast, ast.Assign)
                       and any(A.dotted(t) == f"{av}.failed_avp" for t in n.ast.targets)
                       and g.dominated(s, [n])]
                okf = False
                for n in fav:
                    val = n.ast.value
                    if isinstance(val, ast.Call) and A.call_name(val) == "FailedAvp":
                        kws = {k.arg: A.dotted(k.value) for k in val.keywords}
                        if kws.get("additional_avps") == res:
                            okf = True
                if not okf:
                    ctx.fail(cons + "#failed-avp", g.loc(s), "the 5005 answer does not carry "
                             "Failed-AVP listing exactly the AVPs reported by validate_message_avps")
                after = g.reach([s], include_starts=False)
                if any(d in after for d, _, _ in R.dispatch):
                    ctx.fail(cons + "#dispatch", g.loc(s), "a request failing validation is still "
                             "dispatched (the application sees it)")
        # validation precedes dispatch
        for d, name, _ in R.dispatch:
            if name.startswith("_receive_app_request") and not _passes(g, at, d, v, R):
                ctx.fail(cons + "#order", g.loc(d), "application requests can be dispatched without "
                         "having been validated")
    vf = model.func("node._helpers", "validate_message_avps")
    ctx.use(vf)
    gv = cfg_of(vf)
    atv = Atomizer(model, vf.module, None)
    cons = "validate_message_avps:selection"
    ctx.inst(cons)
    appends = [n for n in gv.nodes if n.kind == "stmt" and any(
        isinstance(c.func, ast.Attribute) and c.func.attr == "append" for c in n.calls())]
    loops = [n for n in gv.nodes if n.kind == "iter"]
    vparam = [a.arg for a in vf.node.args.args][0]
    if len(appends) != 1 or len(loops) != 1 or A.dotted(loops[0].ast.iter) != f"{vparam}.avp_def":
        ctx.fail(cons, vf.loc(), "validate_message_avps does not collect over msg.avp_def")
    else:
        d = ast.unparse(loops[0].ast.target)
        facts = must_facts(gv, atv, appends[0])
        want_req = (f"{d}.is_required", "truthy", None, True)
        none_fact = [f for f in facts if f[1] == "is" and f[2] is None and f[3]
                     and f[0].replace(" ", "") == f"getattr({vparam},{d}.attr_name)"]
        if want_req not in facts or not none_fact:
            ctx.fail(cons, gv.loc(appends[0]), f"an AVP is reported missing without requiring "
                     f"`{d}.is_required and getattr({vparam}, {d}.attr_name) is None`")
        extra = [f for f in facts if f != want_req and f not in none_fact
                 and not f[0].startswith("hasattr(")]
        if extra:
            ctx.fail(cons + "#extra", gv.loc(appends[0]), f"a missing required AVP is only reported "
                     f"under the additional condition {extra}: requests lacking such AVPs are "
                     f"handed to the application instead of being answered 5005")
        call = [c for c in appends[0].calls() if isinstance(c.func, ast.Attribute) and c.func.attr == "append"][0]
        arg = call.args[0] if call.args else None
        if not (isinstance(arg, ast.Call) and A.call_name(arg) == "Avp.new"
                and [ast.unparse(a) for a in arg.args] == [f"{d}.avp_code", f"{d}.vendor_id"]):
            ctx.fail(cons + "#avp", gv.loc(appends[0]), "the reported AVP is not "
                     "Avp.new(def.avp_code, def.vendor_id)")
        rets = [n for n in gv.nodes if n.kind == "stmt" and isinstance(n.ast, ast.Return)]
        lst = A.dotted(call.func.value)
        if not rets or not all(A.dotted(r.ast.value) == lst for r in rets):
            ctx.fail(cons + "#return", vf.loc(), "validate_message_avps does not return the collected list")

    _app_request(ctx, R, E)
    _routes(ctx, model, nc)
    # a request that carries every required AVP stays deliverable when an optional AVP is
    # malformed: the typed decoder reads every AVP value (scalar or grouped) tolerantly
    ctx.rule("C08-R2b", "assign_attr_from_defs reads every AVP value inside try/except "
                        "AvpDecodeError (a malformed optional AVP becomes None instead of making "
                        "the whole request undecodable, i.e. dropped as garbage and never answered)",
             floor=3)
    um_ = model.cls("message._base", "UndefinedMessage").methods.get("_assign_attr_values")
    for asg in [model.func("message.commands._attributes", "assign_attr_from_defs")] + ([um_] if um_ else []):
      ctx.use(asg)
      par = A.parents(asg.node)
      k = 0
      for n in A.walk_no_nested(asg.node):
          if isinstance(n, ast.Attribute) and n.attr == "value" and isinstance(n.ctx, ast.Load):
              k += 1
              cons = f"{asg.name}:value-read#{k}"
              ctx.inst(cons)
              x, ok = n, False
              while x in par:
                  px = par[x]
                  if isinstance(px, ast.Try) and any(x is b for b in px.body):
                      for h in px.handlers:
                          if any(E.is_sub("AvpDecodeError", t) for t in E.handler_types(h)):
                              ok = True
                  x = px
              if not ok:
                  ctx.fail(f"{asg.name}:value-read", asg.loc(n),
                           f"`{ast.unparse(par.get(n, n))[:70]}` reads an AVP value outside try/except "
                           f"AvpDecodeError: one malformed optional (e.g. Grouped) AVP makes "
                           f"Message.from_bytes raise, the reader discards the frame as garbage and a "
                           f"request that carries every required AVP is neither delivered nor answered")
    # "is this required AVP missing" depends on this message alone: the validation helper and the
    # attribute fallback of the typed classes keep nothing between calls
    from .common_codec import no_hidden_state
    dm_ = model.cls("message._base", "DefinedMessage")
    hs = [f_ for f_ in (model.func("node._helpers", "validate_message_avps"),
                        dm_.methods.get("__getattr__")) if f_ is not None]
    no_hidden_state(ctx, "C08-R2c", hs, set())
    # the peer a request is attributed to is the configured peer, whatever the case of the
    # Origin-Host in its CER
    from . import c06 as _c06
    ctx.include(_c06.run, {"C06-R3"}, "C08-R9",
                "receive_cer finds and records the configured peer under the case-normalised "
                "Origin-Host (the identity the application routes are keyed by)", floor=1,
                constructs=lambda c: c.endswith("#case"))
    from .common_node import identity_semantics, realm_key_case
    identity_semantics(ctx, "C08-R7")
    realm_key_case(ctx, "C08-R10")
    from . import c20
    ctx.include(c20.run, {"C20-R4"}, "C08-R8",
                "the error answers the node makes itself (3003 / 3007 / 5005 / 5012) actually carry "
                "their Result-Code: what _generate_answer returns encodes the attributes set on it",
                floor=2, constructs=lambda c: "untyped" in c)
    from . import c06
    ctx.include(c06.run, {"C06-R1"}, "C08-R6",
                "on a connection in either ready sub-state every received message reaches the "
                "node's dispatch (gate table of the connection)", floor=9)


def _anc(fn, node):
    par = A.parents(fn)
    out = []
    x = node
    while x in par:
        x = par[x]
        out.append(x)
    return out


def _passes(g, at, target, via, R) -> bool:
    """target is reachable (for requests with validation on) only after via completed."""
    edges = g.guard_edges(lambda t: at.label_when(
        t, lambda a: False if a.subject in (R.is_req, "self.validate_received_request_avps")
        and a.op == "truthy" else None))
    r = g.reach([g.entry], normal_blocked=[via], blocked_edges=edges)
    return target not in r


def _app_request(ctx: Ctx, R: RecvModel, E):
    model = ctx.model
    nc = R.nc
    ctx.rule("C08-R3", "outcome table of _receive_app_request: 3003 / 3007 / exactly one "
                       "receive_request on the application matching id and peer", floor=6)
    f = nc.methods.get("_receive_app_request")
    if f is None:
        raise AnalysisError("Node._receive_app_request not found")
    ctx.use(f)
    g = cfg_of(f, effects=E)
    at = Atomizer(model, f.module, nc)
    args = [a.arg for a in f.node.args.args]
    conn, msg = args[1], args[2]
    C = lambda n: model.fold_name(model.module("message.constants"), n)
    REALM, APPUN = C("E_RESULT_CODE_DIAMETER_REALM_NOT_SERVED"), C("E_RESULT_CODE_DIAMETER_APPLICATION_UNSUPPORTED")
    deliveries = [n for n in g.nodes if n.kind == "stmt" and any(
        isinstance(c.func, ast.Attribute) and c.func.attr == "receive_request" for c in n.calls())]
    cons = "_receive_app_request:delivery"
    ctx.inst(cons, sample=[g.loc(n) for n in deliveries])
    if len(deliveries) != 1:
        ctx.fail(cons, f.loc(), f"expected exactly one receive_request call, found {len(deliveries)}")
        return
    dn = deliveries[0]
    dcall = [c for c in dn.calls() if isinstance(c.func, ast.Attribute) and c.func.attr == "receive_request"][0]
    appvar = A.dotted(dcall.func.value)
    if [A.dotted(a) for a in dcall.args] != [msg]:
        ctx.fail(cons + "#arg", g.loc(dn), "the application does not receive the request itself")
    tracker = FlagTracker(at, {appvar})
    # realm variable
    realm_defs = [n for n in g.nodes if n.kind == "stmt" and isinstance(n.ast, ast.Assign)
                  and "destination_realm" in ast.unparse(n.ast.value)]
    realm = A.dotted(realm_defs[0].ast.targets[0]) if realm_defs else None
    facts = must_facts(g, at, dn, tracker=tracker)
    if realm is None or (realm, "in-expr", "self._peer_routes", True) not in facts:
        ctx.fail(cons + "#realm", g.loc(dn), "a request is delivered without its Destination-Realm "
                 "being served by this node")
    elif not _is_decoded_realm(realm_defs[0].ast.value, msg):
        ctx.fail(cons + "#realm-src", g.loc(realm_defs[0]), "the realm used for routing is not the "
                 "request's Destination-Realm")
    # definitions of the selected application
    defs = [n for n in g.nodes if n.kind == "stmt" and isinstance(n.ast, (ast.Assign, ast.AnnAssign))
            and any(A.dotted(t) == appvar for t in A.store_targets(n.ast))
            and not (isinstance(n.ast.value, ast.Constant) and n.ast.value.value is None)]
    appid_defs = [n for n in g.nodes if n.kind == "stmt" and isinstance(n.ast, ast.Assign)
                  and ast.unparse(n.ast.value) == f"{msg}.header.application_id"]
    appid = A.dotted(appid_defs[0].ast.targets[0]) if appid_defs else f"{msg}.header.application_id"
    peer_defs = [n for n in g.nodes if n.kind == "stmt" and isinstance(n.ast, ast.Assign)
                 and isinstance(n.ast.value, ast.Call)
                 and A.call_name(n.ast.value).endswith("_find_connection_peer")]
    peer = A.dotted(peer_defs[0].ast.targets[0]) if peer_defs else None
    loops = [n for n in g.nodes if n.kind == "iter" and "_peer_routes" in ast.unparse(n.ast.iter)]
    cons = "_receive_app_request:selection"
    ctx.inst(cons, sample={"app_var": appvar, "defs": [g.loc(n) for n in defs], "peer": peer})
    if not defs or not loops or peer is None:
        ctx.fail(cons, f.loc(), "no application is selected from the realm's route table for the "
                 "requesting peer")
        return
    it = loops[0]
    it_expr = it.ast.iter
    while isinstance(it_expr, ast.Call) and A.call_name(it_expr) in ("list", "tuple", "sorted") and it_expr.args:
        it_expr = it_expr.args[0]      # a snapshot of the table is the table
    if ast.unparse(it_expr).replace(" ", "") != f"self._peer_routes[{realm}].items()":
        ctx.fail(cons + "#table", g.loc(it), "applications are not looked up in the route table of "
                 "the request's realm")
    tg = it.ast.target
    appl, peers = (ast.unparse(tg.elts[0]), ast.unparse(tg.elts[1])) if isinstance(tg, ast.Tuple) else ("?", "?")
    for d in defs:
        fa = must_facts(g, at, d)
        if ast.unparse(d.ast.value) != appl:
            ctx.fail(cons + "#value", g.loc(d), f"`{appvar}` is assigned `{ast.unparse(d.ast.value)}`, "
                     f"not the route entry's application")
            continue
        idok = any(f_[1] == "==x" and f_[3] and {f_[0], f_[2]} == {f"{appl}.application_id", appid}
                   for f_ in fa)
        if not idok:
            ctx.fail(cons + "#app-id", g.loc(d), "an application is selected without comparing its "
                     "application id with the request's: the request reaches an application that "
                     "does not match")
        if not any(f_[0].replace(" ", "") == f"isinstance({appl},Application)" and f_[3] for f_ in fa):
            ctx.fail(cons + "#type", g.loc(d), "the '_default' route entry (a string key) can be "
                     "selected as application")
        pk = guarded_any(g, at, d, [
            lambda a: True if (a.op == "in-expr" and a.subject == peer and a.value == peers) else None,
            lambda a: False if (a.subject == peer and a.op == "truthy") else None])
        if not pk:
            ctx.fail(cons + "#peer", g.loc(d), "for a known peer an application is selected although "
                     "the peer is not configured for it: the request reaches another application "
                     "with the same id")
        # first match wins
        after = g.reach([x for l, x in d.succ if l != "exc"])
        if it in after:
            ctx.fail(cons + "#first", g.loc(d), "the search continues after a match: a later "
                     "application overrides the first match")
    # delivered exactly when selected: no condition on the connection or on node state narrows it
    cons_x = "_receive_app_request:delivery#extra-condition"
    ctx.inst(cons_x, sample=[list(map(str, x)) for x in facts])
    import re as _re
    for fx in facts:
        txt = f"{fx[0]} {fx[2] if isinstance(fx[2], str) else ''}"
        refs_conn = _re.search(rf"\b{_re.escape(conn)}\.", txt) is not None
        refs_self = [a for a in _re.findall(r"\bself\.(\w+)", txt) if a not in ("_peer_routes", "applications")]
        if refs_conn or refs_self:
            ctx.fail(cons_x, g.loc(dn), f"delivery to the matching application additionally requires "
                     f"{fx}: on a ready connection (either ready sub-state) a request that matches a "
                     f"registered application is withheld from it")
            break
    # delivered only if selected; recorded before delivery; returns afterwards
    if (appvar, "truthy", None, True) not in facts:
        ctx.fail(cons + "#guard", g.loc(dn), "delivery is not conditioned on an application having "
                 "been selected")
    def _is_msg_key(sl):
        t_ = A.resolve_local_chain(f.node, sl)
        return f"{msg}.header.hop_by_hop_identifier" in t_
    recs = [n for n in g.nodes if n.kind == "stmt" and isinstance(n.ast, ast.Assign) and any(
        isinstance(t, ast.Subscript) and _is_msg_key(t.slice) for t in n.ast.targets)]
    cons = "_receive_app_request:pending-record"
    ctx.inst(cons)
    if not recs or not g.dominated(dn, recs):
        ctx.fail(cons, g.loc(dn), "the request is delivered without its identifiers being recorded "
                 "as pending for the requesting connection (its answer can never be routed)")
    else:
        wdef = [n for n in g.nodes if n.kind == "stmt" and isinstance(n.ast, ast.Assign)
                and any(A.dotted(t) == A.dotted(recs[0].ast.targets[0].value) for t in n.ast.targets)]
        if wdef and ast.unparse(wdef[0].ast.value).replace(" ", "") not in (
                f"self._peer_waiting_answer[{conn}.ident]",
                f"self._peer_waiting_answer.setdefault({conn}.ident,{{}})"):
            ctx.fail(cons + "#key", g.loc(wdef[0]), "the pending record is not filed under the "
                     "requesting connection (its ident)")
    after = g.reach([x for l, x in dn.succ if l != "exc"])
    sends = [n for n in g.nodes if n.has_call("send_message")]
    cons = "_receive_app_request:delivered-once"
    ctx.inst(cons)
    if any(s in after for s in sends) or dn in g.reach([x for l, x in dn.succ], include_starts=False):
        ctx.fail(cons, g.loc(dn), "after delivering the request the node still answers it itself "
                 "or delivers it again")
    # error outcomes
    outcomes = {}
    for n in g.nodes:
        if n.kind == "stmt" and isinstance(n.ast, ast.Assign) and any(
                A.dotted(t).endswith(".result_code") for t in n.ast.targets):
            outcomes.setdefault(model.try_fold(n.ast.value, f.module), []).append(n)
    cons = "_receive_app_request:3003"
    ctx.inst(cons)
    n3003 = outcomes.get(REALM, [])
    if len(n3003) != 1 or (realm, "in-expr", "self._peer_routes", False) not in must_facts(g, at, n3003[0]):
        ctx.fail(cons, f.loc(), "a request for a realm this node does not serve is not answered "
                 "3003 (REALM_NOT_SERVED) exactly under `realm not in _peer_routes`")
    # ... also for a realm that is not valid text: decoding it strictly raises, and the generic
    # handler answers 5012 for what is simply a realm this node does not serve
    cons_u = "_receive_app_request:3003#undecodable"
    ctx.inst(cons_u)
    if realm_defs:
        from ..effects import effects_of as _eo3
        ge3 = cfg_of(f, effects=_eo3(model))
        rdn = [x for x in ge3.nodes if x.kind == "stmt"
               and getattr(x.ast, "lineno", -1) == realm_defs[0].ast.lineno]
        if rdn and "UnicodeDecodeError" in (rdn[0].raises or ()):
            ctx.fail(cons_u, g.loc(realm_defs[0]), f"`{realm_defs[0].text(70)}` raises UnicodeDecodeError "
                     f"for a Destination-Realm that is not valid UTF-8: the request is answered 5012 "
                     f"by the generic error handler instead of 3003 (the realm is not one this node "
                     f"serves)")
    cons = "_receive_app_request:3007"
    ctx.inst(cons)
    n3007 = [n for n in outcomes.get(APPUN, [])
             if (realm, "in-expr", "self._peer_routes", True) in must_facts(g, at, n, tracker=tracker)]
    if len(n3007) != 1:
        ctx.fail(cons, f.loc(), "a request for a served realm without matching application is not "
                 "answered 3007 (APPLICATION_UNSUPPORTED)")
    else:
        r = g.reach([g.entry], tracker=tracker, blocked_edges=g.guard_edges(
            lambda t: at.label_when(t, lambda a: False if (a.subject == appvar and a.op == "truthy") else None)))
        if n3007[0] in r and (appvar, "truthy", None, False) not in must_facts(g, at, n3007[0], tracker=tracker):
            ctx.fail(cons + "#guard", g.loc(n3007[0]), "3007 can be sent although an application was selected")
    cons = "_receive_app_request:outcome-codes"
    ctx.inst(cons, sample=sorted(str(k) for k in outcomes))
    for code, ns in outcomes.items():
        if code not in (REALM, APPUN):
            ctx.fail(cons, g.loc(ns[0]), f"_receive_app_request answers a request itself with result "
                     f"code {code}: the only self-made outcomes of routing are 3003 (realm not "
                     f"served) and 3007 (no matching application)")
    for code, ns in outcomes.items():
        for n in ns:
            av = A.dotted(n.ast.targets[0]).rsplit(".", 1)[0]
            ss = [s for s in sends if g.dominated(s, [n]) and any(
                A.dotted(c.args[1]) == av for c in s.calls() if A.call_name(c).endswith("send_message"))]
            if len(ss) != 1:
                ctx.inst(f"_receive_app_request:send({code})")
                ctx.fail(f"_receive_app_request:send({code})", g.loc(n), f"the {code} answer is not sent exactly once")
    acls = model.cls("node.application", "Application")
    ctx.inst("Application:truthy")
    for c in [acls] + model.subclasses(acls):
        if "__bool__" in c.methods or "__len__" in c.methods:
            ctx.fail("Application:truthy", c.loc(), f"{c.name} defines __bool__/__len__")


def _is_decoded_realm(v, msg) -> bool:
    """<msg>.destination_realm.decode(...), optionally case-normalised."""
    seen_decode = False
    while isinstance(v, ast.Call) and isinstance(v.func, ast.Attribute) and v.func.attr in ("lower", "casefold", "decode"):
        seen_decode = seen_decode or v.func.attr == "decode"
        v = v.func.value
    return seen_decode and ast.unparse(v) == f"{msg}.destination_realm"


def _routes(ctx: Ctx, model, nc):
    ctx.rule("C08-R5", "route tables: add_application registers the application under each peer's "
                       "own realm plus the extra realms (fresh list per peer); default peers go to "
                       "'_default'", floor=2)
    f = nc.methods.get("add_application")
    if f is None:
        raise AnalysisError("Node.add_application not found")
    ctx.use(f)
    args = [a.arg for a in f.node.args.args]
    app, peers, realms = args[1], args[2], args[3] if len(args) > 3 else None
    outer = [n for n in A.walk_no_nested(f.node) if isinstance(n, ast.For) and A.dotted(n.iter) == peers]
    cons = "add_application:routes"
    ctx.inst(cons)
    if len(outer) != 1:
        ctx.fail(cons, f.loc(), "add_application does not iterate the given peers")
        return
    o = outer[0]
    pv = ast.unparse(o.target)
    inner = [n for n in ast.walk(o) if isinstance(n, ast.For) and n is not o]
    if len(inner) != 1:
        ctx.fail(cons, f.loc(o), "no per-realm registration loop inside the peer loop")
        return
    i = inner[0]
    rl = i.iter
    if isinstance(rl, ast.Name):
        defs_in = [n for n in ast.walk(o) if isinstance(n, ast.Assign)
                   and any(isinstance(t, ast.Name) and t.id == rl.id for t in n.targets)]
        defs_all = [n for n in A.walk_no_nested(f.node) if isinstance(n, (ast.Assign, ast.AugAssign))
                    and any(isinstance(t, ast.Name) and t.id == rl.id for t in A.store_targets(n))]
        muts = [n for n in A.walk_no_nested(f.node) if isinstance(n, ast.Call)
                and isinstance(n.func, ast.Attribute) and A.dotted(n.func.value) == rl.id
                and n.func.attr in ("append", "extend", "insert", "add")]
        if len(defs_in) != 1 or len(defs_all) != 1 or muts:
            ctx.fail(cons, f.loc(i), f"the realm list `{rl.id}` is not built afresh for every peer "
                     f"(hoisted out of the peer loop, shared or mutated): realms of earlier peers "
                     f"leak into later peers' routes and requests for a foreign realm are delivered "
                     f"instead of being answered 3007")
            return
        rl = defs_in[0].value
    ok = (isinstance(rl, ast.BinOp) and isinstance(rl.op, ast.Add) and isinstance(rl.left, ast.List)
          and [ast.unparse(e) for e in rl.left.elts] == [f"{pv}.realm_name"]
          and ast.unparse(rl.right).replace(" ", "") in (f"({realms}or[])", f"{realms}or[]", f"list({realms}or[])"))
    if not ok:
        ctx.fail(cons, f.loc(i), f"the realms an application is registered under are not "
                 f"`[peer.realm_name] + (realms or [])`: `{ast.unparse(rl)}`")
    body = ast.unparse(i)
    rv = ast.unparse(i.target)
    keyed = any(isinstance(n, ast.Call) and isinstance(n.func, ast.Attribute)
                and n.func.attr == "setdefault" and n.args and A.dotted(n.args[0]) == app
                for n in ast.walk(i)) or any(
        isinstance(n, ast.Subscript) and A.dotted(n.slice) == app for n in ast.walk(i))
    realm_keyed = any(isinstance(n, ast.Subscript) and A.dotted(n.slice) == rv
                      and "_peer_routes" in ast.unparse(n.value) for n in ast.walk(i)) or any(
        isinstance(n, ast.Call) and isinstance(n.func, ast.Attribute) and n.func.attr == "setdefault"
        and n.args and A.dotted(n.args[0]) == rv and "_peer_routes" in ast.unparse(n.func.value)
        for n in ast.walk(i))
    appended = any(isinstance(n, ast.Call) and isinstance(n.func, ast.Attribute)
                   and n.func.attr == "append" and [A.dotted(a) for a in n.args] == [pv]
                   for n in ast.walk(i))
    if not (keyed and realm_keyed and appended):
        ctx.fail(cons + "#insert", f.loc(i), "the peer is not appended to the route entry of "
                 "(realm, application)")
    if not any(isinstance(n, ast.Call) and A.call_name(n) == "self.applications.append"
               and [A.dotted(a) for a in n.args] == [app] for n in A.walk_no_nested(f.node)):
        ctx.fail(cons + "#apps", f.loc(), "the application is not added to Node.applications")
    f = nc.methods.get("add_peer")
    cons = "add_peer:default-route"
    ctx.inst(cons)
    if f is None:
        ctx.error("Node.add_peer not found")
        return
    ctx.use(f)
    g = cfg_of(f)
    at = Atomizer(model, f.module, nc)
    appends = [n for n in g.nodes if n.kind == "stmt" and any(
        isinstance(c.func, ast.Attribute) and c.func.attr == "append" for c in n.calls())]
    if not appends or ("is_default", "truthy", None, True) not in must_facts(g, at, appends[0]) \
            or "'_default'" not in ast.unparse(f.node):
        ctx.fail(cons, f.loc(), "a default peer is not entered under the '_default' key of its realm")
    else:
        params = {a.arg for a in f.node.args.args}
        extra = [x for x in must_facts(g, at, appends[0]) if x[0] in params and x[0] != "is_default"]
        if extra:
            ctx.fail(cons + "#extra", g.loc(appends[0]), f"a default peer is only routed under {extra}")
