"""C03 - typed command / grouped attributes map 1:1 onto dictionary AVPs.

Decided here (exhaustively over every class and every definition): the table
agreements without which the round trip cannot hold.  Not decided: the
encode-decode-encode equality on random values."""
from __future__ import annotations

import ast

from ..report import Ctx
from ..srcmodel import AnalysisError, ClassInfo, Opaque
from ..tables import (command_classes, extract_avp_defs, extract_dictionary,
                      gendef_fields, grouped_classes)
from .. import astutil as A

EXPLANATION = (
    "Table analysis over the parsed source: every AvpGenDef(...) of every typed "
    "message class and grouped container is folded through the defining module's "
    "star-import namespace and cross-checked against the literal AVP dictionary "
    "(entry exists, Grouped <=> container class, uniqueness per class, "
    "declaration <=> definition, list discipline), plus structural checks of the "
    "constructors (ordering of super().__post_init__ / list defaults / "
    "assign_attr_from_defs / self._avps = []) and of the two generic converters. "
    "Exhaustive over classes/definitions; value-level round trips are not decided.")
ASSUMPTIONS = [
    "not decided: encode-decode-encode equality on random values (inputs half of the quantifier)",
    "annotations are used only as the declaration of an attribute's existence and multiplicity",
    "get_avp_dictionary_entry has the shape checked by C01-R7 (base table iff vendor == 0)",
    "classes registered by users at run time are outside the analysed program",
]

SKIP_DECL = {"avp_def", "additional_avps", "code", "name"}


def _is_list_annotation(e: ast.expr | None) -> bool:
    if e is None:
        return False
    s = ast.unparse(e)
    if isinstance(e, ast.Constant) and isinstance(e.value, str):
        s = e.value
    return s.startswith("list[") or s.startswith("List[") or s in ("list", "List")


def _post_init(ci: ClassInfo):
    return ci.methods.get("__post_init__")


def _list_defaults_msg(ci: ClassInfo) -> dict[str, ast.AST]:
    """attr -> node for  setattr(self, "<attr>", [])  /  self.<attr> = []  in __post_init__."""
    out = {}
    f = _post_init(ci)
    if f is None:
        return out
    for n in ast.walk(f.node):
        if isinstance(n, ast.Call) and A.call_name(n) == "setattr" and len(n.args) == 3:
            a0, a1, a2 = n.args
            if (isinstance(a0, ast.Name) and a0.id == "self"
                    and isinstance(a1, ast.Constant) and isinstance(a1.value, str)
                    and isinstance(a2, ast.List) and not a2.elts):
                out[a1.value] = n
        elif isinstance(n, ast.Assign) and isinstance(n.value, ast.List) and not n.value.elts:
            for t in n.targets:
                if (isinstance(t, ast.Attribute) and isinstance(t.value, ast.Name)
                        and t.value.id == "self" and not t.attr.startswith("_")):
                    out[t.attr] = n
    return out


def _dataclass_list_default(e: ast.expr | None) -> bool:
    if not isinstance(e, ast.Call):
        return False
    if not A.call_name(e).endswith("field"):
        return False
    for kw in e.keywords:
        if kw.arg == "default_factory" and ast.unparse(kw.value) == "list":
            return True
    return False


def run(ctx: Ctx):
    model = ctx.model
    fields, defaults = gendef_fields(model)
    dct = extract_dictionary(model)
    ctx.use(dct.module)
    grouped_mod = model.module("message.avp.grouped")
    avp_mod = model.module("message.avp.avp")
    grouped_avp_cls = avp_mod.classes.get("AvpGrouped")
    if grouped_avp_cls is None:
        raise AnalysisError("AvpGrouped not found")

    msg_classes = [c for c in command_classes(model)
                   if c.class_assigns.get("avp_def") is not None]
    grp_classes = grouped_classes(model)
    ctx.note(f"message classes with own avp_def: {len(msg_classes)}; "
             f"grouped container classes: {len(grp_classes)}; "
             f"dictionary entries: {len(dct.all_entries)}")

    ctx.rule("C03-R1", "every definition's (code, vendor) has a dictionary entry", floor=2600)
    ctx.rule("C03-R2", "dictionary type is Grouped <=> definition has a container class "
                       "with its own avp_def", floor=2600)
    ctx.rule("C03-R3", "no attribute name and no (code, vendor) is defined twice in a class",
             floor=300)
    ctx.rule("C03-R4", "definition <=> declaration (annotation / dataclass field)", floor=2600)
    ctx.rule("C03-R5", "list annotation <=> attribute initialised to a list before decode",
             floor=2600)
    ctx.rule("C03-R6", "is_required is a bool, is_mandatory is None/True/False, code/vendor ints",
             floor=2600)

    all_defs = 0
    classes_with_defs = []
    for ci in msg_classes + grp_classes:
        is_msg = ci in msg_classes
        ctx.use(ci.module)
        defs = extract_avp_defs(model, ci, fields, defaults)
        if defs is None:
            # grouped subclass inheriting its table (FromSpec/ToSpec style)
            inherited = None
            for b in model.mro(ci)[1:]:
                if b.class_assigns.get("avp_def") is not None:
                    inherited = b
                    break
            # a base without a table (GenericSpec) is only a problem when a
            # definition names it as container: that is R2's has_def test
            continue
        classes_with_defs.append(ci)
        # ---- declared attributes ------------------------------------------
        own_decl = {n: a for n, a in ci.annotations.items() if n not in SKIP_DECL}
        mro_decl = dict(own_decl)
        for b in model.mro(ci)[1:]:
            for n, a in b.annotations.items():
                if n not in SKIP_DECL:
                    mro_decl.setdefault(n, a)
        list_init = _list_defaults_msg(ci) if is_msg else {}
        seen_attr: dict[str, int] = {}
        seen_key: dict[tuple, str] = {}
        for d in defs:
            all_defs += 1
            cons = d.construct
            # R6
            ctx.inst(cons, rule="C03-R6")
            if not (isinstance(d.avp_code, int) and not isinstance(d.avp_code, bool)
                    and 0 <= d.avp_code < 2 ** 32
                    and isinstance(d.vendor_id, int) and not isinstance(d.vendor_id, bool)
                    and 0 <= d.vendor_id < 2 ** 32
                    and isinstance(d.attr_name, str)
                    and isinstance(d.is_required, bool)
                    and (d.is_mandatory is None or isinstance(d.is_mandatory, bool))):
                ctx.fail(cons, d.where(),
                         f"definition fields have wrong kinds: code={d.avp_code!r} "
                         f"vendor={d.vendor_id!r} required={d.is_required!r} "
                         f"mandatory={d.is_mandatory!r}", rule="C03-R6")
                continue
            # R1
            entry = dct.get(d.avp_code, d.vendor_id)
            ctx.inst(cons, rule="C03-R1",
                     sample={"class": ci.name, "attr": d.attr_name, "code": d.avp_code,
                             "vendor": d.vendor_id,
                             "dictionary": entry.name if entry else None}
                     if d.index == 0 and len(ctx.samples) < 12 else None)
            if entry is None:
                ctx.fail(cons, d.where(),
                         f"{ci.name}.{d.attr_name}: no dictionary entry for code "
                         f"{d.avp_code} ({d.code_src}) vendor {d.vendor_id} ({d.vendor_src}); "
                         f"Avp.new raises ValueError, the attribute can never be encoded",
                         rule="C03-R1",
                         expected="get_avp_dictionary_entry(code, vendor) is not None",
                         observed="None")
            # R2
            ctx.inst(cons, rule="C03-R2")
            if entry is not None:
                is_grouped = entry.type_cls is not None and \
                    grouped_avp_cls in model.mro(entry.type_cls)
                if is_grouped and d.type_class is None:
                    ctx.fail(cons, d.where(),
                             f"{ci.name}.{d.attr_name}: dictionary AVP {entry.name} "
                             f"({d.avp_code}/{d.vendor_id}) is Grouped but the definition "
                             f"has no container class", rule="C03-R2")
                elif not is_grouped and d.type_class is not None:
                    ctx.fail(cons, d.where(),
                             f"{ci.name}.{d.attr_name}: definition has container "
                             f"{d.type_class_name} but ({d.avp_code}/{d.vendor_id}) resolves "
                             f"to non-grouped {entry.name} ({entry.type_name})",
                             rule="C03-R2")
            if d.type_class is not None:
                tc = d.type_class
                if isinstance(tc, Opaque):
                    ctx.fail(cons, d.where(),
                             f"{ci.name}.{d.attr_name}: container {d.type_class_name} "
                             f"does not resolve to a class", rule="C03-R2")
                else:
                    has_def = any(b.class_assigns.get("avp_def") is not None
                                  for b in model.mro(tc))
                    if not has_def:
                        ctx.fail(cons, d.where(),
                                 f"{ci.name}.{d.attr_name}: container {tc.name} has no avp_def",
                                 rule="C03-R2")
            # R3
            ctx.inst(cons, rule="C03-R3")
            if d.attr_name in seen_attr:
                ctx.fail(f"{cons}#dup", d.where(),
                         f"{ci.name}: attribute {d.attr_name} is defined twice "
                         f"(entries {seen_attr[d.attr_name]} and {d.index}); the value is "
                         f"encoded twice", rule="C03-R3")
            else:
                seen_attr[d.attr_name] = d.index
            k = (d.avp_code, d.vendor_id)
            if k in seen_key and seen_key[k] != d.attr_name:
                ctx.fail(f"{cons}#samekey", d.where(),
                         f"{ci.name}: attributes {seen_key[k]} and {d.attr_name} both denote "
                         f"AVP {k}; the decoder's lookup keeps only one", rule="C03-R3")
            seen_key.setdefault(k, d.attr_name)
            # R4 (definition -> declaration)
            ctx.inst(cons, rule="C03-R4")
            if d.attr_name not in mro_decl:
                # type hints are not part of the property: informational only
                ctx.note(f"definition without annotation: {cons} at {d.where()}")
            # R5
            ctx.inst(cons, rule="C03-R5")
            ann = mro_decl.get(d.attr_name)
            if ann is not None:
                want_list = _is_list_annotation(ann)
                if is_msg:
                    has_list = d.attr_name in list_init
                else:
                    has_list = _dataclass_list_default(ci.class_assigns.get(d.attr_name))
                if want_list and not has_list:
                    ctx.fail(cons, d.where(),
                             f"{ci.name}.{d.attr_name} is declared as a list but is not "
                             f"initialised to a list before decoding: repeated AVPs overwrite "
                             f"each other", rule="C03-R5")
                elif has_list and not want_list:
                    ctx.fail(cons, d.where(),
                             f"{ci.name}.{d.attr_name} is initialised to a list but declared "
                             f"scalar ({ast.unparse(ann)})", rule="C03-R5")
                init = list_init.get(d.attr_name) if is_msg else None
                if isinstance(init, ast.Assign):
                    shared = [t.attr for t in init.targets if isinstance(t, ast.Attribute)]
                    if len(shared) > 1:
                        ctx.fail(f"{cons}#own-list", ci.loc(init),
                                 f"{ci.name}.{d.attr_name} is initialised by a chained assignment "
                                 f"that binds ONE list object to {', '.join(shared)}: an AVP "
                                 f"decoded into one attribute appears in the others and is "
                                 f"encoded under their codes", rule="C03-R5",
                                 expected="one fresh list per list attribute",
                                 observed=ast.unparse(init))
        # R4 (declaration -> definition)
        for n in own_decl:
            ctx.inst(f"{ci.name}.{n}", rule="C03-R4", nontrivial=False)
            if n not in seen_attr:
                ctx.fail(f"{ci.name}.{n}#nodef", ci.loc(ci.node),
                         f"{ci.name}: declared attribute {n!r} has no definition - "
                         f"a value set on it is never encoded", rule="C03-R4")
    ctx.note(f"definitions analysed: {all_defs} in {len(classes_with_defs)} classes")

    # ---- R11 / R12: names ---------------------------------------------------------------------
    import re as _re

    def _n(s_):
        return _re.sub(r"[^a-z0-9]", "", (s_ or "").lower())

    def _an(a_):
        a_ = a_.lower()
        a_ = _re.sub(r"^tgpp2_", "3gpp2_", a_)
        a_ = _re.sub(r"^tgpp_", "3gpp_", a_)
        return _n(a_.replace("fiveqi", "5qi"))
    ctx.rule("C03-R12", "AVP names of the dictionary are unique within a vendor (a name is what a "
                        "message without python implementation exposes an AVP under)", floor=2000)
    by_name: dict[tuple, list] = {}
    for e_ in dct.all_entries:
        ctx.inst(f"dictionary[{e_.code}/{e_.vendor or 0}]:name", rule="C03-R12", nontrivial=False)
        by_name.setdefault((e_.vendor or 0, e_.name), []).append(e_)
    ctx.rules["C03-R12"]["nontrivial"] |= {f"{k[0]}:{k[1]}" for k in by_name}
    for (vend, nm), es in sorted(by_name.items(), key=str):
        codes = sorted({e_.code for e_ in es})
        if len(codes) > 1:
            ctx.fail(f"dictionary:name({nm})#unique", es[-1].where(dct.module),
                     f"the AVP name {nm!r} is given to the codes {codes} of vendor {vend}: a message "
                     f"without python implementation exposes both AVPs merged under one attribute "
                     f"(and neither under the name of the second), typed containers end up with two "
                     f"attributes denoting a dictionary AVP of the same name", rule="C03-R12")
    ctx.rule("C03-R11", "an attribute that bears the name of a dictionary AVP denotes that AVP, "
                        "not another one", floor=2000)
    # frozen after reading: the Cx application (TS 29.229) re-defines SIP-Authenticate /
    # SIP-Authorization as 3GPP AVPs 609 / 610, which the dictionary calls 3GPP-SIP-...
    SAME_NAME_OK = {("SipAuthDataItem", "sip_authenticate"): "TS 29.229 SIP-Authenticate is 609/10415",
                    ("SipAuthDataItem", "sip_authorization"): "TS 29.229 SIP-Authorization is 610/10415"}
    names_idx: dict[str, list] = {}
    for e_ in dct.all_entries:
        names_idx.setdefault(_n(e_.name), []).append(e_)
    for ci in classes_with_defs:
        for d in extract_avp_defs(model, ci, fields, defaults) or []:
            if not isinstance(d.avp_code, int):
                continue
            entry = dct.get(d.avp_code, d.vendor_id)
            if entry is None:
                continue
            cons = f"{d.construct}#name"
            ctx.inst(cons, rule="C03-R11", nontrivial=False)
            a_, n_ = _an(d.attr_name), _n(entry.name)
            if a_ == n_ or (ci.name, d.attr_name) in SAME_NAME_OK:
                continue
            # the dictionary tells a 3GPP AVP from the IETF AVP of the same name by a "3GPP-"
            # prefix; in the 3GPP grammar (and in the class that implements it) the AVP has the
            # plain name: `sip_method` of Event-Type (TS 32.299) is 3GPP-SIP-Method
            if entry.vendor == 10415 and n_ == "3gpp" + a_:
                continue
            other = [o for o in names_idx.get(a_, []) if (o.code, o.vendor) != (entry.code, entry.vendor)]
            if other:
                o = other[0]
                ctx.fail(cons, d.where(), f"{ci.name}.{d.attr_name} is defined with the code of "
                         f"{entry.name} ({entry.code}/{entry.vendor or 0}) while the dictionary has an AVP "
                         f"of the attribute's own name, {o.name} ({o.code}/{o.vendor or 0}): a received "
                         f"{o.name} is not decoded into the attribute (and is dropped on re-encoding), "
                         f"a value set on the attribute is written as {entry.name}", rule="C03-R11")
    ctx.rules["C03-R11"]["nontrivial"] |= {f"{ci.name}" for ci in classes_with_defs}

    # ---- R16: a 3GPP class uses the 3GPP AVP where the dictionary has one of the same name ----
    ctx.rule("C03-R16", "in a grouped AVP of a 3GPP grammar (most members vendor 10415) an attribute is "
                        "not defined with the IETF AVP <Name> when the dictionary has 3GPP-<Name> of vendor "
                        "10415 - the AVP the 3GPP grammar means by that name", floor=100)
    tgpp_names = {_n(e_.name)[4:]: e_ for e_ in dct.all_entries
                  if e_.vendor == 10415 and _n(e_.name).startswith("3gpp")}
    for ci in classes_with_defs:
        defs_ = [d for d in (extract_avp_defs(model, ci, fields, defaults) or []) if isinstance(d.avp_code, int)]
        # (commands mix IETF and 3GPP members freely - the NASREQ commands carry Service-Type 6
        # next to 3GPP extensions; a grouped AVP of a 3GPP specification is recognised by most of
        # its members being 3GPP AVPs)
        if ci in msg_classes or 2 * sum(1 for d in defs_ if d.vendor_id == 10415) < len(defs_):
            continue
        for d in defs_:
            cons = f"{d.construct}#3gpp-twin"
            ctx.inst(cons, rule="C03-R16", nontrivial=False)
            if d.vendor_id:
                continue
            entry = dct.get(d.avp_code, d.vendor_id)
            if entry is None:
                continue
            twin = tgpp_names.get(_n(entry.name))
            if twin is not None and _an(d.attr_name) == _n(entry.name):
                ctx.fail(cons, d.where(), f"{ci.name}.{d.attr_name} is defined with the IETF AVP {entry.name} "
                         f"({entry.code}/0) although {ci.name} implements a 3GPP grammar (it has vendor-10415 "
                         f"members) and the dictionary has {twin.name} ({twin.code}/10415): what a 3GPP peer "
                         f"sends under that name is not decoded into the attribute, and a value set on it "
                         f"goes out under the IETF code", rule="C03-R16")
    ctx.rules["C03-R16"]["nontrivial"] |= {ci.name for ci in classes_with_defs}

    # ---- R13/R14: what is encoded is what the attributes hold now; Time values survive -------
    from .common_codec import as_bytes_encodes_current
    as_bytes_encodes_current(ctx, "C03-R13")
    from .common_node import received_chunks_are_immutable_bytes
    received_chunks_are_immutable_bytes(ctx, "C03-R15")
    from . import c01 as _c01
    ctx.include(_c01.run, {"C01-R5"}, "C03-R14",
                "a Time attribute that was set is restored by decoding: the Time getter and setter "
                "use the same epoch constants, era rule and time-zone convention", floor=3,
                constructs=lambda c: c.startswith("AvpTime") and "encode-range" not in c)

    # ---- R8: constructor ordering -----------------------------------------
    ctx.rule("C03-R8", "constructor ordering in every typed Request/Answer class: "
                       "super().__post_init__() < list defaults < assign_attr_from_defs(self, "
                       "self._avps) < self._avps = []", floor=60)
    for ci in msg_classes:
        f = _post_init(ci)
        cons = f"{ci.name}.__post_init__"
        if f is None:
            ctx.inst(cons, rule="C03-R8")
            ctx.fail(cons, ci.loc(), f"{ci.name} defines avp_def but no __post_init__ "
                     f"calling assign_attr_from_defs", rule="C03-R8")
            continue
        ctx.use(f)
        ctx.inst(cons, rule="C03-R8")
        order = []   # (kind, lineno) in straight-line top-level order
        for idx, st in enumerate(f.node.body):
            for n in ast.walk(st):
                if isinstance(n, ast.Call):
                    cn = A.call_name(n)
                    if cn == "super().__post_init__":
                        order.append(("super", idx, n))
                    elif cn.endswith("assign_attr_from_defs"):
                        order.append(("assign", idx, n))
                    elif cn == "setattr" and len(n.args) == 3 and isinstance(n.args[2], ast.List):
                        order.append(("listdef", idx, n))
                    elif cn == "setattr" and len(n.args) == 3 and A.dotted(n.args[0]) == "self":
                        order.append(("default", idx, n))
                if isinstance(n, ast.Assign):
                    for t in n.targets:
                        if A.dotted(t) == "self._avps":
                            order.append(("clear", idx, n))
                        elif isinstance(t, ast.Attribute) and A.dotted(t.value) == "self" \
                                and not t.attr.startswith("_") and t.attr != "header":
                            order.append(("default", idx, n))
        kinds = [k for k, _, _ in order]
        pos = {k: [i for kk, i, _ in order if kk == k] for k in set(kinds)}
        problems = []
        if "super" not in pos:
            problems.append("super().__post_init__() is not called (no _additional_avps list)")
        if "assign" not in pos:
            problems.append("assign_attr_from_defs is not called")
        if "clear" not in pos:
            problems.append("self._avps is not reset after decoding (avps property would "
                            "return the raw list for ever)")
        if not problems:
            if min(pos["assign"]) < max(pos["super"]):
                problems.append("assign_attr_from_defs runs before super().__post_init__()")
            if "listdef" in pos and max(pos["listdef"]) > min(pos["assign"]):
                problems.append("a list default is installed after assign_attr_from_defs "
                                "(decoded values are overwritten)")
            if "default" in pos and max(pos["default"]) > min(pos["assign"]):
                problems.append("an attribute default is installed after assign_attr_from_defs: "
                                "the value decoded from the received AVP is overwritten, so "
                                "decode-encode no longer reproduces the bytes")
            if "listdef" in pos and min(pos["listdef"]) < max(pos["super"]):
                pass  # harmless: DefinedMessage.__post_init__ only creates _additional_avps
            if min(pos["clear"]) < max(pos["assign"]):
                problems.append("self._avps is reset before assign_attr_from_defs reads it")
            for k, _, n in order:
                if k == "assign":
                    args = [ast.unparse(a) for a in n.args]
                    if args != ["self", "self._avps"]:
                        problems.append(f"assign_attr_from_defs called with {args}")
                if k == "clear":
                    if not (isinstance(n.value, ast.List) and not n.value.elts):
                        problems.append("self._avps reset to something else than []")
            # all of them must be unconditional top-level statements
            for k, idx, n in order:
                st = f.node.body[idx]
                if isinstance(st, (ast.If, ast.For, ast.While, ast.Try, ast.With)):
                    if k in ("assign", "clear", "super"):
                        problems.append(f"{k} step is conditional")
        for p in problems:
            ctx.fail(cons, f.loc(), f"{ci.name}.__post_init__: {p}", rule="C03-R8")
            break

    # grouped containers: additional_avps is a list field
    ctx.rule("C03-R8b", "grouped containers declaring additional_avps give it a list default",
             floor=100)
    for ci in grp_classes:
        if "additional_avps" in ci.annotations:
            ctx.inst(f"{ci.name}.additional_avps", rule="C03-R8b")
            if not _dataclass_list_default(ci.class_assigns.get("additional_avps")):
                ctx.fail(f"{ci.name}.additional_avps", ci.loc(),
                         f"{ci.name}.additional_avps has no list default factory",
                         rule="C03-R8b")
        if "dataclasses.dataclass" not in ci.decorators and "dataclass" not in ci.decorators:
            ctx.inst(f"{ci.name}@dataclass", rule="C03-R8b")
            ctx.fail(f"{ci.name}@dataclass", ci.loc(),
                     f"container {ci.name} is not a dataclass: type_class() construction and "
                     f"field defaults do not work", rule="C03-R8b")

    # a decoded message has exactly the attributes that were on the wire: no scalar default is
    # planted by the constructor that also runs for received messages
    ctx.rule("C03-R8d", "typed constructors plant no scalar (non-list, non-None) attribute default "
                        "that a decode of a message without that AVP would keep", floor=60)
    for ci in msg_classes:
        f = _post_init(ci)
        if f is None:
            continue
        cons0 = f"{ci.name}.__post_init__:scalar-default"
        ctx.inst(cons0, rule="C03-R8d")
        for n in ast.walk(f.node):
            if isinstance(n, ast.Call) and A.call_name(n) == "setattr" and len(n.args) == 3 \
                    and A.dotted(n.args[0]) == "self" and isinstance(n.args[1], ast.Constant) \
                    and isinstance(n.args[2], ast.Constant) and n.args[2].value is not None:
                attr = n.args[1].value
                ctx.fail(f"{ci.name}.__post_init__:scalar-default({attr})", f.loc(n),
                         f"{ci.name}.__post_init__ sets `{attr} = {n.args[2].value!r}` before the received "
                         f"AVPs are assigned, also when the instance is built from received bytes: a "
                         f"message that does not carry that AVP (or whose sender set the attribute to "
                         f"None to leave it out) decodes with {attr} == {n.args[2].value!r}, and encoding "
                         f"it again emits an AVP that was not on the wire (encode-decode-encode differs)",
                         rule="C03-R8d")
    # AVPs a container does not declare are carried over
    ctx.rule("C03-R8e", "assign_attr_from_defs keeps an AVP the object does not declare (additional "
                        "AVP list) for every container class", floor=1)
    cons0 = "assign_attr_from_defs:undeclared-avp-dropped"
    lacking = sorted(ci.name for ci in grp_classes if "additional_avps" not in ci.annotations)
    ctx.inst(cons0, rule="C03-R8e", sample={"containers_without_additional_avps": len(lacking),
                                            "of": len(grp_classes)})
    asg_ = model.func("message.commands._attributes", "assign_attr_from_defs")
    creates = any(isinstance(n, ast.Call) and A.call_name(n) == "setattr" and len(n.args) == 3
                  and isinstance(n.args[1], ast.Constant) and "additional_avps" in str(n.args[1].value)
                  for n in ast.walk(asg_.node))
    if lacking and not creates:
        ctx.fail(cons0, asg_.loc(), f"{len(lacking)} of {len(grp_classes)} container classes (e.g. "
                 f"{', '.join(lacking[:4])}) have no additional_avps field and assign_attr_from_defs has "
                 f"no fall-back for them: a member AVP such a container does not declare is silently "
                 f"dropped while decoding and is missing when the message is encoded again",
                 rule="C03-R8e")
    # every field default of a container is None or a fresh list: anything else is encoded as
    # if the attribute had been set
    ctx.rule("C03-R8c", "container field defaults are None or field(default_factory=list)", floor=1300)
    for ci in grp_classes:
        for nm, dv_ in ci.class_assigns.items():
            if nm not in ci.annotations or nm.startswith("_") or nm == "avp_def":
                continue
            cons = f"{ci.name}.{nm}:default"
            ctx.inst(cons, rule="C03-R8c")
            okd = (isinstance(dv_, ast.Constant) and dv_.value is None) or _dataclass_list_default(dv_)
            if not okd:
                ctx.fail(cons, ci.loc(dv_), f"{ci.name}.{nm} defaults to `{ast.unparse(dv_)}` instead of "
                         f"None: an attribute that was never set is not None, so "
                         f"generate_avps_from_defs emits an AVP for it (and a class object as "
                         f"default is shared by all instances)", rule="C03-R8c")
    _converters(ctx)
    _undefined_message(ctx)


# ---------------------------------------------------------------------------
# R9 converter symmetry
# ---------------------------------------------------------------------------
def _converters(ctx: Ctx):
    model = ctx.model
    ctx.rule("C03-R9", "generate_avps_from_defs / assign_attr_from_defs treat the "
                       "(container?, list?) cases symmetrically and key on code+vendor",
             floor=8)
    gen = model.func("message.avp.generator", "generate_avps_from_defs")
    asg = model.func("message.commands._attributes", "assign_attr_from_defs")
    ctx.use(gen, asg)

    # --- encoder ---------------------------------------------------------
    new_calls = [n for n in ast.walk(gen.node)
                 if isinstance(n, ast.Call) and A.call_name(n) == "Avp.new"]
    ctx.inst("generate_avps_from_defs:Avp.new-sites", rule="C03-R9",
             sample={"sites": len(new_calls)})
    if len(new_calls) < 1:
        ctx.error("generate_avps_from_defs has no Avp.new call", rule="C03-R9")
    loopvar = None
    for n in ast.walk(gen.node):
        if isinstance(n, ast.For) and ast.unparse(n.iter).endswith(".avp_def") \
                and isinstance(n.target, ast.Name):
            loopvar = n.target.id
    if loopvar is None:
        ctx.error("generate_avps_from_defs does not iterate obj.avp_def", rule="C03-R9")
        return
    for c in new_calls:
        cons = f"generate_avps_from_defs:Avp.new@{_branch_kind(gen.node, c, loopvar)}"
        ctx.inst(cons, rule="C03-R9")
        kws = {k: ast.unparse(v) for k, v in A.argmap(
            c, ["avp_code", "vendor_id", "value", "is_mandatory", "is_private"]).items()}
        code = kws.get("avp_code")
        vend = kws.get("vendor_id")
        if code != f"{loopvar}.avp_code" or vend != f"{loopvar}.vendor_id":
            ctx.fail(cons, gen.loc(c),
                     f"Avp.new is not called with the definition's own code and vendor "
                     f"(got {code}, {vend})", rule="C03-R9")
        if kws.get("is_mandatory") != f"{loopvar}.is_mandatory":
            ctx.fail(cons + "#mandatory", gen.loc(c),
                     "Avp.new does not receive the definition's is_mandatory override",
                     rule="C03-R9")
    kinds = sorted(_branch_kind(gen.node, c, loopvar) for c in new_calls)
    want = ["container+list", "container+scalar", "plain+list", "plain+scalar"]
    ctx.inst("generate_avps_from_defs:cases", rule="C03-R9", sample=kinds)
    if kinds != want:
        ctx.fail("generate_avps_from_defs:cases", gen.loc(),
                 f"encoder does not have exactly the four (container?, list?) cases: {kinds}",
                 rule="C03-R9")
    # an attribute that is set yields its AVP: from the statement that reads the (non-None) value
    # every path back to the loop over the definitions appends an AVP, iterates over the list
    # value, or raises - none passes the attribute over (e.g. because its container is "empty")
    ctx.inst("generate_avps_from_defs:set-attribute-is-encoded", rule="C03-R9")
    from ..cfg import cfg_of
    gg = cfg_of(gen, inline=False)
    heads = [n for n in gg.nodes if n.kind == "iter" and ast.unparse(n.ast.iter).endswith(".avp_def")]
    reads = [n for n in gg.nodes if n.kind == "stmt" and isinstance(n.ast, ast.Assign)
             and isinstance(n.ast.value, ast.Call) and A.call_name(n.ast.value) == "getattr"
             and len(n.ast.value.args) >= 2 and ast.unparse(n.ast.value.args[1]) == f"{loopvar}.attr_name"]
    if not heads or not reads:
        ctx.error("generate_avps_from_defs: loop over avp_def / read of the attribute value not found",
                  rule="C03-R9")
    else:
        vname = reads[0].ast.targets[0].id if isinstance(reads[0].ast.targets[0], ast.Name) else None
        # the scalar / list decision and the encoding are made on the attribute's value as it is:
        # nothing re-binds the local between the read and the use (a coercion - tuple to list, str to
        # bytes, int() - changes what valid scalar values such as the (family, address) pair of an
        # Address AVP mean)
        ctx.inst("generate_avps_from_defs:value-as-stored", rule="C03-R9")
        for d in A.walk_no_nested(gen.node):
            tg = []
            if isinstance(d, (ast.Assign, ast.AnnAssign, ast.AugAssign)):
                tg = A.store_targets(d)
            elif isinstance(d, ast.NamedExpr):
                tg = [d.target]
            if vname and any(isinstance(t, ast.Name) and t.id == vname for t in tg) \
                    and d is not reads[0].ast and not (
                        isinstance(getattr(d, "value", None), ast.Call) and A.call_name(d.value) == "getattr"
                        and ast.unparse(d.value.args[1]) == f"{loopvar}.attr_name"):
                ctx.fail("generate_avps_from_defs:value-as-stored", gen.loc(d),
                         f"the attribute value is re-bound before it is encoded (`{ast.unparse(d)[:80]}`): "
                         f"the list/scalar decision no longer sees the value the attribute holds - a scalar "
                         f"Address attribute holding its (family, address) pair, as every decoded one does, "
                         f"is taken for a list of two values and cannot be re-encoded", rule="C03-R9",
                         expected=f"{vname} = getattr(obj, {loopvar}.attr_name) only",
                         observed=ast.unparse(d)[:120])
        goals = [n for n in gg.nodes if n.has_call(lambda nm, c: nm.endswith(".append") or nm.endswith(".extend"))]
        goals += [n for n in gg.nodes if n.kind == "iter" and vname and ast.unparse(n.ast.iter) == vname]
        rr = gg.reach([d for l, d in reads[0].succ if l != "exc"], blocked=goals, skip_labels=("exc",))
        if heads[0] in rr or gg.exit in rr:
            skip = sorted((n for n in rr if n.kind == "stmt" and isinstance(n.ast, ast.Continue)
                           and n.ast.lineno > reads[0].ast.lineno), key=lambda n: n.ast.lineno)
            ctx.fail("generate_avps_from_defs:set-attribute-is-encoded",
                     gg.loc(skip[0]) if skip else gen.loc(),
                     "an attribute whose value is not None can be passed over without an AVP being "
                     "appended (a path from reading the value back to the loop over the definitions "
                     "avoids every append): e.g. a grouped attribute set to a container with no member "
                     "set - `requested_service_unit=RequestedServiceUnit()`, the RFC 4006 way of asking "
                     "for any quota - is not encoded, decodes as None, and a received empty group is "
                     "lost on re-encoding", rule="C03-R9",
                     expected="exactly one AVP per set scalar attribute", observed="a path without append")
    # None is skipped, additional_avps appended last
    src = ast.unparse(gen.node)
    ctx.inst("generate_avps_from_defs:skip-none", rule="C03-R9")
    if not any(isinstance(n, ast.If) and "is None" in ast.unparse(n.test)
               and any(isinstance(b, ast.Continue) for b in n.body)
               for n in ast.walk(gen.node)):
        ctx.fail("generate_avps_from_defs:skip-none", gen.loc(),
                 "unset (None) attributes are not skipped", rule="C03-R9")
    ctx.inst("generate_avps_from_defs:additional", rule="C03-R9")
    rets = [n for n in ast.walk(gen.node) if isinstance(n, ast.Return) and n.value is not None]
    if not any("additional_avps" in ast.unparse(r.value) for r in rets):
        ctx.fail("generate_avps_from_defs:additional", gen.loc(),
                 "undeclared AVPs (additional_avps) are not carried over on encode",
                 rule="C03-R9")
    else:
        for r in rets:
            s = ast.unparse(r.value)
            if "additional_avps" in s and isinstance(r.value, ast.BinOp) \
                    and "additional_avps" in ast.unparse(r.value.left):
                ctx.fail("generate_avps_from_defs:additional", gen.loc(r),
                         "additional AVPs are emitted before the declared ones",
                         rule="C03-R9")

    # --- decoder ---------------------------------------------------------
    ctx.inst("assign_attr_from_defs:key", rule="C03-R9")
    key_exprs = []
    for n in ast.walk(asg.node):
        if isinstance(n, ast.JoinedStr):
            parts = [ast.unparse(v.value) for v in n.values if isinstance(v, ast.FormattedValue)]
            key_exprs.append(parts)
    tbl_keys = [p for p in key_exprs if any(x.endswith(".avp_code") for x in p)]
    avp_keys = [p for p in key_exprs if any(x.endswith(".code") for x in p)]
    ok = (tbl_keys and avp_keys
          and all(len(p) == 2 and p[0].endswith(".avp_code") and p[1].endswith(".vendor_id")
                  for p in tbl_keys)
          and all(len(p) == 2 and p[0].endswith(".code") and p[1].endswith(".vendor_id")
                  for p in avp_keys))
    if not ok:
        ctx.fail("assign_attr_from_defs:key", asg.loc(),
                 f"decoder lookup key is not built from both code and vendor on both "
                 f"sides: table={tbl_keys} avp={avp_keys}", rule="C03-R9")
    # four cases in the decoder: container -> type_class() + recurse; list append / setattr
    ctx.inst("assign_attr_from_defs:cases", rule="C03-R9")
    calls = [A.call_name(n) for n in ast.walk(asg.node) if isinstance(n, ast.Call)]
    n_append = sum(1 for c in calls if c.endswith(".append"))
    n_setattr = sum(1 for c in calls if c == "setattr")
    recurse = sum(1 for c in calls if c == "assign_attr_from_defs")
    tc_call = any(isinstance(n, ast.Call) and ast.unparse(n.func).endswith(".type_class")
                  for n in ast.walk(asg.node))
    if not (recurse >= 1 and tc_call and n_append >= 3 and n_setattr >= 2):
        ctx.fail("assign_attr_from_defs:cases", asg.loc(),
                 f"decoder lost a case: recurse={recurse} type_class()={tc_call} "
                 f"append={n_append} setattr={n_setattr}", rule="C03-R9")
    # appends require isinstance(current, list)
    ctx.inst("assign_attr_from_defs:list-guard", rule="C03-R9")
    guards = [n for n in ast.walk(asg.node) if isinstance(n, ast.If)
              and "isinstance" in ast.unparse(n.test) and "list" in ast.unparse(n.test)]
    if len(guards) < 2:
        ctx.fail("assign_attr_from_defs:list-guard", asg.loc(),
                 "appending to the current value is not guarded by isinstance(..., list) "
                 "in both the container and the scalar case", rule="C03-R9")
    ctx.inst("assign_attr_from_defs:additional", rule="C03-R9")
    if "additional_avps" not in src or \
            not any(c.endswith(".append") for c in calls) or \
            "_additional_avps" not in ast.unparse(asg.node):
        ctx.fail("assign_attr_from_defs:additional", asg.loc(),
                 "undeclared AVPs are not kept in additional_avps/_additional_avps",
                 rule="C03-R9")
    # a declared AVP becomes its attribute whatever it carries: the statements that put an AVP
    # among the additional ones run only when its key is NOT declared (no second condition - on
    # the payload, the value, the flags - sends a declared AVP there or past every store)
    ctx.inst("assign_attr_from_defs:declared-avp-is-converted", rule="C03-R9")
    from ..atoms import Atomizer, must_facts
    ga_ = cfg_of(asg, inline=False)
    at_ = Atomizer(model, asg.module, None)
    memb = [n for n in ga_.nodes if n.kind == "test" and any(
        isinstance(x, ast.Compare) and len(x.ops) == 1 and isinstance(x.ops[0], (ast.In, ast.NotIn))
        and "avp_def" in A.resolve_local_chain(asg.node, x.comparators[0]) for x in ast.walk(n.ast))]
    keyname = None
    for n in memb:
        for x in ast.walk(n.ast):
            if isinstance(x, ast.Compare) and isinstance(x.ops[0], (ast.In, ast.NotIn)) \
                    and isinstance(x.left, ast.Name) and isinstance(x.comparators[0], ast.Name):
                keyname = (x.left.id, x.comparators[0].id)
    if keyname is None:
        ctx.error("assign_attr_from_defs: membership test of the AVP key in the definition table not found",
                  rule="C03-R9")
    else:
        addl = [n for n in ga_.nodes if n.kind == "stmt" and "additional_avps" in ast.unparse(n.ast)
                and n.has_call(lambda nm, c: nm.endswith(".append"))]
        for n in addl:
            fs = must_facts(ga_, at_, n)
            if not any(f_[0] == keyname[0] and f_[1] == "in-expr" and f_[2] == keyname[1] and f_[3] is False
                       for f_ in fs):
                ctx.fail("assign_attr_from_defs:declared-avp-is-converted", ga_.loc(n),
                         f"an AVP can be put among the additional AVPs although its key is declared "
                         f"(`{keyname[0]} in {keyname[1]}` is not known to be false here): a declared AVP "
                         f"that fails the extra condition - e.g. one with an empty payload, the valid "
                         f"encoding of '' / b'' / an empty group - decodes to None in its attribute, and "
                         f"encode-decode-encode does not reproduce the message", rule="C03-R9",
                         expected="additional_avps.append only under `key not in needed`",
                         observed=str(sorted(map(str, fs)))[:200])
        # and on the declared side every path stores: from the true edge of the membership test
        # back to the loop head there is a setattr / append on every path
        stores_ = [n for n in ga_.nodes if n.kind == "stmt" and n.has_call(
            lambda nm, c: nm == "setattr" or nm.endswith(".append"))]
        for t in memb:
            if not isinstance(t.ast, ast.Compare):
                continue        # a compound test: the first half of the rule speaks about it
            lab = "T" if isinstance(t.ast.ops[0], ast.In) else "F"
            tsucc = [d for l, d in t.succ if l == lab]
            if tsucc:
                rr = ga_.reach(tsucc, blocked=stores_, skip_labels=("exc",))
                heads_ = [n for n in ga_.nodes if n.kind == "iter"]
                if any(h in rr for h in heads_) or ga_.exit in rr:
                    ctx.fail("assign_attr_from_defs:declared-avp-is-converted#stored", ga_.loc(t),
                             "a declared AVP can be passed over without a store into its attribute "
                             "(a path from the membership test back to the loop avoids every setattr/append)",
                             rule="C03-R9")
    # the list that receives undeclared AVPs is selected by presence, not by truthiness
    ctx.inst("assign_attr_from_defs:additional-selected-by-presence", rule="C03-R9")
    for n in ast.walk(asg.node):
        if isinstance(n, ast.Call) and isinstance(n.func, ast.Attribute) and n.func.attr == "append":
            recv = n.func.value
            resolved = recv
            if isinstance(recv, ast.Name):
                defs = [x for x in ast.walk(asg.node) if isinstance(x, ast.Assign)
                        and any(isinstance(t, ast.Name) and t.id == recv.id for t in x.targets)]
                if len(defs) == 1:
                    resolved = defs[0].value
            txt = ast.unparse(resolved)
            if "additional_avps" in txt and isinstance(resolved, (ast.BoolOp, ast.IfExp)):
                ctx.fail("assign_attr_from_defs:additional-selected-by-presence", asg.loc(n),
                         f"the list that keeps undeclared AVPs is chosen with `{txt}`: a freshly "
                         f"created container's empty additional_avps list is falsy, so the AVP is "
                         f"stored elsewhere or dropped (undeclared AVPs inside grouped AVPs are lost)",
                         rule="C03-R9")
    # DefinedMessage.avps getter
    dm = model.cls("message._base", "DefinedMessage")
    g = dm.methods.get("avps")
    ctx.use(dm)
    ctx.inst("DefinedMessage.avps", rule="C03-R9")
    if g is None or not g.is_property:
        ctx.error("DefinedMessage.avps property not found", rule="C03-R9")
    else:
        s = ast.unparse(g.node)
        if "generate_avps_from_defs(self)" not in s or "_additional_avps" not in s:
            ctx.fail("DefinedMessage.avps", g.loc(),
                     "DefinedMessage.avps does not return generated + additional AVPs",
                     rule="C03-R9")
    ga = dm.methods.get("__getattr__")
    ctx.inst("DefinedMessage.__getattr__", rule="C03-R9")
    if ga is None:
        ctx.fail("DefinedMessage.__getattr__", dm.loc(),
                 "declared-but-unset attributes no longer default to None", rule="C03-R9")
    else:
        rets = [n for n in ast.walk(ga.node) if isinstance(n, ast.Return)]
        raises = [n for n in ast.walk(ga.node) if isinstance(n, ast.Raise)]
        if not (rets and all(isinstance(r.value, ast.Constant) and r.value.value is None
                             for r in rets) and raises
                and any("AttributeError" in ast.unparse(r) for r in raises)):
            ctx.fail("DefinedMessage.__getattr__", ga.loc(),
                     "__getattr__ must return None for declared names and raise "
                     "AttributeError otherwise", rule="C03-R9")


def _branch_kind(fn: ast.FunctionDef, call: ast.Call, loopvar: str) -> str:
    """Classify an Avp.new site by the tests that enclose it."""
    chain = A.enclosing_tests(fn, call)
    cont = lst = None
    for test, pol in chain:
        for conj, p in A.conjuncts(test, pol):
            s = ast.unparse(conj)
            if s == f"{loopvar}.type_class" and cont is None:
                cont = p
            if s.startswith("isinstance(") and s.endswith(", list)") and lst is None:
                lst = p
    # a  for value in attr_value  loop also marks the list case
    return f"{'container' if cont else 'plain'}+{'list' if lst else 'scalar'}"


# ---------------------------------------------------------------------------
# R10 untyped commands
# ---------------------------------------------------------------------------
def _undefined_message(ctx: Ctx):
    model = ctx.model
    ctx.rule("C03-R10", "UndefinedMessage exposes received AVPs under normalised names, "
                        "repeated AVPs as lists in wire order, grouped as nested objects",
             floor=4)
    um = model.cls("message._base", "UndefinedMessage")
    ctx.use(um)
    pn = um.methods.get("_produce_attr_name")
    av = um.methods.get("_assign_attr_values")
    pi = um.methods.get("__post_init__")
    if pn is None or av is None or pi is None:
        ctx.error("UndefinedMessage helper methods not found", rule="C03-R10")
        return
    # the containers of an untyped command own no attribute that bears the (normalised) name of a
    # dictionary AVP: `_assign_attr_values` asks hasattr(parent, name) to tell a repeated AVP from a
    # first one, so a bookkeeping attribute of that name turns the received value into the second
    # element of a list (e.g. `vendor_id` next to the Vendor-Id member of a group)
    from ..tables import extract_dictionary
    derived = {e.name.replace("-", "_").lower() for e in extract_dictionary(model).all_entries
               if isinstance(e.name, str)}
    for cn in ("UndefinedMessage", "UndefinedGroupedAvp"):
        ci0 = model.cls("message._base", cn)
        own: dict[str, ast.AST] = {}
        for ci_ in model.mro(ci0):
            if not hasattr(ci_, "all_funcs"):
                continue
            for k in list(ci_.methods) + list(ci_.setters):
                own.setdefault(k, ci_.node)
            for k, v_ in list(ci_.class_assigns.items()) + list(ci_.annotations.items()):
                own.setdefault(k, v_)
            for f_ in ci_.all_funcs:
                for n in ast.walk(f_.node):
                    if isinstance(n, ast.Attribute) and isinstance(n.ctx, ast.Store) \
                            and isinstance(n.value, ast.Name) and n.value.id == "self":
                        own.setdefault(n.attr, n)
        ctx.inst(f"{cn}:own-attributes-are-no-avp-names", rule="C03-R10",
                 sample={"own": sorted(own), "avp_names": len(derived)})
        for k in sorted(set(own) & derived):
            ctx.fail(f"{cn}:own-attributes-are-no-avp-names", ci0.loc(own[k]) if hasattr(own[k], "lineno") else ci0.loc(),
                     f"{cn} itself defines `{k}`, which is also the attribute name of the dictionary AVP "
                     f"{k.replace('_', '-')}: for a command without a python class the received "
                     f"value is appended to the container's own attribute (`x.{k}` becomes "
                     f"[own value, received value]) instead of being exposed as the AVP's value",
                     rule="C03-R10", expected="no overlap", observed=k)
    ctx.inst("UndefinedMessage._produce_attr_name", rule="C03-R10")
    rets = [n for n in ast.walk(pn.node) if isinstance(n, ast.Return)]
    chain = A.resolve_local_chain(pn.node, rets[-1].value) if rets else ""
    norm = chain.replace('"', "'")
    if not (".replace('-', '_')" in norm and ".lower()" in norm and ".name" in norm):
        ctx.fail("UndefinedMessage._produce_attr_name", pn.loc(),
                 f"attribute name is not name.replace('-', '_').lower(): {chain}",
                 rule="C03-R10")
    ctx.inst("UndefinedMessage.__post_init__", rule="C03-R10")
    if "_assign_attr_values(self, self.avps)" not in ast.unparse(pi.node):
        ctx.fail("UndefinedMessage.__post_init__", pi.loc(),
                 "constructor does not assign attributes from self.avps", rule="C03-R10")
    ctx.inst("UndefinedMessage._assign_attr_values", rule="C03-R10")
    from ..cfg import cfg_of
    from ..atoms import Atomizer, must_facts
    g = cfg_of(av)
    at = Atomizer(model, av.module, um)
    params = [a_.arg for a_ in av.node.args.args]
    parent_p, avps_p = params[1], params[2]
    fors = [n for n in g.nodes if n.kind == "iter"]
    probs = []
    if len(fors) != 1 or A.dotted(fors[0].ast.iter) != avps_p:
        probs.append("does not iterate the AVP list in order")
    else:
        v = ast.unparse(fors[0].ast.target)
        grouped_fact = lambda fs, truth: any(
            f_[0].replace(" ", "") == f"isinstance({v},AvpGrouped)" and f_[3] is truth for f_ in fs)
        rec = [n for n in g.nodes if n.kind == "stmt" and any(
            A.call_name(c) == f"self.{av.name}" for c in n.calls())]
        if len(rec) != 1 or not grouped_fact(must_facts(g, at, rec[0]), True):
            probs.append("no recursion into the children of grouped AVPs (only)")
        else:
            c = [c for c in rec[0].calls() if A.call_name(c) == f"self.{av.name}"][0]
            tgt = A.dotted(c.args[0]) if c.args else None
            d = [n for n in g.nodes if n.kind == "stmt" and isinstance(n.ast, ast.Assign)
                 and any(A.dotted(t) == tgt for t in n.ast.targets)
                 and isinstance(n.ast.value, ast.Call) and A.call_name(n.ast.value) == "UndefinedGroupedAvp"]
            if not d or len(c.args) != 2 or A.resolve_local_chain(av.node, c.args[1]) != f"{v}.value":
                probs.append("grouped AVPs are not turned into nested objects filled from their children")
        plain = [n for n in g.nodes if n.kind == "stmt" and isinstance(n.ast, ast.Assign)
                 and A.resolve_local_chain(av.node, n.ast.value) == f"{v}.value"
                 and grouped_fact(must_facts(g, at, n), False)]
        if not plain:
            probs.append("the value of a non-grouped AVP is not taken from avp.value")
        name_defs = [n for n in g.nodes if n.kind == "stmt" and isinstance(n.ast, ast.Assign)
                     and isinstance(n.ast.value, ast.Call)
                     and A.call_name(n.ast.value) == "self._produce_attr_name"]
        nm = A.dotted(name_defs[0].ast.targets[0]) if name_defs else None
        if nm is None or [A.dotted(x) for x in name_defs[0].ast.value.args] != [v]:
            probs.append("the attribute name is not produced from the AVP")
        else:
            has = f"hasattr({parent_p},{nm})"
            appends = [n for n in g.nodes if n.kind == "stmt" and any(
                isinstance(c.func, ast.Attribute) and c.func.attr == "append" for c in n.calls())]
            sets = [n for n in g.nodes if n.kind == "stmt" and any(
                A.call_name(c) == "setattr" and len(c.args) == 3
                and [A.dotted(x) for x in c.args[:2]] == [parent_p, nm] for c in n.calls())]
            hf = lambda fs, truth: any(f_[0].replace(" ", "") == has and f_[3] is truth for f_ in fs)
            if not appends or not all(hf(must_facts(g, at, n), True) for n in appends):
                probs.append("a repeated AVP is not turned into a list by appending")
            if not any(hf(must_facts(g, at, n), False) for n in sets):
                probs.append("the first occurrence of an AVP is not stored as a plain attribute")
            lists = [n for n in sets if hf(must_facts(g, at, n), True)]
            if appends and not lists:
                probs.append("an existing scalar attribute is not converted into a list before appending")
    body = ast.unparse(av.node)
    if "reversed(" in body or "insert(0" in body or "appendleft" in body:
        probs.append("wire order is not kept")
    ctx.inst("UndefinedMessage._assign_attr_values#order", rule="C03-R10")
    for p in probs:
        ctx.fail("UndefinedMessage._assign_attr_values", av.loc(), p, rule="C03-R10")
        break
