"""Rules about the node's connection tables that several properties share."""
from __future__ import annotations

import ast

from ..report import Ctx
from ..cfg import cfg_of
from ..lockset import call_sites
from .. import astutil as A

CONN_TABLES = ("connections", "peer_sockets", "socket_peers", "_half_ready_connections")


def signal_flag(call: ast.Call):
    """True/False/None(unknown) for the signal_node argument of  X.close(...)."""
    v = None
    if call.args:
        v = call.args[0]
    for k in call.keywords:
        if k.arg == "signal_node":
            v = k.value
    if v is None:
        return True
    if isinstance(v, ast.Constant):
        return bool(v.value)
    return None


def conn_close_calls(model):
    """Calls  <x>.close(...)  in node.py whose receiver is a PeerConnection."""
    from ..typesx import expr_type
    node_cls = model.cls("node.node", "Node")
    out = []
    for f in node_cls.all_funcs:
        for n in A.walk_no_nested(f.node):
            if isinstance(n, ast.Call) and isinstance(n.func, ast.Attribute) \
                    and n.func.attr == "close":
                t = expr_type(model, f, n.func.value)
                if getattr(t, "name", None) == "PeerConnection":
                    out.append((f, n))
    return out


def per_round_close(model) -> dict:
    """Does every round of the I/O loop close what a wake-up would close?  {'closed': bool,
    'closing': bool}: a close_connection_socket(<c>) in Node._handle_connections that is not under
    the interrupt-pipe branch and holds for <c>.state == PEER_CLOSED (resp. PEER_CLOSING with
    nothing queued and an empty buffer), inside the loop over all connections.  While both exist,
    a wake-up that is lost, late or unspecific delays the close by at most one wakeup interval;
    the rules about the wake-up protocol are then not necessary conditions of any property and
    only report (they decide again as soon as the per-round close is gone)."""
    from ..atoms import Atomizer, must_facts
    nc = model.cls("node.node", "Node")
    hc = nc.methods.get("_handle_connections")
    out = {"closed": False, "closing": False}
    if hc is None:
        return out
    g = cfg_of(hc)
    at = Atomizer(model, hc.module, nc)
    peer_mod = model.module("node.peer")
    CLOSED, CLOSING = model.fold_name(peer_mod, "PEER_CLOSED"), model.fold_name(peer_mod, "PEER_CLOSING")
    for n in g.nodes:
        for c in n.calls():
            if A.call_name(c) == "self.close_connection_socket" and c.args:
                cv = A.dotted(c.args[0])
                fx = must_facts(g, at, n)
                if any("interrupt_read" in str(f_[0]) + str(f_[2]) for f_ in fx):
                    continue
                if not any(isinstance(w, ast.For) and "connections" in ast.unparse(w.iter)
                           and "ready_" not in ast.unparse(w.iter) for w in _ancestors(hc.node, n.ast)):
                    continue
                if (f"{cv}.state", "==", CLOSED, True) in fx:
                    out["closed"] = True
                if (f"{cv}.state", "==", CLOSING, True) in fx and (f"len({cv}.write_buffer)", "==", 0, True) in fx \
                        and (f"{cv}.has_queued_messages", "truthy", None, False) in fx:
                    # the write-ready / after-send sites hold these facts too, but only for sockets
                    # select() reported: count only a site that is not under a readiness loop
                    if not any("ready_w" in str(f_) or "ready_r" in str(f_) for f_ in fx) and not any(
                            isinstance(w, ast.For) and ("ready_w" in ast.unparse(w.iter) or "ready_r" in ast.unparse(w.iter))
                            for w in _ancestors(hc.node, n.ast)):
                        out["closing"] = True
    return out


def wake_fail(ctx: Ctx, *args, **kw):
    """ctx.fail for a rule about the wake-up protocol: decisive only while closing a connection
    depends on its wake-up (see per_round_close); otherwise recorded as a note."""
    model = ctx.model
    prc = getattr(model, "_per_round_close", None)
    if prc is None:
        prc = per_round_close(model)
        try:
            model._per_round_close = prc
        except Exception:
            pass
    if prc["closed"] and prc["closing"]:
        cons = args[0] if args else kw.get("construct")
        msg = args[2] if len(args) > 2 else kw.get("message", "")
        ctx.note(f"wake-up protocol, not decisive while every round of the I/O loop closes CLOSED / drained "
                 f"CLOSING connections: {cons}: {str(msg)[:160]}")
        return
    ctx.fail(*args, **kw)


def _ancestors(fn, node):
    par = A.parents(fn)
    x = node
    while x in par:
        x = par[x]
        yield x


def closed_connections_are_removed(ctx: Ctx, rule: str):
    """Every close of a connection object in node.py is either signalled to the I/O
    loop (which then closes the socket and removes the table entries) or happens on a
    path that itself calls close_connection_socket / remove_peer_connection, or
    concerns a connection that was never registered."""
    model = ctx.model
    ctx.rule(rule, "a connection that is closed is also removed from the node's tables: "
                   "signalled close, or close_connection_socket/remove_peer_connection on the "
                   "same path, or never registered", floor=5)
    # the signalled close publishes CLOSED before it wakes the I/O loop
    pc_ = model.cls("node.peer", "PeerConnection")
    cl_ = pc_.methods.get("close")
    cons = "PeerConnection.close:publish-then-signal"
    ctx.inst(cons, rule=rule)
    if cl_ is not None:
        ctx.use(cl_)
        gc_ = cfg_of(cl_)
        closed_v = model.fold_name(pc_.module, "PEER_CLOSED")
        st_ = [n for n in gc_.nodes if n.kind == "stmt" and isinstance(n.ast, ast.Assign)
               and any(A.dotted(t) == "self.state" for t in n.stores())
               and model.try_fold(n.ast.value, pc_.module) == closed_v]
        sg_ = [n for n in gc_.nodes if any(A.call_name(c) == "self.demand_attention" for c in n.calls())]
        if not st_ or not sg_:
            ctx.fail(cons, cl_.loc(), "close() does not store PEER_CLOSED and wake the I/O loop", rule=rule)
        elif not all(gc_.dominated(s_, st_) for s_ in sg_):
            wake_fail(ctx, cons, gc_.loc(sg_[0]), "close() wakes the I/O loop before the state is PEER_CLOSED: "
                     "a wake-up handled in that gap finds nothing to do and the connection is never "
                     "removed from the node's tables", rule=rule)
    for f, call in conn_close_calls(model):
        recv = ast.unparse(call.func.value)
        sig = signal_flag(call)
        g = cfg_of(f)
        node = [n for n in g.nodes if call in n.calls()]
        if not node:
            continue
        node = node[0]
        cons = f"{f.qualname}:close({recv})@{_branch_tag(g, node)}"
        ctx.use(f)
        ctx.inst(cons, rule=rule, sample={"where": g.loc(node), "signal_node": sig})
        if sig is True:
            continue
        removers = [n for n in g.nodes if n.kind == "stmt" and any(
            A.call_name(c) in ("self.close_connection_socket", "self.remove_peer_connection")
            and c.args and ast.unparse(c.args[0]) == recv for c in n.calls())]
        before = g.dominated(node, removers) if removers else False
        after = g.always_followed(node, removers, exits=[g.exit]) if removers else False
        if before or after:
            continue
        # never registered on this path?
        regs = [n for n in g.nodes if n.kind == "stmt" and any(
            isinstance(t, ast.Subscript) and isinstance(t.value, ast.Attribute)
            and t.value.attr == "connections" for t in n.stores())]
        reaches = any(g.can_reach(r, node) for r in regs)
        if f.name == "close_connection_socket":
            continue
        if not reaches and regs:
            continue
        wake_fail(ctx, cons, g.loc(node),
                 f"`{ast.unparse(call)}` in {f.qualname} closes the connection object without "
                 f"signalling the I/O loop and without close_connection_socket/"
                 f"remove_peer_connection on the same path: the connection stays in "
                 f"connections/peer_sockets (and as Peer.connection) although it is closed; a "
                 f"reconnecting peer is refused or routed to the dead connection", rule=rule)


def _branch_tag(g, node) -> str:
    """Position independent tag: the nearest enclosing handler / test text."""
    par = A.parents(g.fn)
    x = node.ast
    while x in par:
        x = par[x]
        if isinstance(x, ast.ExceptHandler):
            return "except-" + (ast.unparse(x.type) if x.type else "all")
        if isinstance(x, ast.If):
            t = ast.unparse(x.test)
            return "if-" + "".join(ch for ch in t if ch.isalnum() or ch in "_.")[:40]
    return "body"


def peer_connection_ownership(ctx: Ctx, rule: str):
    """Peer.connection is set only when unset and cleared only by its owner."""
    from ..atoms import Atomizer
    model = ctx.model
    nc = model.cls("node.node", "Node")
    ctx.rule(rule, "Peer.connection is set only when unset and cleared only by its owner",
             floor=3)
    at_cache = {}
    _resolver_key_stable(ctx, rule, nc)
    for f in nc.all_funcs:
        sets = []
        for n in A.walk_no_nested(f.node):
            if isinstance(n, ast.Assign):
                for t in n.targets:
                    if isinstance(t, ast.Attribute) and t.attr == "connection":
                        sets.append((n, t))
        if not sets:
            continue
        g = cfg_of(f)
        at = Atomizer(model, f.module, nc)
        for st, t in sets:
            recv = ast.unparse(t.value)
            node = [n for n in g.nodes if n.ast is st][0]
            is_clear = isinstance(st.value, ast.Constant) and st.value.value is None
            cons = f"{f.qualname}:{'clear' if is_clear else 'set'}({recv}.connection)"
            ctx.inst(cons, sample={"where": g.loc(node), "stmt": node.text(80)})
            subj = f"{recv}.connection"
            # attach and detach resolve the peer the same way (node_name first): a peer attached
            # through another key is never detached
            if isinstance(t.value, ast.Name):
                pdefs = [x.value for x in A.walk_no_nested(f.node) if isinstance(x, ast.Assign)
                         and any(isinstance(y, ast.Name) and y.id == t.value.id for y in x.targets)]
                owner_p = [a.arg for a in f.node.args.args][1] if len(f.node.args.args) > 1 else None
                if pdefs and not all(isinstance(v, ast.Call) and A.call_name(v) == "self._find_connection_peer"
                                     and [ast.unparse(a) for a in v.args] == [owner_p] for v in pdefs):
                    ctx.fail(cons + "#resolver", g.loc(node), f"the peer whose connection attribute is "
                             f"written in {f.qualname} is obtained as `{ast.unparse(pdefs[0])[:60]}`, not "
                             f"through _find_connection_peer({owner_p}) like everywhere else: a "
                             f"connection whose advertised identity names another configured peer "
                             f"is attached to that peer too, and when it goes away only the peer it "
                             f"was dialled for is cleaned up - the other keeps a closed connection "
                             f"for ever and is never dialled again")
            if is_clear:
                owner = [a.arg for a in f.node.args.args][1] if len(f.node.args.args) > 1 else None

                def pred(a):
                    if a.subject == subj and a.op == "is" and a.value is None:
                        return True
                    if a.subject == subj and a.op in ("is-expr",) and a.value == owner:
                        return True
                    if a.op == "==x" and {a.subject, a.value} == {subj, owner}:
                        return True
                    return None
                if not at.guarded(g, node, pred):
                    ctx.fail(cons, g.loc(node),
                             f"{subj} is cleared without checking that the removed connection "
                             f"`{owner}` is the peer's own (`{subj} is {owner}`): removing a second "
                             f"connection of an already connected peer orphans the live one "
                             f"(Peer.connection None although a ready connection exists; the peer "
                             f"is dialled again)")
            else:
                def pred(a):
                    if a.subject == subj and a.op == "truthy":
                        return False
                    if a.subject == subj and a.op == "is" and a.value is None:
                        return True
                    return None
                if not at.guarded(g, node, pred):
                    ctx.fail(cons, g.loc(node),
                             f"{subj} is overwritten although the peer may already have a live "
                             f"connection: the earlier connection loses its owner record; when "
                             f"the newer one closes the peer counts as disconnected")



def _resolver_key_stable(ctx: Ctx, rule: str, nc):
    """_find_connection_peer resolves a connection by `node_name` first.  That name is fixed when
    the connection is created for a peer (_connect_to_peer: the dialled peer's own name, next to
    `peer.connection = conn`) or when an inbound peer identifies itself (receive_cer); a later
    store makes the connection resolve to ANOTHER configured peer: it is attached to that one as
    well, and the removal cleans up only one of the two."""
    cons = "conn.node_name:fixed-at-creation"
    ctx.inst(cons, rule=rule)
    for f in nc.all_funcs:
        for n in A.walk_no_nested(f.node):
            if not isinstance(n, (ast.Assign, ast.AugAssign, ast.AnnAssign)):
                continue
            for t in A.store_targets(n):
                if not (isinstance(t, ast.Attribute) and t.attr == "node_name"):
                    continue
                recv = A.dotted(t.value)
                if recv in ("self", "peer") or recv.endswith("peer"):
                    continue
                val = ast.unparse(n.value) if getattr(n, "value", None) is not None else ""
                ok = (f.name == "_connect_to_peer" and val.endswith(".node_name")) or f.name == "receive_cer"
                if not ok:
                    ctx.fail(cons, f.loc(n), f"`{ast.unparse(n)[:80]}` in {f.qualname} changes the name a "
                             f"live connection resolves to its peer by (_find_connection_peer looks "
                             f"at node_name first): a connection dialled for peer A that advertises "
                             f"configured peer B becomes B's connection while remaining A's; on "
                             f"close only B is cleaned up and A references a closed connection for "
                             f"ever (never dialled again)", rule=rule,
                             expected="node_name is stored by _connect_to_peer (the dialled peer's "
                                      "name) and receive_cer (inbound identification) only",
                             observed=f"{f.qualname}: {val[:60]}")


def disconnect_record(ctx: Ctx, rule: str):
    """The disconnect record is written with the owner clear and reset on assignment."""
    from ..atoms import Atomizer
    from ..srcmodel import AnalysisError
    model = ctx.model
    nc = model.cls("node.node", "Node")
    add = nc.methods.get("_add_peer_connection")
    rem = nc.methods.get("remove_peer_connection")
    asg = nc.methods.get("_assign_peer_connection")
    if add is None or rem is None or asg is None:
        raise AnalysisError("Node._add_peer_connection/remove_peer_connection/_assign_peer_connection not found")
    ctx.use(add, rem, asg)
    # ---------------- R4 disconnect record --------------------------------------
    ctx.rule(rule, "the disconnect record is written with the owner clear and reset on "
                       "assignment", floor=3)
    g = cfg_of(rem)
    at = Atomizer(model, rem.module, nc)
    clears = [n for n in g.nodes if n.kind == "stmt" and isinstance(n.ast, ast.Assign)
              and any(isinstance(t, ast.Attribute) and t.attr == "connection" for t in n.ast.targets)]
    ld = [n for n in g.nodes if n.kind == "stmt" and any(
        isinstance(t, ast.Attribute) and t.attr == "last_disconnect" for t in n.stores())]
    dr = [n for n in g.nodes if n.kind == "stmt" and any(
        isinstance(t, ast.Attribute) and t.attr == "disconnect_reason" for t in n.stores())]
    ctx.inst("remove_peer_connection:last_disconnect")
    if not clears or not ld or not all(g.always_followed(c, ld) or g.dominated(c, ld) for c in clears):
        ctx.fail("remove_peer_connection:last_disconnect", rem.loc(),
                 "clearing Peer.connection is not accompanied by storing last_disconnect: the "
                 "reconnect timer of a persistent peer never starts")
    elif not all("time" in ast.unparse(n.ast.value) for n in ld):
        ctx.fail("remove_peer_connection:last_disconnect", g.loc(ld[0]), "last_disconnect is not a time stamp")
    # the disconnect time (the start of the reconnect wait) is stamped only when the removed
    # connection IS the peer's connection: one that never was (an inbound connection naming the
    # peer and refused, removed while Peer.connection is None) must not restart the wait
    from ..atoms import must_facts as _mf
    ctx.inst("remove_peer_connection:last_disconnect#own-connection-only")
    owner = [a.arg for a in rem.node.args.args][1]
    for n in ld:
        recv = ast.unparse([t for t in n.stores() if isinstance(t, ast.Attribute)][0].value)
        fx = _mf(g, at, n)
        own = any((f_[0] == f"{recv}.connection" and f_[1] == "is-expr" and f_[2] == owner and f_[3] is True)
                  or (f_[1] == "==x" and {f_[0], f_[2]} == {f"{recv}.connection", owner} and f_[3] is True)
                  for f_ in fx)
        if not own:
            ctx.fail("remove_peer_connection:last_disconnect#own-connection-only", g.loc(n),
                     f"`{n.text(60)}` runs without `{recv}.connection is {owner}` being established: "
                     f"removing a connection that never was the peer's own (Peer.connection None: a "
                     f"refused inbound connection naming the peer) restarts the reconnect wait of "
                     f"the lost persistent peer, for as long as such connections keep coming")
    ctx.inst("remove_peer_connection:disconnect_reason")
    rparams = [a.arg for a in rem.node.args.args]
    ok = False
    for n in dr:
        recv = ast.unparse([t for t in n.stores() if isinstance(t, ast.Attribute)][0].value)
        v = n.ast.value
        if isinstance(v, ast.Name) and v.id in rparams and at.guarded(
                g, n, lambda a, s=f"{recv}.disconnect_reason": True
                if (a.subject == s and a.op == "is" and a.value is None) else
                (False if (a.subject == s and a.op == "truthy") else None)):
            ok = True
    if not ok or not all(g.always_followed(c, ld) or g.dominated(c, ld) for c in clears):
        ctx.fail("remove_peer_connection:disconnect_reason", rem.loc(),
                 "disconnect_reason is not stored from the caller's reason when (and only when) "
                 "it is still unset")
    # the removal can run on a connection's reader thread while the I/O thread decides about
    # the next dial from (connection, last_disconnect, disconnect_reason): the peer counts as
    # unconnected only once the record of the loss is complete
    ctx.inst("remove_peer_connection:record-before-clear")
    for c in clears:
        if not (isinstance(c.ast.value, ast.Constant) and c.ast.value.value is None):
            continue
        if ld and not g.dominated(c, ld):
            ctx.fail("remove_peer_connection:record-before-clear", g.loc(c),
                     "Peer.connection is cleared before last_disconnect (and the reason) are stored: "
                     "_reconnect_peers on the I/O thread can see 'no connection' together with the time "
                     "stamp of the previous loss and dial at once instead of after the reconnect wait; "
                     "the late stores then land on a peer that already owns a new connection")
    # the reason that is stored is a reason: the parameter it comes from has a default that is
    # one of the DISCONNECT_REASON constants in both removal functions, and no caller passes None
    # ("None" is what the record means before the first disconnect)
    ccs_ = nc.methods.get("close_connection_socket")
    for f_ in (rem, ccs_):
        if f_ is None:
            continue
        cons = f"{f_.name}:disconnect_reason#never-none"
        ctx.inst(cons)
        args_ = f_.node.args
        names_ = [a.arg for a in args_.args]
        rp = [n_ for n_ in names_ if "reason" in n_]
        if not rp:
            ctx.fail(cons, f_.loc(), f"{f_.name} has no disconnect reason parameter")
            continue
        idx = names_.index(rp[0]) - (len(names_) - len(args_.defaults))
        if idx >= 0:
            dv_ = model.try_fold(args_.defaults[idx], f_.module, nc, default="?")
            if not isinstance(dv_, int) or isinstance(dv_, bool):
                ctx.fail(cons, f_.loc(), f"the default of `{rp[0]}` in {f_.name} is "
                         f"`{ast.unparse(args_.defaults[idx])}`, not a DISCONNECT_REASON constant: a "
                         f"removal without an explicit reason stores None - the peer has no "
                         f"connection, a disconnect time, and the reason of a peer that was never "
                         f"disconnected")
        for cs in call_sites(model, f_.name):
            pos = names_.index(rp[0]) - 1
            val = cs.node.args[pos] if len(cs.node.args) > pos else next(
                (k.value for k in cs.node.keywords if k.arg == rp[0]), None)
            if isinstance(val, ast.Constant) and val.value is None:
                ctx.fail(cons, cs.where, f"{cs.func.qualname} passes None as the disconnect reason")
    for f in (add, asg):
        g2 = cfg_of(f)
        sets = [n for n in g2.nodes if n.kind == "stmt" and isinstance(n.ast, ast.Assign)
                and any(isinstance(t, ast.Attribute) and t.attr == "connection"
                        for t in n.ast.targets)
                and not (isinstance(n.ast.value, ast.Constant) and n.ast.value.value is None)]
        resets = [n for n in g2.nodes if n.kind == "stmt" and isinstance(n.ast, ast.Assign)
                  and any(isinstance(t, ast.Attribute) and t.attr == "disconnect_reason"
                          for t in n.ast.targets)
                  and isinstance(n.ast.value, ast.Constant) and n.ast.value.value is None]
        cons = f"{f.qualname}:reset-disconnect-reason"
        ctx.inst(cons)
        for s in sets:
            if not (g2.dominated(s, resets) or g2.always_followed(s, resets)):
                ctx.fail(cons, g2.loc(s), "a connection is assigned to the peer without resetting "
                         "disconnect_reason: a peer that was disconnected by DPR is never "
                         "re-dialled after a later loss")



PLAIN_STATE = {("node.peer", "PeerConnection"): ("state",),
               ("node.peer", "Peer"): ("connection", "disconnect_reason", "last_disconnect")}


def stores_take_effect(ctx: Ctx, rule: str, table=None):
    """The attributes the typestate rules follow (`conn.state = ...`, `peer.connection = ...`) are
    what they look like: a store changes the value and a load reads it.  When the class turns one
    of them into a property, the setter stores the value it is given on every path (an exit
    without the store is allowed only where the new value equals the old one) and the getter
    returns that field; the class defines no __setattr__ / __getattribute__ that could decide
    otherwise.  A setter that refuses transitions silently makes every `conn.state = X` in the
    node conditional on a table the handlers never see."""
    from ..atoms import Atomizer, must_facts
    model = ctx.model
    for (mod, cname), attrs in (table or PLAIN_STATE).items():
        ci = model.cls(mod, cname)
        for c in model.mro(ci):
            for dunder in ("__setattr__", "__getattribute__", "__delattr__"):
                if dunder in c.methods:
                    ctx.inst(f"{cname}:{dunder}", rule=rule)
                    ctx.fail(f"{cname}:{dunder}", c.methods[dunder].loc(),
                             f"{c.name} defines {dunder}: every attribute store on a {cname} goes "
                             f"through it and the state rules cannot take `x.{attrs[0]} = v` at "
                             f"face value", rule=rule)
        for attr in attrs:
            cons = f"{cname}.{attr}:plain-store"
            getter = model.find_method(ci, attr)
            setter = model.find_method(ci, attr, setter=True)
            if getter is None or not getter.is_property:
                ctx.inst(cons, rule=rule, sample="plain attribute")
                continue
            ctx.inst(cons, rule=rule, sample="property")
            ctx.use(getter)
            if setter is None:
                ctx.fail(cons, getter.loc(), f"{cname}.{attr} is a read-only property: the stores "
                         f"in the node raise AttributeError", rule=rule)
                continue
            ctx.use(setter)
            param = setter.node.args.args[1].arg
            g = cfg_of(setter, inline=False)
            stores = [n for n in g.nodes if n.kind == "stmt" and isinstance(n.ast, (ast.Assign, ast.AnnAssign))
                      and any(A.dotted(t).startswith("self.") for t in n.stores())
                      and isinstance(getattr(n.ast, "value", None), ast.Name) and n.ast.value.id == param]
            if not stores:
                ctx.fail(cons, setter.loc(), f"the setter of {cname}.{attr} never stores the value "
                         f"it is given", rule=rule)
                continue
            backing = A.dotted(stores[0].stores()[0])
            rets = [n.value for n in ast.walk(getter.node) if isinstance(n, ast.Return)]
            if not rets or any(r is None or A.dotted(r) != backing for r in rets):
                ctx.fail(cons + "#getter", getter.loc(), f"the getter of {cname}.{attr} does not "
                         f"return the field the setter stores ({backing})", rule=rule)
            r = g.reach([d for l, d in g.entry.succ], normal_blocked=stores, skip_labels=("exc",))
            if g.exit in r:
                at = Atomizer(model, setter.module, ci)
                exits = [n for n in r if n not in stores
                         and any(d is g.exit for l, d in n.succ if l != "exc")]
                # `old = self._state; if new == old: return`
                alias = {backing} | {t.id for n in ast.walk(setter.node) if isinstance(n, ast.Assign)
                                     and A.dotted(n.value) == backing for t in n.targets
                                     if isinstance(t, ast.Name)}
                for n in exits:
                    fx = must_facts(g, at, n)
                    same = any(str(a[1]) in ("==", "==x", "is") and a[3] is True and
                               param in (str(a[0]), str(a[2])) and
                               (str(a[0]) in alias or str(a[2]) in alias) for a in fx)
                    if not same:
                        ctx.fail(cons, g.loc(n), f"the setter of {cname}.{attr} can return without "
                                 f"storing the value (guards: {sorted(map(str, fx))[:3]}): "
                                 f"`x.{attr} = v` silently does nothing on that path - a connection "
                                 f"that the handlers have moved to another state (DISCONNECTING "
                                 f"after a DPR, READY after a DWA, CLOSING) stays where it was, is "
                                 f"still offered for routing or never closes", rule=rule,
                                 expected="every path stores the value (or the value is already there)",
                                 observed="an exit without the store")
                        break


def ready_state_stores(ctx: Ctx, rule: str):
    """Typestate: a connection enters a ready state only through the ready flag
    (after a successful capabilities exchange) or through the DWR/DWA toggles,
    each guarded by the state it must come from."""
    from ..atoms import Atomizer, must_facts
    model = ctx.model
    peer_mod = model.module("node.peer")
    READY = frozenset(model.fold_name(peer_mod, "PEER_READY_STATES"))
    PREADY = model.fold_name(peer_mod, "PEER_READY")
    WAITING = model.fold_name(peer_mod, "PEER_READY_WAITING_DWA")
    ctx.rule(rule, "stores of a ready state: only _flag_connection_as_ready, and the DWR/DWA "
                   "toggles guarded by the state they come from", floor=3)
    stores_take_effect(ctx, rule)
    for f in model.all_funcs():
        if ".node" not in f.module.name:
            continue
        for n in A.walk_no_nested(f.node):
            if not isinstance(n, ast.Assign):
                continue
            for t in n.targets:
                if not (isinstance(t, ast.Attribute) and t.attr == "state"):
                    continue
                v = model.try_fold(n.value, f.module, f.cls)
                if v not in READY:
                    continue
                recv = ast.unparse(t.value)
                cons = f"{f.qualname}:state={'READY' if v == PREADY else 'READY_WAITING_DWA'}"
                g = cfg_of(f)
                node = [x for x in g.nodes if x.ast is n][0]
                at = Atomizer(model, f.module, f.cls)
                facts = must_facts(g, at, node)
                ctx.use(f)
                ctx.inst(cons, sample={"where": g.loc(node), "facts": sorted(map(str, facts))[:6]})
                if f.name == "_flag_connection_as_ready":
                    callers = [c for c in call_sites(model, f.name)]
                    bad = [c for c in callers if c.func.name not in ("receive_cer", "receive_cea")]
                    if bad:
                        ctx.fail(cons + "#caller", bad[0].where, f"{f.name} is called from "
                                 f"{bad[0].func.qualname}, outside the capabilities exchange")
                    # ... and only while the exchange is pending: the gate lets CER/CEA through in
                    # every later state too (READY, WAITING_DWA, DISCONNECTING)
                    CONNECTED = model.fold_name(peer_mod, "PEER_CONNECTED")
                    # the guard may sit in the helpers themselves (then every caller is covered)
                    hp = [a.arg for a in f.node.args.args]
                    hconn = hp[1] if len(hp) > 1 else "conn"
                    in_helper = (f"{hconn}.state", "==", CONNECTED, True) in facts
                    # the callers have decided that the exchange succeeded; the helper makes the
                    # connection ready on the word of its state alone
                    extra = [x for x in facts if x[0] != f"{hconn}.state"]
                    if extra:
                        ctx.fail(cons + "#conditions", g.loc(node), f"{f.name} stores PEER_READY only under "
                                 f"{extra}: a connection whose capabilities exchange has just been "
                                 f"answered 2001 (or whose CEA said 2001) and that fails the extra "
                                 f"condition - a peer's second connection, an inbound connection while "
                                 f"our own dial is pending - stays CONNECTED: it is told it is in "
                                 f"service, everything it sends is ignored, and the CER/CEA time-out "
                                 f"closes it", expected="conditioned on conn.state only",
                                 observed=str(extra))
                    asg = f.cls.methods.get("_assign_peer_connection") if f.cls else None
                    if in_helper and asg is not None:
                        ga_ = cfg_of(asg)
                        ata = Atomizer(model, asg.module, asg.cls)
                        ap_ = [a.arg for a in asg.node.args.args]
                        aconn = ap_[1] if len(ap_) > 1 else "conn"
                        for x in ga_.nodes:
                            if x.kind == "stmt" and any(
                                    isinstance(t, ast.Attribute) and t.attr in ("connection", "disconnect_reason")
                                    for t in x.stores()):
                                if (f"{aconn}.state", "==", CONNECTED, True) not in must_facts(ga_, ata, x):
                                    in_helper = False
                    cons_h = f"{f.cls.name if f.cls else ''}._flag_connection_as_ready/_assign_peer_connection:only-when-CONNECTED"
                    ctx.inst(cons_h, sample={"guard_in_helpers": in_helper})
                    if in_helper:
                        continue
                    for c in callers:
                        if c.func.name not in ("receive_cer", "receive_cea"):
                            continue
                        gc_ = cfg_of(c.func)
                        atc = Atomizer(model, c.func.module, c.func.cls)
                        cn_ = [x for x in gc_.nodes if c.node in x.calls()]
                        cv_ = ast.unparse(c.node.args[0]) if c.node.args else "?"
                        fx = must_facts(gc_, atc, cn_[0]) if cn_ else set()
                        cons2 = f"{c.func.qualname}:completes-only-when-CONNECTED"
                        ctx.inst(cons2, sample=sorted(map(str, fx))[:6])
                        if (f"{cv_}.state", "==", CONNECTED, True) not in fx:
                            ctx.fail(cons2, c.where, f"{c.func.name} completes the handshake "
                                     f"({f.name}) without requiring `{cv_}.state == PEER_CONNECTED`: a "
                                     f"second CER / an unsolicited CEA turns a connection that is "
                                     f"waiting for a DWA or DISCONNECTING (DPR answered) back into "
                                     f"PEER_READY and clears the peer's disconnect reason; a CER/CEA "
                                     f"still being handled while the node closes the connection "
                                     f"resurrects it")
                    continue
                if v == PREADY:
                    ok = (f"{recv}.state", "==", WAITING, True) in facts
                    want = "state == READY_WAITING_DWA"
                else:
                    ok = (f"{recv}.state", "in", READY, True) in facts or \
                        (f"{recv}.state", "==", PREADY, True) in facts
                    want = "state in PEER_READY_STATES"
                if not ok:
                    ctx.fail(cons, g.loc(node),
                             f"`{ast.unparse(n)}` in {f.qualname} is not guarded by {want}: a "
                             f"connection that is CONNECTED (before its capabilities exchange), "
                             f"DISCONNECTING (after a DPR) or CLOSING can become ready and is "
                             f"offered for routing again")


def ready_constants(ctx: Ctx, rule: str):
    model = ctx.model
    peer_mod = model.module("node.peer")
    ctx.rule(rule, "PEER_READY_STATES is exactly {READY, READY_WAITING_DWA}; the seven states "
                   "are pairwise distinct", floor=1)
    names = ["PEER_CONNECTING", "PEER_CONNECTED", "PEER_READY", "PEER_READY_WAITING_DWA",
             "PEER_DISCONNECTING", "PEER_CLOSING", "PEER_CLOSED"]
    vals = {n: model.fold_name(peer_mod, n) for n in names}
    ready = set(model.fold_name(peer_mod, "PEER_READY_STATES"))
    ctx.inst("PEER_READY_STATES", sample={"ready": sorted(ready), "states": vals})
    if len(set(vals.values())) != len(vals):
        ctx.fail("PEER_*:distinct", peer_mod.relpath + ":1", f"connection state constants collide: {vals}")
    if ready != {vals["PEER_READY"], vals["PEER_READY_WAITING_DWA"]}:
        ctx.fail("PEER_READY_STATES", peer_mod.relpath + ":1",
                 f"PEER_READY_STATES = {sorted(ready)} is not exactly (PEER_READY, "
                 f"PEER_READY_WAITING_DWA): connections that have not completed the capabilities "
                 f"exchange or are disconnecting are routed to")


def route_answer_discipline(ctx: Ctx, rule: str):
    """route_answer deletes the pending-request record before it can return a connection
    (a second submission finds nothing and raises), returns only a ready connection of the
    waiting host, and raises NotRoutable on every other path before anything is queued."""
    from ..atoms import Atomizer, must_facts
    from ..srcmodel import AnalysisError
    model = ctx.model
    nc = model.cls("node.node", "Node")
    f = nc.methods.get("route_answer")
    if f is None:
        raise AnalysisError("Node.route_answer not found")
    ctx.use(f)
    g = cfg_of(f)
    at = Atomizer(model, f.module, nc)
    peer_mod = model.module("node.peer")
    READY = frozenset(model.fold_name(peer_mod, "PEER_READY_STATES"))
    ctx.rule(rule, "route_answer: delete-before-return, ready filter, host match, NotRoutable "
                   "otherwise", floor=4)
    rets = [n for n in g.nodes if n.kind == "stmt" and isinstance(n.ast, ast.Return)
            and n.ast.value is not None]
    dels = [n for n in g.nodes if n.kind == "stmt" and (
        any(isinstance(t, ast.Subscript) and "_peer_waiting_answer" in ast.unparse(t) for t in n.deletes())
        or any(isinstance(c.func, ast.Attribute) and c.func.attr == "pop"
               and "_peer_waiting_answer" in ast.unparse(c.func.value) for c in n.calls()))]
    cons = "route_answer:delete-before-return"
    ctx.inst(cons, rule=rule, sample={"deletes": [g.loc(n) for n in dels], "returns": [g.loc(n) for n in rets]})
    if not rets:
        raise AnalysisError("route_answer has no return")
    for r in rets:
        if not g.dominated(r, dels):
            ctx.fail(cons, g.loc(r), "route_answer can return a connection without having removed "
                     "the pending-request record: a second answer for the same request (e.g. from a "
                     "deadline fallback racing the worker) is routed and transmitted as well",
                     rule=rule)
    # the per-connection pending tables are only ever grown and shrunk in place: the reader
    # thread files requests while application threads remove answered ones, so a rebuilt copy
    # stored back over the live dict resurrects records removed in between
    cons_c = "pending-table:in-place"
    ctx.inst(cons_c, rule=rule)
    for fn_ in nc.all_funcs:
        for x in A.walk_no_nested(fn_.node):
            if not isinstance(x, (ast.Assign, ast.AnnAssign)) or x.value is None:
                continue
            for t in A.store_targets(x):
                if isinstance(t, ast.Subscript) and A.dotted(t.value) == "self._peer_waiting_answer":
                    fresh = A.resolve_local_chain(fn_.node, x.value).replace(" ", "") in ("{}", "dict()")
                    if not fresh:
                        ctx.fail(cons_c, fn_.loc(x), f"`{ast.unparse(x)[:90]}` in {fn_.qualname} replaces a "
                                 f"connection's pending-request table by another dict object: a record "
                                 f"that route_answer removed from the old dict between the copy and "
                                 f"this store is back in the table, and a second answer for that "
                                 f"request is routed and transmitted", rule=rule,
                                 expected="the table of a connection is created empty once and then "
                                          "only modified in place", observed=ast.unparse(x.value)[:80])
    # ... and when it does fail - the connection was removed, or another thread answered the
    # same request, since the search - the caller sees the documented NotRoutable, not KeyError
    cons_k = "route_answer:removal-failure-is-NotRoutable"
    want_error_type = rule.startswith("C09")      # the error's type is C09's clause only
    if want_error_type:
        ctx.inst(cons_k, rule=rule)
    for d in dels:
        if not d.deletes() or not want_error_type:
            continue
        tries = [x for x in d.lexical if isinstance(x, ast.Try)]
        conv = any(any(h.type is not None and "KeyError" in ast.unparse(h.type)
                       and any(isinstance(y, ast.Raise) and y.exc is not None and "NotRoutable" in ast.unparse(y.exc)
                               for y in ast.walk(h)) for h in t.handlers) for t in tries)
        locked_ = any(isinstance(w, ast.With) and any("lock" in ast.unparse(i.context_expr).lower()
                                                      for i in w.items) for w in d.lexical)
        if not conv and not locked_:
            ctx.fail(cons_k, g.loc(d), f"`{d.text(80)}` raises KeyError when the record has vanished since "
                     f"the search (the node thread removed the connection, a second thread answered "
                     f"the same request): Application.send_answer fails with a bare KeyError instead "
                     f"of the not-routable error", rule=rule,
                     expected="try: del ... except KeyError: raise NotRoutable(...)")
    # send_message, the next call of send_answer, cleans the record up for answers sent directly:
    # one tolerant operation, not membership tests followed by `del` (the table of the connection
    # can be removed by the node thread between them)
    smf = nc.methods.get("send_message")
    if want_error_type and smf is not None:
        cons_s = "send_message:pending-cleanup-tolerant"
        ctx.inst(cons_s, rule=rule)
        for x in A.walk_no_nested(smf.node):
            if isinstance(x, ast.Delete) and any("_peer_waiting_answer" in ast.unparse(t) for t in x.targets):
                ctx.fail(cons_s, smf.loc(x), f"`{ast.unparse(x)}` in send_message follows membership tests on "
                         f"the same table: remove_peer_connection popping the connection's table in "
                         f"between makes Application.send_answer fail with a bare KeyError instead of "
                         f"the not-routable error", rule=rule,
                         expected="self._peer_waiting_answer.get(ident, {}).pop(key, None)")
    # the removal is the atomic test-and-remove: it fails when the record is already gone
    cons_a = "route_answer:removal-is-exclusive"
    ctx.inst(cons_a, rule=rule)
    for d in dels:
        locked = any(isinstance(w, ast.With) and any("lock" in ast.unparse(i.context_expr).lower()
                                                     for i in w.items) for w in d.lexical)
        for c in d.calls():
            if isinstance(c.func, ast.Attribute) and c.func.attr == "pop" \
                    and "_peer_waiting_answer" in ast.unparse(c.func.value) \
                    and (len(c.args) > 1 or c.keywords) and isinstance(d.ast, ast.Expr) and not locked:
                ctx.fail(cons_a, g.loc(d), f"`{d.text(90)}` removes the pending record tolerantly (a "
                         f"default is given and the result ignored) and outside any lock: the "
                         f"membership test and the removal are not atomic, so two threads answering "
                         f"the same request both pass the test and both answers are transmitted "
                         f"(with `del`/`pop(key)` the second one fails)", rule=rule)
    # the delete removes the record of exactly this answer's id under the waiting host
    mid = None
    for n in g.nodes:
        if n.kind == "stmt" and isinstance(n.ast, ast.Assign) and \
                "header.hop_by_hop_identifier" in ast.unparse(n.ast.value) \
                and isinstance(n.ast.targets[0], ast.Name):
            mid = A.dotted(n.ast.targets[0])
            cons_k = "route_answer:record-key-has-both-identifiers"
            ctx.inst(cons_k, rule=rule)
            if "header.end_to_end_identifier" not in ast.unparse(n.ast.value):
                ctx.fail(cons_k, g.loc(n), f"the pending record is searched under `{ast.unparse(n.ast.value)}`: "
                         f"hop-by-hop identifiers are unique per connection only, so with the same "
                         f"value pending on two connections the first one found gets the answer",
                         rule=rule)
    for d in dels:
        txt = d.text(200)
        if mid and f"[{mid}]" not in txt and f"({mid}" not in txt:
            ctx.fail(cons + "#key", g.loc(d), f"the record removed is not the one of the answer's "
                     f"hop-by-hop id `{mid}`: `{txt}`", rule=rule)
    # ready filter and host match on the returned connection
    cons = "route_answer:returns-ready-requester"
    ctx.inst(cons, rule=rule)
    for r in rets:
        v = r.ast.value
        cvar = A.dotted(v.elts[0]) if isinstance(v, ast.Tuple) and v.elts else A.dotted(v)
        facts = must_facts(g, at, r)
        ready = (f"{cvar}.state", "in", READY, True) in facts
        if not ready:
            ctx.fail(cons, g.loc(r), f"route_answer returns `{cvar}` without requiring its state to "
                     f"be in PEER_READY_STATES: an answer is transmitted on a connection that is "
                     f"DISCONNECTING (after a DPR/DPA) or closing instead of raising NotRoutable",
                     rule=rule)
        # the connection variable is assigned only under host identity equality
        assigns = [n for n in g.nodes if n.kind == "stmt" and isinstance(n.ast, ast.Assign)
                   and any(A.dotted(t) == cvar for t in n.ast.targets)
                   and not (isinstance(n.ast.value, ast.Constant) and n.ast.value.value is None)]
        # the connection is the one the record was filed under: looked up in self.connections by
        # the key of the table entry that held the record
        loopkeys = set()
        for n_ in A.walk_no_nested(f.node):
            if isinstance(n_, ast.For) and "_peer_waiting_answer" in ast.unparse(n_.iter) \
                    and isinstance(n_.target, ast.Tuple) and n_.target.elts \
                    and isinstance(n_.target.elts[0], ast.Name):
                loopkeys.add(n_.target.elts[0].id)
        for n_ in A.walk_no_nested(f.node):
            if isinstance(n_, ast.Assign) and isinstance(n_.value, ast.Name) and n_.value.id in loopkeys:
                loopkeys |= {t.id for t in n_.targets if isinstance(t, ast.Name)}
        for a_ in assigns:
            v_ = a_.ast.value
            okc = False
            if isinstance(v_, ast.Call) and isinstance(v_.func, ast.Attribute) and v_.func.attr == "get" \
                    and A.dotted(v_.func.value) == "self.connections" and v_.args \
                    and isinstance(v_.args[0], ast.Name) and v_.args[0].id in loopkeys:
                okc = True
            if isinstance(v_, ast.Subscript) and A.dotted(v_.value) == "self.connections" \
                    and isinstance(v_.slice, ast.Name) and v_.slice.id in loopkeys:
                okc = True
            if not okc:
                ctx.fail(cons + "#connection", g.loc(a_), f"the connection chosen for the answer is "
                         f"`{ast.unparse(v_)[:70]}`, not the connection registered under the key of "
                         f"the table entry that held the pending record: the answer can leave on "
                         f"another connection (e.g. any connection with the same host identity)",
                         rule=rule)
    # every other exit raises NotRoutable
    cons = "route_answer:not-routable"
    ctx.inst(cons, rule=rule)
    raises = [n for n in g.nodes if n.kind == "stmt" and isinstance(n.ast, ast.Raise)]
    if not raises or not all("NotRoutable" in ast.unparse(n.ast) for n in raises):
        ctx.fail(cons, f.loc(), "route_answer does not raise NotRoutable when the answer cannot be routed",
                 rule=rule)
    r = g.reach([g.entry], blocked=rets)
    if g.exit in r:
        ctx.fail(cons + "#silent", f.loc(), "route_answer can fall off the end (returns None) "
                 "instead of raising NotRoutable", rule=rule)
    # nothing is queued inside route_answer
    if any(n.has_call("send_message") or n.has_call("add_out_msg") for n in g.nodes):
        ctx.fail(cons + "#sends", f.loc(), "route_answer itself queues a message", rule=rule)
    # Application.send_answer sends exactly on the returned connection
    app = model.cls("node.application", "Application")
    sa = app.methods.get("send_answer")
    cons = "Application.send_answer"
    ctx.inst(cons, rule=rule)
    if sa is None:
        ctx.error("Application.send_answer not found", rule=rule)
        return
    ctx.use(sa)
    gs = cfg_of(sa)
    routes = [n for n in gs.nodes if n.has_call("route_answer")]
    sends = [n for n in gs.nodes if n.has_call("send_message")]
    if len(routes) != 1 or len(sends) != 1 or not gs.dominated(sends[0], routes):
        ctx.fail(cons, sa.loc(), "send_answer does not route the answer (route_answer) before "
                 "sending it exactly once", rule=rule)
    else:
        tgt = A.store_targets(routes[0].ast)
        first = None
        if tgt and isinstance(routes[0].ast.targets[0], ast.Tuple):
            first = A.dotted(routes[0].ast.targets[0].elts[0])
        call = [c for c in sends[0].calls() if A.call_name(c).endswith("send_message")][0]
        mparam = [a.arg for a in sa.node.args.args][1]
        if first is None or A.dotted(call.args[0]) != first or A.dotted(call.args[1]) != mparam:
            ctx.fail(cons, gs.loc(sends[0]), "send_answer does not send the submitted answer on the "
                     "connection returned by route_answer", rule=rule)
        if any(isinstance(x, ast.Try) for x in sends[0].lexical + routes[0].lexical):
            trs = [x for x in routes[0].lexical if isinstance(x, ast.Try)]
            for t in trs:
                for h in t.handlers:
                    if not any(isinstance(s_, ast.Raise) for s_ in ast.walk(h)):
                        ctx.fail(cons + "#swallow", sa.loc(h), "send_answer swallows the "
                                 "not-routable error", rule=rule)


def waiting_table_keys(ctx: Ctx, rule: str):
    """Every outer-level access to Node._peer_waiting_answer is keyed by the ident of a
    connection (or by a key obtained from iterating the table itself).  A record filed under
    anything coarser than the connection - the peer's host identity - lets an answer travel on
    another connection of that host, or survive into the host's next connection."""
    from ..typesx import expr_type
    model = ctx.model
    nc = model.cls("node.node", "Node")
    T = "self._peer_waiting_answer"
    ctx.rule(rule, "the pending-answer table is keyed by <connection>.ident at every "
                   "insert, lookup, cleanup and removal", floor=4)   # one site each; a membership test
    # merged with its insert (setdefault) is one site fewer than today's five, not a vanished anchor
    for f in nc.all_funcs:
        if f.name == "__init__":
            continue
        loopvars = set()
        for n in A.walk_no_nested(f.node):
            if isinstance(n, (ast.For, ast.comprehension)) and T in ast.unparse(n.iter):
                t = n.target
                for e in ([t] if isinstance(t, ast.Name) else getattr(t, "elts", [])):
                    if isinstance(e, ast.Name):
                        loopvars.add(e.id)
        # aliases of loop variables
        for n in A.walk_no_nested(f.node):
            if isinstance(n, ast.Assign) and isinstance(n.value, ast.Name) and n.value.id in loopvars:
                for t in n.targets:
                    if isinstance(t, ast.Name):
                        loopvars.add(t.id)
        keys = []
        for n in A.walk_no_nested(f.node):
            if isinstance(n, ast.Subscript) and A.dotted(n.value) == T:
                keys.append((n, n.slice))
            elif isinstance(n, ast.Compare) and len(n.ops) == 1 and isinstance(n.ops[0], (ast.In, ast.NotIn)) \
                    and A.dotted(n.comparators[0]) == T:
                keys.append((n, n.left))
            elif isinstance(n, ast.Call) and isinstance(n.func, ast.Attribute) \
                    and A.dotted(n.func.value) == T and n.func.attr in ("get", "pop", "setdefault") and n.args:
                keys.append((n, n.args[0]))
        for n, k in keys:
            cons = f"{f.qualname}:waiting-key"
            ctx.use(f)
            ctx.inst(cons, rule=rule, nontrivial=True,
                     sample={"where": f.loc(n), "key": ast.unparse(k)})
            if isinstance(k, ast.Name) and k.id in loopvars:
                continue
            if isinstance(k, ast.Attribute) and k.attr == "ident":
                t = expr_type(model, f, k.value)
                if getattr(t, "name", None) == "PeerConnection":
                    continue
            if isinstance(k, ast.Attribute) and k.attr in ("host_identity", "node_name", "origin_host"):
                ctx.fail(cons, f.loc(n), f"{f.qualname} files/looks up pending requests under "
                         f"`{ast.unparse(k)}` - the peer's name, not the connection: with two "
                         f"connections of one host the answer is sent on the other one, and a record "
                         f"that survives until the host reconnects lets a late answer travel on the new "
                         f"connection (the property requires the connection the request arrived on)",
                         rule=rule)
                continue
            ctx.fail(cons, f.loc(n), f"{f.qualname} accesses the pending-answer table under "
                     f"`{ast.unparse(k)}`; every other site keys it by <connection>.ident: "
                     f"records filed under one key are never found/removed under the other (stale "
                     f"records survive a disconnect and a late answer is sent on a new connection)",
                     rule=rule)


def connection_table_pairing(ctx: Ctx, rule: str):
    """Every table filled by _add_peer_connection is emptied by remove_peer_connection."""
    from ..srcmodel import AnalysisError
    model = ctx.model
    nc = model.cls("node.node", "Node")
    add = nc.methods.get("_add_peer_connection")
    rem = nc.methods.get("remove_peer_connection")
    if add is None or rem is None:
        raise AnalysisError("Node._add_peer_connection/remove_peer_connection not found")
    ctx.use(add, rem)
    conn_param = [a.arg for a in add.node.args.args][1]
    ctx.rule(rule, "every table filled by _add_peer_connection is emptied by "
                       "remove_peer_connection, guarded by membership only", floor=4)
    tables: dict[str, str] = {}
    for n in A.walk_no_nested(add.node):
        if isinstance(n, ast.Assign):
            for t in n.targets:
                if isinstance(t, ast.Subscript) and isinstance(t.value, ast.Attribute) \
                        and A.dotted(t.value.value) == "self":
                    tables[t.value.attr] = ast.unparse(t.slice)
    ctx.note(f"tables filled by _add_peer_connection: {tables}")
    rparam = [a.arg for a in rem.node.args.args][1]
    for tbl, key in sorted(tables.items()):
        cons = f"remove_peer_connection:delete({tbl})"
        ctx.inst(cons, sample={"table": tbl, "insert_key": key})
        dels = []
        for n in A.walk_no_nested(rem.node):
            if isinstance(n, ast.Delete):
                for t in n.targets:
                    if isinstance(t, ast.Subscript) and isinstance(t.value, ast.Attribute) \
                            and t.value.attr == tbl:
                        dels.append((n, ast.unparse(t.slice)))
            elif isinstance(n, ast.Call) and isinstance(n.func, ast.Attribute) \
                    and n.func.attr == "pop" and isinstance(n.func.value, ast.Attribute) \
                    and n.func.value.attr == tbl and n.args:
                dels.append((n, ast.unparse(n.args[0])))
        if not dels:
            ctx.fail(cons, rem.loc(), f"remove_peer_connection never deletes from {tbl}: entries of "
                     f"closed connections stay for ever (stale lookups by "
                     f"{'file number, which the OS reuses' if 'fileno' in key else 'connection id'})")
            continue
        want = key.replace(conn_param, rparam)
        good = [d for d in dels if d[1] == want]
        if not good:
            ctx.fail(cons, rem.loc(dels[0][0]), f"{tbl} is filled under key `{key}` but emptied "
                     f"under `{dels[0][1]}`")
            continue
        d = good[0][0]
        bad = None
        for test, pol in A.enclosing_tests(rem.node, d):
            for conj, p_ in A.conjuncts(test, pol):
                if tbl not in ast.unparse(conj):
                    bad = conj
        if bad is not None:
            ctx.fail(cons + "#conditional", rem.loc(d),
                     f"the delete from {tbl} only happens under `{ast.unparse(bad)}`, which is "
                     f"not a membership test on the table: on the other branch the entry stays")



# Classes whose instances the node keys tables by / compares by *identity*.  Frozen after reading
# the code; one line of reason each.
IDENTITY_CLASSES = {
    ("node.application", "Application"):
        "key of Node._peer_routes[realm] and operand of `app == route_app`: two applications "
        "with one id on different peers must stay two routes",
    ("node.peer", "PeerConnection"):
        "value of Node.connections compared with `is`/`==` when a route or waiter is matched",
}


def identity_semantics(ctx: Ctx, rule: str):
    """Equality and hashing of the table-key classes are object identity: neither the class, a
    subclass nor a base inside the package defines __eq__/__hash__ or is a dataclass with eq."""
    model = ctx.model
    ctx.rule(rule, "classes the routing tables are keyed by compare and hash by identity (no "
                   "__eq__/__hash__, no eq-dataclass) - value equality would merge distinct "
                   "applications/connections into one table entry", floor=4)
    for (mod, name), why in IDENTITY_CLASSES.items():
        root = model.cls(mod, name)
        family = [root] + [c for c in model.mro(root) if c is not root] + model.subclasses(root)
        seen = []
        for ci in family:
            if ci in seen:
                continue
            seen.append(ci)
            cons = f"{ci.name}:identity-equality"
            ctx.use(ci)
            ctx.inst(cons, sample={"root": name, "why": why})
            bad = None
            for m in ("__eq__", "__hash__", "__ne__"):
                if m in ci.methods or m in ci.class_assigns:
                    bad = f"defines {m}"
            for d in ci.node.decorator_list:
                dn = A.dotted(d.func) if isinstance(d, ast.Call) else A.dotted(d)
                if dn and dn.split(".")[-1] == "dataclass":
                    eq_off = isinstance(d, ast.Call) and any(
                        k.arg == "eq" and isinstance(k.value, ast.Constant) and k.value.value is False
                        for k in d.keywords)
                    if not eq_off:
                        bad = "is a dataclass with generated __eq__"
                elif dn and dn.split(".")[-1] == "total_ordering":
                    bad = "uses total_ordering"
            if bad:
                ctx.fail(cons, ci.loc(), f"{ci.name} {bad}: instances of {name} are table keys / "
                         f"compared by identity ({why}); with value equality two distinct objects "
                         f"collapse into one entry and traffic reaches the wrong one")


def connect_failure_closes(ctx: Ctx, rule: str):
    """Once _connect_to_peer has registered the new connection, every failure of the socket's
    connect call is handled inside the function: either the in-progress case or
    close_connection_socket.  Under the fault model connect()/connectx() raise OSError (any
    subclass); a handler list that names only some subclasses lets the others escape with the
    connection still in every table and its socket open."""
    from ..effects import fault_effects_of
    from ..srcmodel import AnalysisError
    model = ctx.model
    nc = model.cls("node.node", "Node")
    f = nc.methods.get("_connect_to_peer")
    if f is None:
        raise AnalysisError("Node._connect_to_peer not found")
    ctx.use(f)
    ctx.rule(rule, "a failing connect()/connectx() of a registered connection never escapes "
                   "_connect_to_peer: it is the in-progress case or ends in close_connection_socket",
             floor=1)
    F = fault_effects_of(model)
    g = cfg_of(f, effects=F)
    sites = [n for n in g.nodes if n.kind == "stmt" and any(
        isinstance(c.func, ast.Attribute) and c.func.attr in ("connect", "connectx", "connect_ex")
        for c in n.calls())]
    if not sites:
        raise AnalysisError("_connect_to_peer has no connect()/connectx() call")
    for n in sites:
        cons = f"_connect_to_peer:{n.text(40).split('(')[0].split('.')[-1]}-failure-handled@{_branch_tag(g, n)}"
        ctx.inst(cons, rule=rule, sample={"raises": sorted(n.raises), "where": g.loc(n)})
        if not n.raises:
            ctx.error(f"the fault model attaches no exception to `{n.text(60)}`", rule=rule)
            continue
        esc = [d for l, d in n.succ if l in ("exc", "raise") and d is g.raise_exit]
        if esc:
            ctx.fail(cons, g.loc(n), f"`{n.text(60)}` can fail with {sorted(n.raises)} (or a subclass) "
                     f"that no handler around it catches: the exception leaves _connect_to_peer "
                     f"after the connection was registered - it stays in connections / peer_sockets / "
                     f"socket_peers with its socket open, Peer.connection keeps referencing it (the "
                     f"peer is never dialled again) and no disconnect reason is recorded", rule=rule)
            continue


def wakeup_tokens_all_handled(ctx: Ctx, rule: str):
    """Every wake-up a connection writes to the node's self-pipe is acted upon.  A wake-up is one
    connection id (os.urandom(N).hex() written as N raw bytes by demand_attention); the reader
    in _handle_connections either reads exactly N bytes per select round (the remaining
    tokens wake select again) or iterates over every N-byte token of a larger read without
    leaving the loop early."""
    from ..srcmodel import AnalysisError
    model = ctx.model
    nc = model.cls("node.node", "Node")
    pc = model.cls("node.peer", "PeerConnection")
    hc = nc.methods.get("_handle_connections")
    gen = nc.methods.get("_generate_connection_id")
    da = pc.methods.get("demand_attention")
    if hc is None or gen is None or da is None:
        raise AnalysisError("_handle_connections / _generate_connection_id / demand_attention not found")
    ctx.use(hc, gen, da)
    ctx.rule(rule, "self-pipe: one wake-up = one connection id; the reader consumes exactly one id "
                   "per read or handles every id of a batched read", floor=2)
    # token size
    tok = None
    for n in ast.walk(gen.node):
        if isinstance(n, ast.Call) and A.call_name(n) in ("os.urandom", "secrets.token_bytes") and n.args:
            tok = model.try_fold(n.args[0], gen.module)
    cons = "self-pipe:token"
    ctx.inst(cons, rule=rule, sample={"bytes": tok})
    wr = [n for n in ast.walk(da.node) if isinstance(n, ast.Call) and A.call_name(n) == "os.write"]
    if tok is None or len(wr) != 1 or len(wr[0].args) != 2 \
            or ast.unparse(wr[0].args[1]).replace(" ", "") != "bytes.fromhex(self.ident)":
        # decisive whatever closes connections: an id that is not an even number of hex digits
        # makes bytes.fromhex raise in the thread that asks for attention (the writer thread ends)
        ctx.fail(cons, da.loc(), "demand_attention does not write the connection id "
                 "(bytes.fromhex(self.ident)) of a fixed size to the interrupt pipe", rule=rule)
        return
    reads = [n for n in ast.walk(hc.node) if isinstance(n, ast.Call) and A.call_name(n) == "os.read"
             and n.args and "interrupt_read" in ast.unparse(n.args[0])]
    cons = "self-pipe:reader"
    ctx.inst(cons, rule=rule, sample={"reads": [ast.unparse(r) for r in reads]})
    if len(reads) != 1 or len(reads[0].args) != 2:
        wake_fail(ctx, cons, hc.loc(), f"expected one os.read(self.interrupt_read, n) in _handle_connections, "
                 f"found {len(reads)}", rule=rule)
        return
    n_ = model.try_fold(reads[0].args[1], hc.module)
    if n_ == tok:
        return
    if not isinstance(n_, int) or n_ < tok or n_ % tok:
        wake_fail(ctx, cons, hc.loc(reads[0]), f"the reader takes {n_!r} bytes from the pipe, wake-ups are "
                 f"{tok} bytes: ids are split across reads", rule=rule)
        return
    # batched read: all tokens must be iterated, no early exit
    par = A.parents(hc.node)
    st = reads[0]
    while not isinstance(st, ast.stmt):
        st = par[st]
    buf = A.dotted(st.targets[0]) if isinstance(st, ast.Assign) and len(st.targets) == 1 else None
    loops = [l for l in ast.walk(hc.node) if isinstance(l, ast.For) and buf is not None
             and any(isinstance(x, ast.Name) and x.id == buf for x in ast.walk(l.iter))]
    if buf is None or not loops:
        wake_fail(ctx, cons, hc.loc(reads[0]), f"up to {n_ // tok} wake-ups are read at once but only one "
                 f"connection id is taken from them: the other connections' wake-ups are lost (a "
                 f"CLOSED/CLOSING connection signalled in the same batch is never torn down)", rule=rule)
        return
    lp = loops[0]
    step_ok = isinstance(lp.iter, ast.Call) and A.call_name(lp.iter) == "range" and len(lp.iter.args) == 3 \
        and model.try_fold(lp.iter.args[2], hc.module) == tok
    if not step_ok:
        wake_fail(ctx, cons + "#step", hc.loc(lp), f"the batched wake-ups are not walked in steps of {tok} "
                 f"bytes over the whole buffer", rule=rule)

    def exits(body, depth=0):
        for s_ in body:
            if isinstance(s_, (ast.Break, ast.Return)):
                yield s_
            if isinstance(s_, (ast.For, ast.While)):
                for x in exits(s_.orelse):
                    yield x
                for x in ast.walk(s_):
                    if isinstance(x, ast.Return):
                        yield x
                continue
            for fld in ("body", "orelse", "finalbody"):
                sub = getattr(s_, fld, None)
                if isinstance(sub, list) and sub and isinstance(sub[0], ast.stmt):
                    yield from exits(sub)
            if isinstance(s_, ast.Try):
                for h in s_.handlers:
                    yield from exits(h.body)
    ex = list(exits(lp.body))
    if ex:
        wake_fail(ctx, cons + "#early-exit", hc.loc(ex[0]), f"the loop over the batched wake-ups is left "
                 f"early (`{ast.unparse(ex[0])}`): the ids queued behind that position are dropped, "
                 f"e.g. the wake-up of a connection whose DPA has arrived is lost and it lingers "
                 f"until the wait timeout", rule=rule)


ROUTE_OWNERS = {"add_application", "add_peer", "__init__"}
_MUTATORS = {"append", "extend", "remove", "pop", "clear", "insert", "sort", "reverse", "update",
             "setdefault", "popitem", "__iadd__"}


def route_lists_not_aliased(ctx: Ctx, rule: str):
    """The peer lists stored in Node._peer_routes are modified only by the functions that own
    the table (add_application / add_peer).  Everywhere else a name bound to one of those lists
    (loop variable over the table, subscript of it) is read-only, and is not stored into a
    scratch container that is then modified in place (`d[k] = peers; d[k] += more` extends the
    route table itself)."""
    model = ctx.model
    nc = model.cls("node.node", "Node")
    ctx.rule(rule, "route-table peer lists are never mutated (directly or through an alias kept "
                   "in a scratch container) outside add_application/add_peer", floor=3)

    def mentions_tbl(e, tainted):
        for x in ast.walk(e):
            if isinstance(x, ast.Attribute) and x.attr == "_peer_routes":
                return True
            if isinstance(x, ast.Name) and x.id in tainted:
                return True
        return False

    def is_copy(e):
        if isinstance(e, ast.Call) and A.call_name(e) in ("list", "tuple", "set", "sorted", "copy.copy",
                                                           "copy", "deepcopy", "copy.deepcopy", "dict"):
            return True
        if isinstance(e, ast.Call) and isinstance(e.func, ast.Attribute) and e.func.attr == "copy":
            return True
        if isinstance(e, ast.Subscript) and isinstance(e.slice, ast.Slice):
            return True
        if isinstance(e, (ast.ListComp, ast.List, ast.BinOp, ast.GeneratorExp, ast.SetComp, ast.DictComp)):
            return True
        return False

    for f in nc.all_funcs:
        if f.name in ROUTE_OWNERS or "_peer_routes" not in ast.unparse(f.node):
            continue
        ctx.use(f)
        cons = f"{f.qualname}:route-lists-read-only"
        tainted: set[str] = set()
        holders: set[str] = set()
        changed = True
        while changed:
            changed = False
            for n in A.walk_no_nested(f.node):
                new = set()
                if isinstance(n, ast.For) and mentions_tbl(n.iter, tainted) and not is_copy(n.iter) \
                        or isinstance(n, ast.For) and isinstance(n.iter, ast.Call) and A.call_name(n.iter) == "list" \
                        and n.iter.args and mentions_tbl(n.iter.args[0], tainted):
                    new |= {y.id for y in ast.walk(n.target) if isinstance(y, ast.Name)}
                elif isinstance(n, ast.Assign) and not is_copy(n.value) and mentions_tbl(n.value, tainted) \
                        and isinstance(n.value, (ast.Name, ast.Subscript, ast.Attribute, ast.Call)):
                    for t in n.targets:
                        if isinstance(t, ast.Name):
                            new.add(t.id)
                        elif isinstance(t, ast.Subscript) and isinstance(t.value, ast.Name) \
                                and isinstance(n.value, ast.Name):
                            if t.value.id not in holders:
                                holders.add(t.value.id)
                                changed = True
                elif isinstance(n, ast.Call) and isinstance(n.func, ast.Attribute) \
                        and n.func.attr in ("setdefault", "append", "add") and isinstance(n.func.value, ast.Name) \
                        and n.args and isinstance(n.args[-1], ast.Name) and n.args[-1].id in tainted \
                        and n.func.value.id not in tainted:
                    if n.func.value.id not in holders:
                        holders.add(n.func.value.id)
                        changed = True
                if new - tainted:
                    tainted |= new
                    changed = True
        # loop variables that are scalars (app keys, peers) are harmless: only list/dict mutation
        # operations are looked for below
        ctx.inst(cons, rule=rule, sample={"bound_to_table": sorted(tainted), "alias_holders": sorted(holders)})
        for n in A.walk_no_nested(f.node):
            bad = None
            if isinstance(n, ast.AugAssign):
                t = n.target
                if isinstance(t, ast.Name) and t.id in tainted:
                    bad = n
                elif isinstance(t, ast.Subscript) and isinstance(t.value, ast.Name) \
                        and (t.value.id in holders or t.value.id in tainted):
                    bad = n
            elif isinstance(n, ast.Call) and isinstance(n.func, ast.Attribute) and n.func.attr in _MUTATORS:
                b = n.func.value
                if isinstance(b, ast.Name) and b.id in tainted:
                    bad = n
                elif isinstance(b, ast.Subscript) and isinstance(b.value, ast.Name) and b.value.id in holders:
                    bad = n
                elif isinstance(b, ast.Subscript) and mentions_tbl(b, set()) and n.func.attr != "setdefault":
                    bad = n
            elif isinstance(n, ast.Delete):
                for t in n.targets:
                    if isinstance(t, ast.Subscript) and isinstance(t.value, ast.Name) and t.value.id in tainted:
                        bad = n
            if bad is not None:
                ctx.fail(cons, f.loc(bad), f"`{ast.unparse(bad)[:80]}` in {f.qualname} modifies a peer "
                         f"list that belongs to Node._peer_routes (bound through "
                         f"{sorted(tainted | holders)}): the route table changes as a side effect - "
                         f"entries accumulate with every call and requests are routed to peers "
                         f"that were never configured for the application/realm", rule=rule)
                break


def every_state_has_a_deadline(ctx: Ctx, rule: str):
    """Every state in which a registered connection can stay has a timer in _check_timers that
    eventually closes it (or, for the ready state, probes it): a connection left in a state
    without any deadline - DISCONNECTING after DPR/DPA, CLOSING - whose peer silently vanishes
    keeps its socket, its two worker threads and its table entries for ever."""
    from .timers import TimerTable
    from ..atoms import AssumeTracker
    model = ctx.model
    peer_mod = model.module("node.peer")
    # PEER_CLOSING is left through the I/O loop's clean-close sites as soon as the pending output
    # has drained (C18-R3), PEER_CLOSED through its wake-up: neither needs a timer
    names = ["PEER_CONNECTING", "PEER_CONNECTED", "PEER_READY", "PEER_READY_WAITING_DWA",
             "PEER_DISCONNECTING"]
    ctx.rule(rule, "each state a connection can linger in is covered by a timer action of "
                   "_check_timers (close or watchdog)", floor=4)
    T = TimerTable(ctx)
    for nm in names:
        cons = f"_check_timers:deadline({nm})"
        val = model.fold_name(peer_mod, nm)
        assume = AssumeTracker(T.at, {f"{T.conn}.state": val, "self._stopping": False})
        reach = T.g.reach([T.g.entry], tracker=assume)
        acts = [k for n, k, c in T.actions if n in reach]
        ctx.inst(cons, rule=rule, sample={"state": nm, "actions": sorted(set(acts))})
        if nm == "PEER_CONNECTING":
            continue      # ends through the socket: connect succeeds or fails, both handled by the I/O loop
        if not acts:
            ctx.fail(cons, T.f.loc(), f"_check_timers does nothing for a connection in {nm}: if the peer "
                     f"vanishes without closing (no FIN/RST) after "
                     f"{'the DPR/DPA exchange' if nm == 'PEER_DISCONNECTING' else 'the connection entered this state'}, "
                     f"the connection stays registered for ever with its socket and both worker threads; "
                     f"Peer.connection keeps pointing at it, so the peer is never dialled again and "
                     f"answers for the reconnected peer are routed nowhere", rule=rule)


def socket_close_confined(ctx: Ctx, rule: str):
    """Sockets are closed by the thread that select()s on them.  close_connection_socket closes
    the socket object and resizes the tables the I/O loop builds its select lists from; called
    from a connection's reader thread it can hit the window between building those lists and
    entering select(): `ValueError: file descriptor cannot be a negative integer` is caught by
    nothing and ends the connection thread."""
    from .c14 import _contexts
    from ..effects import fault_effects_of
    model = ctx.model
    ctx.rule(rule, "close_connection_socket is called only in the node's own thread (or from the "
                   "user API while no I/O loop runs), never from a connection's reader/writer thread",
             floor=3)
    cx = _contexts(model, fault_effects_of(model))
    # tolerated when the I/O loop survives a descriptor that vanished under it: its select() call
    # sits in a try that catches ValueError and OSError and goes round the loop again
    nc_ = model.cls("node.node", "Node")
    hc_ = nc_.methods.get("_handle_connections")
    guarded_select = False
    if hc_ is not None:
        par_ = A.parents(hc_.node)
        for c_ in ast.walk(hc_.node):
            if isinstance(c_, ast.Call) and A.call_name(c_) == "select.select":
                x = c_
                while x in par_:
                    up = par_[x]
                    if isinstance(up, ast.Try) and any(x is b or x in list(ast.walk(b)) for b in up.body):
                        names = set()
                        for h in up.handlers:
                            if h.type is None:
                                names |= {"ValueError", "OSError"}
                            else:
                                for e_ in (h.type.elts if isinstance(h.type, ast.Tuple) else [h.type]):
                                    names.add(ast.unparse(e_))
                        if ({"ValueError", "OSError"} <= names or "Exception" in names
                                or {"ValueError", "socket.error"} <= names):
                            guarded_select = True
                    x = up
    for c in call_sites(model, "close_connection_socket"):
        ctxs = cx.get(id(c.func.node), {"api"})
        cons = f"{c.func.qualname}:close_connection_socket@thread"
        ctx.use(c.func)
        ctx.inst(cons, rule=rule, sample={"where": c.where, "contexts": sorted(ctxs)})
        foreign = ctxs & {"conn-reader", "conn-writer", "app-worker"}
        if foreign and not guarded_select:
            ctx.fail(cons, c.where, f"{c.func.qualname} calls close_connection_socket in thread "
                     f"context(s) {sorted(foreign)}: the socket is closed (fileno -1) while the node "
                     f"thread may be between building its select lists and select(), which then raises "
                     f"ValueError outside any handler and ends the connection thread - no peer is "
                     f"served or dialled any more", rule=rule)


def ready_check_atomic_with_send(ctx: Ctx, rule: str, api_method: str, route_method: str):
    """`Application.<api_method>` routes (the route function tests `state in PEER_READY_STATES`)
    and then queues the message with Node.send_message.  The state is changed by the connection's
    reader thread (DPR -> DISCONNECTING) and by the node thread; unless the test and the enqueue
    happen under a lock those transitions take as well, or send_message tests the state itself,
    a transition in between lets the message go out on a connection that is no longer ready."""
    from ..lockset import held_locks
    model = ctx.model
    app = model.cls("node.application", "Application")
    nc = model.cls("node.node", "Node")
    f = app.methods.get(api_method)
    sm = nc.methods.get("send_message")
    ctx.rule(rule, f"the ready test of {route_method} and the enqueue in send_message are atomic "
                   f"with respect to state changes of the connection", floor=1)
    cons = f"Application.{api_method}:ready-check-then-send"
    ctx.inst(cons, rule=rule)
    if f is None or sm is None:
        ctx.error(f"Application.{api_method} / Node.send_message not found", rule=rule)
        return
    ctx.use(f, sm)
    calls = {A.call_name(c).split(".")[-1]: c for c in ast.walk(f.node) if isinstance(c, ast.Call)}
    r_, s_ = calls.get(route_method), calls.get("send_message")
    if r_ is None or s_ is None:
        ctx.error(f"{api_method} does not call {route_method} and send_message", rule=rule)
        return
    common = set(held_locks(f, r_)) & set(held_locks(f, s_))
    retests = any(isinstance(x, ast.Attribute) and x.attr == "state" for x in ast.walk(sm.node))
    if not common and not retests:
        ctx.fail(cons, f.loc(s_), f"{api_method} tests readiness in {route_method} and queues the message "
                 f"in send_message without a lock around both, and send_message does not look at the "
                 f"connection's state: a DPR handled by the reader thread (or a close by the node "
                 f"thread) between the two lets the message be transmitted on a connection that is "
                 f"DISCONNECTING/closing instead of failing with NotRoutable", rule=rule)


def waiter_table_synchronised(ctx: Ctx, rule: str):
    """Application._answer_waiting is used by the sending (user) thread and by the reader thread
    that delivers the answer; lookup-then-fill and wait-then-remove are two-step operations."""
    from ..lockset import held_locks
    model = ctx.model
    app = model.cls("node.application", "Application")
    ctx.rule(rule, "every access to Application._answer_waiting happens under one lock", floor=1)
    cons = "Application._answer_waiting:unsynchronised"
    sites = []
    for fn in app.all_funcs:
        if fn.name == "__init__":
            continue
        for n in A.walk_no_nested(fn.node):
            if isinstance(n, ast.Attribute) and n.attr == "_answer_waiting" and A.dotted(n.value) == "self":
                sites.append((fn, n))
    common = None
    for fn, n in sites:
        h = set(held_locks(fn, n))
        common = h if common is None else (common & h)
    ctx.inst(cons, rule=rule, sample={"functions": sorted({f.qualname for f, _ in sites}),
                                      "common_lock": sorted(common or [])})
    if sites and not common:
        ctx.fail(cons, sites[0][0].loc(sites[0][1]), f"the waiter table is accessed by "
                 f"{sorted({f.qualname for f, _ in sites})} (sender thread, reader thread, stop()) without "
                 f"a common lock: an answer delivered after the sender's wait has timed out but before "
                 f"its `finally` removes the entry is stored in the abandoned slot - the sender raises "
                 f"TimeoutError and the answer reaches neither the sender nor handle_answer", rule=rule)


def io_loop_every_round(ctx: Ctx, rule: str, want=("timers", "reconnect")):
    """Every iteration of the I/O loop (Node._handle_connections) runs the timer pass over all
    connections and the reconnect scan, whatever select() returned: a round that handled socket
    events must not skip them (on a node under steady traffic every round has events, so a timer
    that only runs on idle rounds never fires).  The only tolerated gate is the node's own
    stopping flag."""
    from ..srcmodel import AnalysisError
    model = ctx.model
    nc = model.cls("node.node", "Node")
    hc = nc.methods.get("_handle_connections")
    if hc is None:
        raise AnalysisError("Node._handle_connections not found")
    ctx.use(hc)
    ctx.rule(rule, "every round of the I/O loop runs the due periodic work (timer pass over every "
                   "connection, reconnect scan), also rounds in which select() reported events",
             floor=len(want) + 1)
    g = cfg_of(hc)
    outer = [n for n in g.nodes if n.kind == "loop"]
    if not outer:
        raise AnalysisError("_handle_connections has no loop")
    head = min(outer, key=lambda n: getattr(n.ast, "lineno", 0))
    def only_stopping(e):
        attrs = {A.dotted(x) for x in ast.walk(e) if isinstance(x, ast.Attribute)}
        names = {x.id for x in ast.walk(e) if isinstance(x, ast.Name)}
        return attrs == {"self._stopping"} and names == {"self"}
    stop_tests = [n for n in g.nodes if n.kind == "test" and n.ast is not None and only_stopping(n.ast)]
    sel = [n for n in g.nodes if n.kind == "stmt" and any(
        A.call_name(c).endswith("select.select") or A.call_name(c) == "select" for c in n.calls())]
    starts = [d for l, d in head.succ]
    work = {}
    if "timers" in want:
        its = [n for n in g.nodes if n.kind == "iter" and "connections" in ast.unparse(n.ast.iter)
               and any(m.has_call("_check_timers") for m in
                       g.reach([d for l, d in n.succ if l == "iter"], blocked=[n]))]
        work["timers"] = (its, "the timer pass (`for conn in connections: _check_timers(conn)`)",
                          "time-outs of the capabilities exchange, the watchdog and the idle "
                          "clock never fire on a node whose select() rounds always carry events")
    if "reconnect" in want:
        rc = [n for n in g.nodes if n.kind == "stmt" and n.has_call("_reconnect_peers")]
        work["reconnect"] = (rc, "the reconnect scan (`self._reconnect_peers()`)",
                             "a lost persistent peer is not dialled again while other connections "
                             "keep the node busy")
    # the wait itself is bounded: select() is given a finite time-out on every path
    cons = "_handle_connections:select-timeout-bounded"
    ctx.inst(cons, rule=rule)
    for s_ in sel:
        for c in s_.calls():
            if not (A.call_name(c).endswith("select.select") or A.call_name(c) == "select"):
                continue
            to = c.args[3] if len(c.args) > 3 else next((k.value for k in c.keywords if k.arg == "timeout"), None)
            vals = [to]
            if isinstance(to, ast.Name):
                vals = [n.value for n in ast.walk(hc.node) if isinstance(n, ast.Assign)
                        and any(isinstance(t, ast.Name) and t.id == to.id for t in n.targets)]
                vals += [n.value for n in ast.walk(hc.node) if isinstance(n, ast.AnnAssign)
                         and isinstance(n.target, ast.Name) and n.target.id == to.id and n.value is not None]
            flat = []
            for v in vals:
                flat += [v.body, v.orelse] if isinstance(v, ast.IfExp) else [v]
            unbounded = [v for v in flat if v is None or (isinstance(v, ast.Constant) and v.value is None)]
            if to is None or unbounded or not flat:
                ctx.fail(cons, g.loc(s_), f"select() can be called without a time-out "
                         f"(`{ast.unparse(c)[:80]}`): the I/O thread then sleeps until a socket or the "
                         f"wake-up pipe has something to say - the reconnect wait of a lost peer, the "
                         f"capabilities-exchange deadlines and the watchdog are evaluated by this "
                         f"loop only and are not evaluated while it sleeps", rule=rule,
                         expected="a finite time-out (the wake-up interval) on every path",
                         observed="None / no time-out on some path")
    for k, (nodes, what, harm) in work.items():
        cons = f"_handle_connections:every-round({k})"
        ctx.inst(cons, rule=rule)
        if not nodes:
            ctx.fail(cons, hc.loc(), f"the I/O loop does not contain {what}", rule=rule)
            continue
        # only rounds that got as far as select() count (the stop branch returns before it)
        src = [d for s in sel for l, d in s.succ] or starts
        r = g.reach(src, blocked=list(nodes) + stop_tests)
        if head in r:
            ctx.fail(cons, g.loc(nodes[0]), f"an iteration of the I/O loop can return to select() "
                     f"without {what}: {harm}", rule=rule,
                     expected="every path select() -> next round passes through it",
                     observed="a path around it exists (early `continue` or a condition on what "
                              "select() returned)")


# ---------------------------------------------------------------------------------------------
# clocks
TIME_SOURCES = {"time.time": "wall", "time.time_ns": "wall", "datetime.datetime.now": "wall",
                "datetime.now": "wall", "datetime.datetime.utcnow": "wall", "datetime.utcnow": "wall",
                "time.monotonic": "monotonic", "time.monotonic_ns": "monotonic",
                "time.perf_counter": "perf", "time.perf_counter_ns": "perf",
                "time.process_time": "cpu", "time.thread_time": "cpu"}


def clock_sources(model, module, expr: ast.AST, cls=None, depth: int = 3) -> set[str]:
    """The time sources an expression reads: calls of time.time / time.monotonic / ... directly,
    through a module-level helper or a method / property of *cls* (followed to *depth*)."""
    out: set[str] = set()
    if expr is None or depth < 0:
        return out

    def returns_of(fi):
        r: set[str] = set()
        for x in A.walk_no_nested(fi.node):
            if isinstance(x, ast.Return) and x.value is not None:
                r |= clock_sources(model, fi.module, x.value, fi.cls, depth - 1)
        return r
    for n in ast.walk(expr):
        if isinstance(n, ast.Call):
            nm = A.call_name(n)
            if nm in TIME_SOURCES:
                out.add(TIME_SOURCES[nm] + ":" + nm.split("_ns")[0])
                continue
            if isinstance(n.func, ast.Name):
                b = module.lookup(n.func.id)
                if b is not None and b.kind == "func":
                    fi = b.module.funcs.get(b.node.name)
                    if fi is not None:
                        out |= returns_of(fi)
                elif b is not None and b.kind == "extattr" and f"{b.target}.{b.attr}" in TIME_SOURCES:
                    q = f"{b.target}.{b.attr}"
                    out.add(TIME_SOURCES[q] + ":" + q.split("_ns")[0])
            elif isinstance(n.func, ast.Attribute) and A.dotted(n.func.value) in ("self", "cls") and cls is not None:
                fi = model.find_method(cls, n.func.attr)
                if fi is not None:
                    out |= returns_of(fi)
        elif isinstance(n, ast.Attribute) and A.dotted(n.value) == "self" and cls is not None \
                and isinstance(n.ctx, ast.Load):
            fi = model.find_method(cls, n.attr)
            if fi is not None and fi.is_property:
                out |= returns_of(fi)
    return out


def clock_agreement(ctx: Ctx, rule: str, attrs: dict):
    """A deadline is `now - <stamp>`: the expression that reads the clock and every statement
    that stores the stamp must use the same time source (time.time() vs time.monotonic() differ
    by decades: a stamp taken from one and compared with the other never - or at once -
    expires).  *attrs*: {(class module, class name, attribute): [reader property names]}."""
    model = ctx.model
    ctx.rule(rule, "every time stamp is written and compared with one and the same clock", floor=len(attrs))
    node_pkg = [m for m in model.modules.values() if ".node" in m.name or m.name.endswith("node")]
    for (mod, cname, attr), readers in attrs.items():
        ci = model.cls(mod, cname)
        cons = f"{cname}.{attr}:one-clock"
        w: dict[str, set[str]] = {}
        for fi in model.all_funcs():
            if fi.module not in node_pkg:
                continue
            for x in A.walk_no_nested(fi.node):
                if isinstance(x, (ast.Assign, ast.AugAssign, ast.AnnAssign)) and x.value is not None and any(
                        isinstance(t, ast.Attribute) and t.attr == attr for t in A.store_targets(x)):
                    if isinstance(x.value, ast.Constant):
                        continue
                    own = fi.cls if any(A.dotted(t.value) == "self" for t in A.store_targets(x)
                                        if isinstance(t, ast.Attribute)) else None
                    src = clock_sources(model, fi.module, x.value, own or fi.cls)
                    w[f"{fi.qualname}:{getattr(x, 'lineno', 0)}"] = src
        r: dict[str, set[str]] = {}
        for rn in readers:
            fi = model.find_method(ci, rn)
            if fi is None:
                ctx.error(f"{cname}.{rn} not found", rule=rule)
                continue
            ctx.use(fi)
            # `now - self.<attr>`, or `v = self.<attr>` ... `now - v` (the stamp read once)
            local = {t.id for x in ast.walk(fi.node) if isinstance(x, ast.Assign)
                     and isinstance(x.value, ast.Attribute) and x.value.attr == attr
                     for t in x.targets if isinstance(t, ast.Name)}
            for x in ast.walk(fi.node):
                if isinstance(x, ast.BinOp) and isinstance(x.op, ast.Sub) and (
                        (isinstance(x.right, ast.Attribute) and x.right.attr == attr)
                        or (isinstance(x.right, ast.Name) and x.right.id in local)):
                    r[f"{fi.qualname}"] = clock_sources(model, fi.module, x.left, ci)
        ctx.inst(cons, rule=rule, sample={"writers": {k: sorted(v) for k, v in w.items()},
                                          "readers": {k: sorted(v) for k, v in r.items()}})
        allsrc = set().union(*w.values(), *r.values()) if (w or r) else set()
        empty = [k for k, v in list(w.items()) + list(r.items()) if not v]
        if not r:
            ctx.fail(cons, ci.loc(), f"no `now - self.{attr}` reader found among {readers}", rule=rule)
        elif not w:
            ctx.fail(cons, ci.loc(), f"`{attr}` is never stamped with a clock value", rule=rule)
        elif empty:
            ctx.fail(cons, ci.loc(), f"`{attr}`: {empty} do not read any clock", rule=rule)
        elif len(allsrc) != 1:
            ctx.fail(cons, ci.loc(), f"`{cname}.{attr}` is stamped and compared with different clocks: "
                     f"writers { {k: sorted(v) for k, v in w.items()} }, readers "
                     f"{ {k: sorted(v) for k, v in r.items()} } - the elapsed time computed from it is "
                     f"meaningless (hugely negative or hugely positive), its deadline never or "
                     f"immediately expires", rule=rule,
                     expected="one time source for stamp and comparison", observed=sorted(allsrc))


# ---------------------------------------------------------------------------------------------
# keys of the flat transaction tables
def key_shape(fn: ast.FunctionDef, e: ast.expr):
    """('str' | 'tuple', [last attribute name of every field]) of a table key expression, locals
    resolved through their single assignment; None when it is neither an f-string nor a tuple."""
    try:
        v = ast.parse(A.resolve_local_chain(fn, e), mode="eval").body
    except SyntaxError:
        return None
    if isinstance(v, ast.JoinedStr):
        return "str", [ast.unparse(x.value).split(".")[-1] for x in v.values
                       if isinstance(x, ast.FormattedValue)]
    if isinstance(v, ast.Tuple):
        return "tuple", [ast.unparse(x).split(".")[-1] for x in v.elts]
    return None


def key_fields_flat(fn: ast.FunctionDef, e: ast.expr):
    """Field list in the historical notation of the rules (['ident', ':', 'hop_by...', ...])
    for both key kinds."""
    ks = key_shape(fn, e)
    if ks is None:
        return None
    out = []
    for i, f_ in enumerate(ks[1]):
        if i:
            out.append(":")
        out.append(f_)
    return out


def transaction_table_keys(ctx: Ctx, rule: str, tables=("_app_waiting_answer", "_origin_waiting_answer")):
    """Writer, readers and the purge of each flat transaction table agree on the key: one kind
    (formatted string or tuple), the same fields in the same order at every site, and a purge
    predicate that fits that kind (str.startswith("<ident>:") / key[0] == ident).  A table whose
    writer builds tuples while remove_peer_connection calls .startswith on the keys makes every
    removal of a connection with an unanswered request raise AttributeError."""
    from ..srcmodel import AnalysisError
    model = ctx.model
    nc = model.cls("node.node", "Node")
    ctx.rule(rule, "flat transaction tables: every site builds the key the same way and the purge "
                   "on connection removal tests it in a way that fits its type", floor=len(tables))
    for T in tables:
        cons = f"{T}:key-agreement"
        sites = []   # (func, node, shape)
        purges = []  # (func, loop, keyvar)
        for fn_ in nc.all_funcs:
            if fn_.name == "__init__":
                continue
            for x in A.walk_no_nested(fn_.node):
                k = None
                if isinstance(x, ast.Subscript) and A.dotted(x.value) == f"self.{T}":
                    k = x.slice
                elif isinstance(x, ast.Compare) and len(x.ops) == 1 and isinstance(x.ops[0], (ast.In, ast.NotIn)) \
                        and A.dotted(x.comparators[0]) == f"self.{T}":
                    k = x.left
                elif isinstance(x, ast.Call) and isinstance(x.func, ast.Attribute) \
                        and x.func.attr in ("get", "pop", "setdefault") \
                        and A.dotted(x.func.value) == f"self.{T}" and x.args:
                    k = x.args[0]
                elif isinstance(x, (ast.For, ast.comprehension)) and f"self.{T}" in ast.unparse(x.iter) \
                        and isinstance(x.target, ast.Name):
                    purges.append((fn_, x, x.target.id))
                    continue
                if k is None:
                    continue
                if isinstance(k, ast.Name) and any(k.id == kv for f2, _, kv in purges if f2 is fn_):
                    continue   # the loop variable of a purge
                sites.append((fn_, x, key_shape(fn_.node, k)))
        ctx.inst(cons, rule=rule, sample={"sites": [f"{f_.name}:{getattr(x, 'lineno', 0)}={s}" for f_, x, s in sites][:8],
                                          "purges": [f_.name for f_, _, _ in purges]})
        if not sites:
            raise AnalysisError(f"no key site of Node.{T} found")
        # loop variables of purges are collected after some sites: filter again
        pv = {(id(f2.node), kv) for f2, _, kv in purges}
        sites = [(f_, x, s) for f_, x, s in sites
                 if not (s is None and isinstance(_key_of(x), ast.Name) and (id(f_.node), _key_of(x).id) in pv)]
        shapes = {(s[0], tuple(s[1])) if s else None for _, _, s in sites}
        if None in shapes:
            f_, x, _ = [t for t in sites if t[2] is None][0]
            ctx.fail(cons, f_.loc(x), f"a key of Node.{T} in {f_.qualname} is neither a formatted string "
                     f"nor a tuple of the transaction's identifiers", rule=rule)
            continue
        if len(shapes) != 1:
            ctx.fail(cons, sites[0][0].loc(sites[0][1]),
                     f"the sites of Node.{T} build its key differently: "
                     f"{sorted((f_.name, s) for f_, _, s in sites)} - what one site files another "
                     f"never finds", rule=rule)
            continue
        kind, fields = next(iter(shapes))
        if not purges:
            ctx.fail(cons + "#purge", nc.loc(), f"Node.{T} is never purged of the entries of a removed "
                     f"connection", rule=rule)
        from ..atoms import Atomizer, must_facts
        for fn_, loop, kv in purges:
            gq = cfg_of(fn_)
            atq = Atomizer(model, fn_.module, fn_.cls)
            inside = {id(x) for x in ast.walk(loop)}
            rem = [n for n in gq.nodes if n.kind == "stmt" and id(n.ast) in inside and (
                any(isinstance(c.func, ast.Attribute) and c.func.attr == "pop"
                    and A.dotted(c.func.value) == f"self.{T}" and c.args and A.dotted(c.args[0]) == kv
                    for c in n.calls())
                or any(isinstance(t, ast.Subscript) and A.dotted(t.value) == f"self.{T}"
                       and A.dotted(t.slice) == kv for t in n.deletes()))]
            ok = bool(rem)
            seen_facts = []
            for r_ in rem:
                facts = must_facts(gq, atq, r_)
                seen_facts = sorted(map(str, facts))[:4]
                fit = [fx for fx in facts if selects_own_entries(fx)
                       and ((kind == "str") == (".startswith(" in str(fx[0])))]
                if not fit:
                    ok = False
            if not ok:
                ctx.fail(cons + "#purge", fn_.loc(loop), f"the purge of Node.{T} in {fn_.qualname} does not "
                         f"test the keys in a way that fits their type ({kind} of {list(fields)}): it "
                         f"raises (AttributeError / TypeError escapes remove_peer_connection before "
                         f"the peer record is reset) or never matches", rule=rule,
                         expected="key.startswith(f'{conn.ident}:') for string keys, "
                                  "key[0] == conn.ident for tuple keys", observed=str(seen_facts)[:160])


def _key_of(x):
    if isinstance(x, ast.Subscript):
        return x.slice
    if isinstance(x, ast.Compare):
        return x.left
    if isinstance(x, ast.Call) and x.args:
        return x.args[0]
    return None


def selects_own_entries(fact) -> bool:
    """A must-fact that restricts a purge to the entries of one connection: the key's prefix /
    first element equals that connection's ident (string keys: key.startswith(f"{c.ident}:"),
    tuple keys: key[0] == c.ident)."""
    s_, op, v, t = fact
    s_, v = str(s_), str(v)
    if not t:
        return False
    if ".startswith(" in s_ and ".ident" in s_ and op == "truthy":
        return True
    if op.startswith("=="):
        return (s_.endswith(".ident") and v.endswith("[0]")) or (s_.endswith("[0]") and v.endswith(".ident"))
    return False


def realm_key_case(ctx: Ctx, rule: str):
    """Realm names are diameter identities (case-insensitive).  The route table is keyed by realm
    name; every site that files or looks up a realm uses the same case normalisation: all keys
    lower-cased, or none (then matching is case-sensitive on both sides, consistently).  A table
    filed with lower-cased keys and searched with the name as received answers 3003 / raises
    NotRoutable for every realm that is spelled with a capital letter."""
    from ..srcmodel import AnalysisError
    model = ctx.model
    nc = model.cls("node.node", "Node")
    ctx.rule(rule, "every key of the realm route table is case-normalised the same way at the "
                   "sites that file it and the sites that look it up", floor=4)
    sites = []
    for fn_ in nc.all_funcs:
        g = None
        for x in A.walk_no_nested(fn_.node):
            k = None
            if isinstance(x, ast.Subscript) and A.dotted(x.value) == "self._peer_routes":
                k = x.slice
            elif isinstance(x, ast.Compare) and len(x.ops) == 1 and isinstance(x.ops[0], (ast.In, ast.NotIn)) \
                    and A.dotted(x.comparators[0]) == "self._peer_routes":
                k = x.left
            elif isinstance(x, ast.Call) and isinstance(x.func, ast.Attribute) \
                    and x.func.attr in ("get", "pop", "setdefault") \
                    and A.dotted(x.func.value) == "self._peer_routes" and x.args:
                k = x.args[0]
            elif isinstance(x, ast.Dict) and fn_.name == "__init__":
                par = A.parents(fn_.node)
                p_ = par.get(x)
                if isinstance(p_, (ast.Assign, ast.AnnAssign)) and any(
                        A.dotted(t) == "self._peer_routes" for t in A.store_targets(p_)) and x.keys:
                    k = x.keys[0]
            if k is None:
                continue

            def lowered(e, depth=3):
                x_ = e
                while isinstance(x_, ast.Call) and isinstance(x_.func, ast.Attribute) \
                        and x_.func.attr in ("lower", "casefold", "decode", "strip"):
                    if x_.func.attr in ("lower", "casefold"):
                        return True         # folded before or after decoding
                    x_ = x_.func.value
                if isinstance(e, ast.Name) and depth > 0:
                    ds = [d.value for d in A.walk_no_nested(fn_.node) if isinstance(d, ast.Assign)
                          and any(isinstance(t, ast.Name) and t.id == e.id for t in d.targets)]
                    # `name = name.lower()` re-binding inside a loop over the raw names counts
                    return bool(ds) and any(lowered(d, depth - 1) for d in ds) and all(
                        lowered(d, depth - 1) or ast.unparse(d) == "self.realm_name" for d in ds)
                return False
            sites.append((fn_, x, lowered(k), ast.unparse(k)))
    if len(sites) < 4:
        raise AnalysisError(f"only {len(sites)} key sites of Node._peer_routes found")
    cons = "_peer_routes:realm-key-case"
    ctx.inst(cons, rule=rule, sample=[f"{f_.name}:{getattr(x, 'lineno', 0)} {'lower' if lo else 'raw'} {t}"
                                      for f_, x, lo, t in sites][:12])
    for f_, x, lo, t in sites:
        ctx.inst(f"{cons}@{f_.name}", rule=rule, nontrivial=False)
    # names RECEIVED from peers are bytes: folded as bytes (ASCII letters only) before they are
    # decoded - str.lower() on the decoded text also maps non-ASCII characters onto ASCII letters
    # (U+212A KELVIN SIGN onto "k"), so a name that is not ours would be taken for ours
    cons_f = "received-names:ascii-fold"
    ctx.inst(cons_f, rule=rule)
    for fn_ in nc.all_funcs:
        for x in A.walk_no_nested(fn_.node):
            if isinstance(x, ast.Call) and isinstance(x.func, ast.Attribute) and x.func.attr in ("lower", "casefold") \
                    and isinstance(x.func.value, ast.Call) and isinstance(x.func.value.func, ast.Attribute) \
                    and x.func.value.func.attr == "decode":
                src = ast.unparse(x.func.value.func.value)
                if any(k in src for k in ("origin_host", "destination_realm", "dest_realm", "origin_realm",
                                          "destination_host")):
                    ctx.fail(cons_f, fn_.loc(x), f"`{ast.unparse(x)[:80]}` lower-cases the DECODED name: "
                             f"str.lower() maps U+212A (KELVIN SIGN) to 'k' and other non-ASCII letters "
                             f"onto ASCII ones, so a received name that differs from a configured one "
                             f"only in such a character is matched (a request for a foreign realm is "
                             f"delivered, an unknown peer is accepted as a known one)", rule=rule,
                             expected="<bytes>.lower().decode(...)", observed=ast.unparse(x)[:60])
    # ... and decoded without dropping anything: errors="ignore" deletes the bytes that are not
    # text, so that b"exam\xffple.org" becomes the served "example.org"; strict decoding (caught)
    # and "replace" (U+FFFD is in no configured name) keep different names different
    cons_d = "received-names:lossless-decode"
    ctx.inst(cons_d, rule=rule)
    for fn_ in nc.all_funcs:
        for x in A.walk_no_nested(fn_.node):
            if isinstance(x, ast.Call) and isinstance(x.func, ast.Attribute) and x.func.attr == "decode":
                mode = next((k.value for k in x.keywords if k.arg == "errors"), x.args[1] if len(x.args) > 1 else None)
                mv = model.try_fold(mode, fn_.module, nc) if mode is not None else "strict"
                src = ast.unparse(x.func.value)
                if mv in ("ignore",) and any(k in src for k in (
                        "origin_host", "destination_realm", "dest_realm", "origin_realm", "destination_host")):
                    ctx.fail(cons_d, fn_.loc(x), f"`{ast.unparse(x)[:80]}` decodes a received name with "
                             f"errors=\"ignore\": bytes that are not valid text are deleted, so a name "
                             f"that is not served (b\"exam\\xffple.org\") collapses onto one that is - "
                             f"the request is delivered to an application instead of being answered "
                             f"3003 (an unknown peer is taken for a configured one)", rule=rule,
                             expected='strict (caught) or errors="replace"', observed='errors="ignore"')
    kinds = {lo for _, _, lo, _ in sites}
    if kinds == {False}:
        f0, x0 = sites[0][0], sites[0][1]
        ctx.fail(cons + "#insensitive", f0.loc(x0), "realm names are filed and looked up exactly as given: "
                 "Destination-Realm is a DiameterIdentity and compares case-insensitively "
                 "(rfc6733 5.6.4) - a request for REALM.A is answered 3003 by a node that serves "
                 "realm.a, and an application request for it cannot be routed", rule=rule,
                 expected="keys and looked-up names lower-cased (or case-folded)", observed="raw names")
    elif len(kinds) != 1:
        raw = [(f_.qualname, t) for f_, x, lo, t in sites if not lo]
        f0, x0 = [(f_, x) for f_, x, lo, t in sites if not lo][0]
        ctx.fail(cons, f0.loc(x0), f"the realm route table is keyed by lower-cased realm names at some "
                 f"sites and by the name as given at others ({raw[:4]}): a realm spelled with a capital "
                 f"letter (in the configuration or in a Destination-Realm) is filed under one key and "
                 f"looked up under another - its requests are answered 3003 / cannot be routed",
                 rule=rule, expected="one normalisation at every site", observed=str(raw[:4]))


def stat_counters_synchronised(ctx: Ctx, rule: str):
    """SecondSlotCounter objects are incremented on connection and application threads (every
    sent answer goes through add_count, after the answer has been queued) and read by the
    statistics thread: every access to the slot table is made under the counter's own lock.
    Unlocked, two threads pruning the same slot raise KeyError (after an answer has been queued:
    the request is answered again by the error handler unless it is guarded), and the statistics
    thread iterating the table while it is resized raises RuntimeError."""
    from ..srcmodel import AnalysisError
    model = ctx.model
    ci = model.cls("node._helpers", "SecondSlotCounter")
    ctx.rule(rule, "SecondSlotCounter: every access to the slot table holds the counter's lock",
             floor=3)
    init = ci.methods.get("__init__")
    locks = set()
    table = None
    for n in ast.walk(init.node) if init else []:
        if isinstance(n, (ast.Assign, ast.AnnAssign)) and n.value is not None:
            for t in A.store_targets(n):
                if isinstance(t, ast.Attribute) and A.dotted(t.value) == "self":
                    if isinstance(n.value, ast.Call) and A.call_name(n.value) in (
                            "threading.Lock", "threading.RLock", "Lock", "RLock"):
                        locks.add(t.attr)
                    elif isinstance(n.value, (ast.Dict, ast.Call)) and t.attr.startswith("_slots"):
                        table = t.attr
    if table is None:
        raise AnalysisError("SecondSlotCounter has no slot table")
    for f in ci.all_funcs:
        if f.name == "__init__":
            continue
        par = A.parents(f.node)
        acc = [n for n in A.walk_no_nested(f.node) if isinstance(n, ast.Attribute) and n.attr == table
               and A.dotted(n.value) == "self"]
        if not acc:
            continue
        cons = f"SecondSlotCounter.{f.name}:{table}-under-lock"
        ctx.inst(cons, rule=rule)
        for a in acc:
            x, held = a, False
            while x in par:
                x = par[x]
                if isinstance(x, ast.With) and any(
                        isinstance(i.context_expr, ast.Attribute) and i.context_expr.attr in locks
                        and A.dotted(i.context_expr.value) == "self" for i in x.items):
                    held = True
                    break
            if not held:
                ctx.fail(cons, f.loc(a), f"SecondSlotCounter.{f.name} touches self.{table} without holding "
                         f"the counter's lock{' (the class has none)' if not locks else ''}: counters are "
                         f"incremented from connection and application threads and read by the "
                         f"statistics thread - concurrent pruning raises KeyError in add_count (after "
                         f"an answer has been queued), iteration during a resize raises RuntimeError "
                         f"in the statistics thread", rule=rule)
                break


def close_is_thread_tolerant(ctx: Ctx, rule: str):
    """close_connection_socket / remove_peer_connection run on the node thread (peer hung up,
    write failure, timers) AND on connection threads (receive_cea rejecting, a handler closing):
    both can be in there for the same connection at the same moment.  The socket is therefore
    taken out of the table atomically before it is touched (one thread gets it), and the table
    removals tolerate an entry that is gone already - or everything happens under a lock.  A
    second setsockopt()/close() on the closed socket raises OSError(EBADF) and a check-then-delete
    raises KeyError, either of which ends the I/O thread when it is the one that loses."""
    from ..srcmodel import AnalysisError
    model = ctx.model
    nc = model.cls("node.node", "Node")
    cl = nc.methods.get("close_connection_socket")
    rm = nc.methods.get("remove_peer_connection")
    if cl is None or rm is None:
        raise AnalysisError("close_connection_socket / remove_peer_connection not found")
    ctx.use(cl, rm)
    ctx.rule(rule, "closing and removing a connection tolerate two threads doing it at once", floor=2)

    def locked(fn, node):
        par = A.parents(fn.node)
        x = node
        while x in par:
            x = par[x]
            if isinstance(x, ast.With) and any("lock" in ast.unparse(i.context_expr).lower() for i in x.items):
                return True
        return False
    cons = "close_connection_socket:socket-taken-once"
    ctx.inst(cons, rule=rule)
    conn = [a.arg for a in cl.node.args.args][1]
    sock_ops = [n for n in A.walk_no_nested(cl.node) if isinstance(n, ast.Call) and isinstance(n.func, ast.Attribute)
                and n.func.attr in ("setsockopt", "close", "shutdown") and isinstance(n.func.value, ast.Name)
                and n.func.value.id != conn]
    for op in sock_ops:
        var = op.func.value.id
        defs = [n.value for n in A.walk_no_nested(cl.node) if isinstance(n, ast.Assign)
                and any(isinstance(t, ast.Name) and t.id == var for t in n.targets)]
        atomic = defs and all(isinstance(d, ast.Call) and isinstance(d.func, ast.Attribute) and d.func.attr == "pop"
                              and A.dotted(d.func.value) == "self.peer_sockets" for d in defs)
        if not atomic and not locked(cl, op):
            ctx.fail(cons, cl.loc(op), f"`{ast.unparse(op)[:60]}` works on a socket that was looked up "
                     f"(`{ast.unparse(defs[0])[:50] if defs else '?'}`) but not taken out of the table: "
                     f"two threads closing the same connection both get it, and the second call on "
                     f"the closed socket raises OSError(EBADF) - uncaught in the I/O thread, which ends",
                     rule=rule, expected="socket = self.peer_sockets.pop(ident, None), or a lock around the close")
            break
    # once the socket has been taken out of the table nobody else will close it or remove the
    # connection: from there every path - exceptional ones included - reaches peer_socket.close()
    # and remove_peer_connection().  A call that can fail in between (getpeername() on a socket that
    # never connected or was reset: ENOTCONN) leaves the socket open, the connection in the other
    # tables and as Peer.connection, no disconnect record - and ends the I/O thread when it is the caller
    cons = "close_connection_socket:completes-once-socket-taken"
    ctx.inst(cons, rule=rule)
    from ..effects import fault_effects_of
    Fc = fault_effects_of(model)
    gcl = cfg_of(cl, effects=Fc, inline=False)
    takes = [n for n in gcl.nodes if n.kind == "stmt" and any(
        isinstance(c.func, ast.Attribute) and c.func.attr == "pop" and A.dotted(c.func.value) == "self.peer_sockets"
        for c in n.calls())]
    removes = [n for n in gcl.nodes if n.kind == "stmt" and any(
        A.call_name(c) == "self.remove_peer_connection" for c in n.calls())]
    if takes and removes:
        between = gcl.reach([d for l, d in takes[0].succ if l not in ("exc", "raise")], blocked=removes)
        for n in sorted(between, key=lambda x: x.line):
            if n.raises and any(d is gcl.raise_exit for l, d in n.succ if l in ("exc", "raise")):
                ctx.fail(cons, gcl.loc(n), f"`{n.text(70)}` can raise {sorted(n.raises)} after the socket has been "
                         f"taken out of peer_sockets and before remove_peer_connection(): the socket is never "
                         f"closed, the connection stays in `connections` and as Peer.connection without a "
                         f"disconnect record (a persistent peer is not dialled again), and the exception ends "
                         f"the I/O thread when close_connection_socket was called from it "
                         f"({'; '.join(Fc.why_at(cl, sorted(n.raises)[0], n.line))[:160]})", rule=rule,
                         expected="nothing escapes between peer_sockets.pop() and remove_peer_connection()")
                break
    elif not removes:
        ctx.error("close_connection_socket does not call remove_peer_connection", rule=rule)
    cons = "remove_peer_connection:tolerant-removals"
    ctx.inst(cons, rule=rule)
    for n in A.walk_no_nested(rm.node):
        if isinstance(n, ast.Delete) and any(isinstance(t, ast.Subscript) and A.dotted(t.value).startswith("self.")
                                             for t in n.targets) and not locked(rm, n):
            t = [t for t in n.targets if isinstance(t, ast.Subscript)][0]
            ctx.fail(cons, rm.loc(n), f"`{ast.unparse(n)}` in remove_peer_connection is a check-then-delete "
                     f"that is not atomic: when two threads remove the same connection the second "
                     f"`del` raises KeyError (uncaught in the I/O thread, which ends)", rule=rule,
                     expected=f"{A.dotted(t.value)}.pop(key, None), or a lock around the removal")
            break


def routed_record_rechecked(ctx: Ctx, rule: str):
    """route_request files the record request -> application AFTER it has chosen the connection;
    remove_peer_connection sweeps the table of a removed connection's records exactly once.  A
    connection removed in between leaves a record that nothing will ever delete, unless
    route_request looks again after filing (the removal deletes from `connections` before it
    sweeps) and takes the record back - or filing and sweeping share a lock."""
    from ..atoms import Atomizer, must_facts
    from ..srcmodel import AnalysisError
    model = ctx.model
    nc = model.cls("node.node", "Node")
    f = nc.methods.get("route_request")
    if f is None:
        raise AnalysisError("Node.route_request not found")
    ctx.use(f)
    ctx.rule(rule, "the record filed by route_request cannot outlive a connection removed while the "
                   "request was being routed", floor=1)
    g = cfg_of(f)
    at = Atomizer(model, f.module, nc)
    stores = [n for n in g.nodes if n.kind == "stmt" and isinstance(n.ast, ast.Assign) and any(
        isinstance(t, ast.Subscript) and A.dotted(t.value) == "self._app_waiting_answer" for t in n.ast.targets)]
    cons = "route_request:record-rechecked"
    ctx.inst(cons, rule=rule)
    if not stores:
        raise AnalysisError("route_request does not file into _app_waiting_answer")
    st = stores[0]
    locked = any(isinstance(w, ast.With) and any("lock" in ast.unparse(i.context_expr).lower() for i in w.items)
                 for w in st.lexical)
    after = g.reach([d for l, d in st.succ if l not in ("exc", "raise")])
    key = A.dotted([t for t in st.ast.targets if isinstance(t, ast.Subscript)][0].slice)
    takes_back = [n for n in after if n.kind == "stmt" and any(
        isinstance(c.func, ast.Attribute) and c.func.attr == "pop" and A.dotted(c.func.value) == "self._app_waiting_answer"
        and c.args and A.dotted(c.args[0]) == key for c in n.calls())
        and any(f_[1] == "in-expr" and f_[2] == "self.connections" and f_[3] is False
                for f_ in must_facts(g, at, n))]
    if not takes_back and not locked:
        ctx.fail(cons, g.loc(st), f"`{st.text(70)}` files the record after the connection was chosen and "
                 f"never looks again: when the connection is removed in between, the sweep of "
                 f"remove_peer_connection has already run and the record stays in "
                 f"_app_waiting_answer for ever (one per such connection loss)", rule=rule,
                 expected="after filing: `if conn.ident not in self.connections: pop the record, raise "
                          "NotRoutable` (or one lock for filing and sweeping)")
    # the other half of that protocol: the removal takes the connection out of `connections`
    # BEFORE it sweeps the transaction tables (a router that finds the connection still
    # registered after filing may rely on the sweep coming)
    rem = nc.methods.get("remove_peer_connection")
    if rem is None:
        raise AnalysisError("Node.remove_peer_connection not found")
    ctx.use(rem)
    cons = "remove_peer_connection:unregister-before-sweep"
    ctx.inst(cons, rule=rule)
    if takes_back and not locked:
        gr = cfg_of(rem)
        unreg = [n for n in gr.nodes if n.kind == "stmt" and (any(
            isinstance(c.func, ast.Attribute) and c.func.attr == "pop" and A.dotted(c.func.value) == "self.connections"
            for c in n.calls()) or any(isinstance(t, ast.Subscript) and A.dotted(t.value) == "self.connections"
                                        for t in n.deletes()))]
        sweeps = [n for n in gr.nodes if n.kind in ("stmt", "iter") and n.ast is not None and any(
            isinstance(x, ast.Attribute) and x.attr == "_app_waiting_answer" for x in
            (ast.walk(n.ast.iter) if n.kind == "iter" else ast.walk(n.ast)))]
        if not unreg:
            ctx.fail(cons, rem.loc(), "remove_peer_connection never takes the connection out of "
                     "`connections`", rule=rule)
        # (a removal without any sweep of the table is reported by the pairing rule of C19-G1)
        late = [sw for sw in sweeps if unreg and not gr.dominated(sw, unreg)]
        if late:
            ctx.fail(cons, gr.loc(late[0]), f"remove_peer_connection reads/sweeps _app_waiting_answer "
                     f"(`{late[0].text(60)}`) on a path on which the connection is still in "
                     f"`connections`: route_request, which files its record and then checks "
                     f"`conn.ident in self.connections`, can file after the sweep and still find the "
                     f"connection registered - the record is never removed", rule=rule,
                     expected="connections.pop(...) before the first look at the table",
                     observed="sweep first, unregistration later")


def wakeup_pipe_cannot_block(ctx: Ctx, rule: str):
    """The node's I/O thread is the only reader of the wake-up pipe, and it writes to it as well
    (demand_attention when it dials a peer, close() after a failed write).  A blocking write on a
    full pipe (every queued message of every connection adds a token) therefore deadlocks the
    node for good.  Either the write end is non-blocking and the writer tolerates a full pipe,
    or nothing reachable from the I/O thread writes to the pipe."""
    from ..srcmodel import AnalysisError
    from ..effects import effects_of
    model = ctx.model
    nc = model.cls("node.node", "Node")
    pc = model.cls("node.peer", "PeerConnection")
    da = pc.methods.get("demand_attention")
    hc = nc.methods.get("_handle_connections")
    init = nc.methods.get("__init__")
    if da is None or hc is None or init is None:
        raise AnalysisError("demand_attention / _handle_connections / Node.__init__ not found")
    ctx.use(da, hc)
    ctx.rule(rule, "the I/O thread cannot block on its own wake-up pipe", floor=1)
    cons = "self-pipe:writer-cannot-block"
    E = effects_of(model)
    reach = E.reachable_funcs([hc])
    io_writes = any(g_ is da for g_ in reach)
    nonblock = any(isinstance(n, ast.Call) and A.call_name(n) in ("os.set_blocking",) and len(n.args) == 2
                   and isinstance(n.args[1], ast.Constant) and n.args[1].value is False
                   for n in ast.walk(init.node)) or \
        any(isinstance(n, ast.Call) and A.call_name(n) in ("os.pipe2",) and "O_NONBLOCK" in ast.unparse(n)
            for n in ast.walk(init.node))
    tolerant = False
    for t in ast.walk(da.node):
        if isinstance(t, ast.Try) and any(isinstance(c, ast.Call) and A.call_name(c) == "os.write" for b in t.body
                                          for c in ast.walk(b)):
            tolerant = any(h.type is None or any(k in ast.unparse(h.type) for k in
                                                 ("BlockingIOError", "OSError", "Exception")) for h in t.handlers)
    ctx.inst(cons, rule=rule, sample={"io_thread_reaches_writer": io_writes, "write_end_non_blocking": nonblock,
                                      "writer_tolerates_full_pipe": tolerant})
    # a writer that gives up on a full pipe loses that wake-up: what only a wake-up closes (a
    # PEER_CLOSED connection, a drained PEER_CLOSING one) must then be closed by the loop itself
    from ..atoms import Atomizer, must_facts
    gl = cfg_of(hc)
    atl = Atomizer(model, hc.module, nc)
    CLOSED = model.fold_name(model.module("node.peer"), "PEER_CLOSED")
    backstop = False
    for n in gl.nodes:
        for c in n.calls():
            if A.call_name(c) == "self.close_connection_socket" and c.args:
                cv = A.dotted(c.args[0])
                fx = must_facts(gl, atl, n)
                if (f"{cv}.state", "==", CLOSED, True) in fx and not any(
                        "interrupt_read" in str(f_[0]) + str(f_[2]) for f_ in fx):
                    backstop = True
    cons_b = "self-pipe:lost-wake-up-backstop"
    ctx.inst(cons_b, rule=rule, sample={"writer_drops_on_full_pipe": tolerant, "per_round_close_of_CLOSED": backstop})
    if tolerant and nonblock and not backstop:
        ctx.fail(cons_b, hc.loc(), "demand_attention drops its token when the wake-up pipe is full, and the "
                 "I/O loop closes a PEER_CLOSED connection (a drained PEER_CLOSING one) only when it "
                 "reads that connection's own token: a connection closed while the node is far behind "
                 "with its wake-ups stays open and registered for ever", rule=rule,
                 expected="a close of CLOSED / drained CLOSING connections in every round of the loop")
    if io_writes and not (nonblock and tolerant):
        ctx.fail(cons, da.loc(), "PeerConnection.demand_attention is reachable from the I/O thread "
                 "(_connect_to_peer on every re-dial, conn.close() after a failed write) and writes to "
                 "the wake-up pipe with a blocking os.write: once the pipe is full (one token per "
                 "queued message, one token taken per round) the I/O thread blocks on a pipe only it "
                 "reads - nothing is read, written, accepted, timed out or dialled any more",
                 rule=rule, expected="os.set_blocking(write_end, False) and BlockingIOError tolerated "
                                     "by the writer", observed=f"non-blocking={nonblock}, tolerant={tolerant}")


def ready_substate_transitions_atomic(ctx: Ctx, rule: str):
    """PeerConnection.state is written from several thread contexts (the node loop's timers send
    the DWR, the connection's reader handles DWA / DPR / DPA, stop() sends DPRs).  A method that
    tests the state and then stores a ready sub-state must do both in one atomic step (a lock
    shared with the other writers): otherwise a DPR handled between the test and the store is
    overwritten, and the connection is offered for routing - and accepts application answers -
    after its DPA."""
    from ..effects import fault_effects_of
    from ..srcmodel import AnalysisError
    from ..atoms import Atomizer, must_facts
    from .c14 import _contexts
    model = ctx.model
    pc = model.cls("node.peer", "PeerConnection")
    peer_mod = model.module("node.peer")
    READY = frozenset(model.fold_name(peer_mod, "PEER_READY_STATES"))
    ctx.rule(rule, "a method of PeerConnection that tests the state and then stores a ready sub-state "
                   "does so atomically with respect to the other threads that write the state", floor=2)
    cx = _contexts(model, fault_effects_of(model))
    # thread contexts in which <x>.state is stored anywhere in the node package
    writers: dict[str, set[str]] = {}
    for f in model.all_funcs():
        if ".node" not in f.module.name or f.name == "__init__":
            continue
        for n in A.walk_no_nested(f.node):
            if isinstance(n, ast.Assign) and any(isinstance(t, ast.Attribute) and t.attr == "state" for t in n.targets):
                writers.setdefault(f.qualname, set()).update(cx.get(id(f.node), set()))
    for m in pc.all_funcs:
        if m.name == "__init__":
            continue
        g = cfg_of(m)
        at = Atomizer(model, m.module, pc)
        for n in g.nodes:
            if n.kind != "stmt" or not isinstance(n.ast, ast.Assign) \
                    or not any(A.dotted(t) == "self.state" for t in n.ast.targets):
                continue
            v = model.try_fold(n.ast.value, m.module, pc)
            if v not in READY:
                continue
            fx = must_facts(g, at, n)
            tested = any(f_[0] == "self.state" for f_ in fx)
            if not tested:
                continue
            cons = f"PeerConnection.{m.name}:state-check-then-set"
            own = cx.get(id(m.node), set())
            others = {q: c - own for q, c in writers.items() if q != m.qualname and (c - own)}
            locked = any(isinstance(w, ast.With) and any("lock" in ast.unparse(i.context_expr).lower()
                                                         for i in w.items) for w in n.lexical)
            ctx.inst(cons, rule=rule, sample={"runs_in": sorted(own), "other_writers": {q: sorted(c) for q, c in list(others.items())[:4]}})
            if others and not locked:
                q0 = sorted(others)[0]
                ctx.fail(cons, g.loc(n), f"PeerConnection.{m.name} (thread contexts {sorted(own)}) tests "
                         f"self.state and then stores `{ast.unparse(n.ast.value)}` without a lock, while "
                         f"{q0} stores the state in {sorted(others[q0])}: a DPR (or a stop()) handled "
                         f"between the test and the store is overwritten - the connection is ready again "
                         f"after its DPA, is offered for routing and accepts application answers",
                         rule=rule, expected="one lock around test and store, shared by every writer of the state")


def received_records_rechecked(ctx: Ctx, rule: str):
    """The receiving side of routed_record_rechecked: _receive_message files the origin record and
    _receive_app_request the pending record of a request on the connection's reader thread, after
    the connection's state was looked at; the node thread may have removed the connection - and
    swept both tables - in between.  Nothing sweeps again, so unless the filer looks again after
    filing the records stay for the life of the node."""
    from ..atoms import Atomizer, must_facts
    model = ctx.model
    nc = model.cls("node.node", "Node")
    ctx.rule(rule, "records filed for a received request cannot outlive a connection removed while the "
                   "request was being handled", floor=2)
    for fname, table in (("_receive_message", "_origin_waiting_answer"), ("_receive_app_request", "_peer_waiting_answer")):
        f = nc.methods.get(fname)
        cons = f"{fname}:record-rechecked({table})"
        ctx.inst(cons, rule=rule)
        if f is None:
            ctx.error(f"Node.{fname} not found", rule=rule)
            continue
        ctx.use(f)
        g = cfg_of(f)
        at = Atomizer(model, f.module, nc)
        conn = [a.arg for a in f.node.args.args][1]
        files = [n for n in g.nodes if n.kind == "stmt" and isinstance(n.ast, ast.Assign) and any(
            isinstance(t, ast.Subscript) and table in ast.unparse(t.value) or
            (isinstance(t, ast.Subscript) and isinstance(t.value, ast.Name) and table in
             A.resolve_local_chain(f.node, t.value)) for t in n.ast.targets)]
        if not files:
            continue
        st = files[-1]
        after = g.reach([d for l, d in st.succ if l not in ("exc", "raise")])
        rechecks = [n for n in after if n.kind == "test" and n.ast is not None
                    and f"{conn}.ident" in n.text(200) and "self.connections" in n.text(200)]
        locked = any(isinstance(w, ast.With) and any("lock" in ast.unparse(i.context_expr).lower() for i in w.items)
                     for w in st.lexical)
        if not rechecks and not locked:
            ctx.fail(cons, g.loc(st), f"`{st.text(70)}` files the record on the connection's reader thread and "
                     f"never looks again: a connection removed by the node thread between the state check "
                     f"of the dispatcher and this statement has been swept already, and the record stays "
                     f"in Node.{table} for the life of the node", rule=rule,
                     expected="after filing: `if conn.ident not in self.connections:` take the record back")


# ---------------------------------------------------------------------------------------------
# names
def worker_roots(model) -> dict[str, list]:
    """The entry points of the node's own threads."""
    def fn(mod, q):
        try:
            return [model.func(mod, q)]
        except Exception:
            return []
    return {
        "node-loop": fn("node.node", "Node._handle_connections"),
        "stats": fn("node.node", "Node._collect_stats"),
        "conn-reader": fn("node.peer", "PeerConnection.work_read_queue"),
        "conn-writer": fn("node.peer", "PeerConnection.work_write_queue"),
        "app-worker": fn("node.application", "ThreadingApplication._wait_for_recv_msg")
        + fn("node.application", "ThreadingApplication._wait_for_resp_msg")
        + fn("node.application", "ThreadingApplication._process_recv_msg"),
    }


def names_resolve(ctx: Ctx, rule: str, extra_roots=(), contexts=("node-loop", "conn-reader", "conn-writer")):
    """Every global name read by the code the node's worker threads run (and by the given anchored
    functions) is bound in its module: defined, imported, or exported by the `__all__` of the module
    a star import takes it from.  A name that resolves to nothing is a NameError at the first
    execution of that statement - on the I/O thread that ends the node's service for good (no
    timer, accept, read, write, close or reconnect after it), on a connection's reader it ends the
    delivery for that connection.  Nothing at import time shows it."""
    from ..effects import effects_of
    from ..names import unresolved_names
    from ..srcmodel import AnalysisError
    model = ctx.model
    F = effects_of(model)
    roots = worker_roots(model)
    if not roots["node-loop"] or not roots["conn-reader"]:
        raise AnalysisError("worker thread entry points not found")
    seen = {}
    for cname in contexts:
        for f in F.reachable_funcs(roots[cname]):
            seen.setdefault(id(f.node), (f, cname))
    for f in F.reachable_funcs(list(extra_roots)):
        seen.setdefault(id(f.node), (f, "anchor"))
    ctx.rule(rule, "every global name read on the node's worker threads and in the anchored "
                   "functions resolves in its module (star imports honour the exporter's __all__)",
             floor=40)
    for f, cname in seen.values():
        ctx.use(f)
        cons = f"{f.qualname}:names"
        ctx.inst(cons, rule=rule)
        bad = unresolved_names(f)
        for nm, node in bad:
            ctx.fail(f"{f.qualname}:name({nm})", f.loc(node),
                     f"`{nm}` resolves to nothing in {f.module.name} (not defined, not imported, "
                     f"not in the `__all__` of a star-imported module): NameError when this "
                     f"statement runs on the {cname} path - the thread ends there", rule=rule,
                     expected="a binding for the name in the module namespace",
                     observed="none (symtable: implicit global; module lookup: no binding)")


# ---------------------------------------------------------------------------------------------
# the received bytes
def _buf_kind(model, f, e: ast.expr, depth: int = 4, _seen=None) -> str:
    """bytes | mutable | unknown - the kind of buffer object an expression denotes."""
    _seen = _seen or set()
    if e is None or depth < 0:
        return "unknown"
    if isinstance(e, ast.Constant):
        return "bytes" if isinstance(e.value, bytes) else "unknown"
    if isinstance(e, ast.Call):
        nm = A.call_name(e)
        last = nm.split(".")[-1]
        if last in ("bytearray", "memoryview") or last in ("getbuffer", "cast", "toreadonly"):
            return "mutable"
        if last in ("recv", "read", "sctp_recv", "recvmsg") or nm in ("bytes", "os.read", "b''.join") \
                or last in ("tobytes", "getvalue", "get_buffer", "as_bytes", "join", "encode"):
            return "bytes"
        return "unknown"
    if isinstance(e, ast.Subscript):
        return _buf_kind(model, f, e.value, depth, _seen)
    if isinstance(e, ast.BinOp) and isinstance(e.op, ast.Add):
        return _buf_kind(model, f, e.left, depth - 1, _seen)
    if isinstance(e, ast.IfExp):
        ks = {_buf_kind(model, f, x, depth - 1, _seen) for x in (e.body, e.orelse)}
        return "mutable" if "mutable" in ks else ks.pop() if len(ks) == 1 else "unknown"
    if isinstance(e, ast.Name):
        key = ("n", id(f.node), e.id)
        if key in _seen:
            return "bytes"     # a self-reference (x = x[n:]) keeps the kind the other definitions give
        _seen = _seen | {key}
        kinds = set()
        for n in ast.walk(f.node):
            if isinstance(n, ast.Assign) and any(isinstance(t, ast.Name) and t.id == e.id for t in n.targets):
                kinds.add(_buf_kind(model, f, n.value, depth - 1, _seen))
            elif isinstance(n, ast.AnnAssign) and isinstance(n.target, ast.Name) and n.target.id == e.id \
                    and n.value is not None:
                kinds.add(_buf_kind(model, f, n.value, depth - 1, _seen))
            elif isinstance(n, ast.NamedExpr) and n.target.id == e.id:
                kinds.add(_buf_kind(model, f, n.value, depth - 1, _seen))
        if e.id in {a.arg for a in f.node.args.args} and not kinds:
            return "param"
        return "mutable" if "mutable" in kinds else "bytes" if kinds == {"bytes"} else "unknown"
    if isinstance(e, ast.Attribute) and A.dotted(e.value) == "self" and f.cls is not None:
        key = ("a", f.cls.name, e.attr)
        if key in _seen:
            return "bytes"
        _seen = _seen | {key}
        kinds = set()
        for c in model.mro(f.cls):
            for m in c.all_funcs:
                for n in ast.walk(m.node):
                    tv = None
                    if isinstance(n, ast.Assign) and any(A.dotted(t) == f"self.{e.attr}" for t in n.targets):
                        tv = n.value
                    elif isinstance(n, ast.AnnAssign) and A.dotted(n.target) == f"self.{e.attr}":
                        tv = n.value
                    if tv is not None:
                        kinds.add(_buf_kind(model, m, tv, depth - 1, _seen))
        return "mutable" if "mutable" in kinds else "bytes" if kinds == {"bytes"} else "unknown"
    return "unknown"


def received_chunks_are_immutable_bytes(ctx: Ctx, rule: str):
    """What travels from the socket to the decoder is an immutable `bytes` object at every step:
    the value of `recv()` handed to add_in_bytes, the connection's read buffer, the slices given to
    MessageHeader.from_bytes / Message.from_bytes.  The decoder keeps slices of its input as AVP
    payloads (an OctetString value *is* that slice) and the chunk waits in a queue for another
    thread: a bytearray makes every decoded OctetString a bytearray (which the encoder refuses), a
    memoryview of a reused receive buffer is overwritten by the next read before the reader thread
    has copied it."""
    from ..srcmodel import AnalysisError
    model = ctx.model
    nc = model.cls("node.node", "Node")
    pc = model.cls("node.peer", "PeerConnection")
    hc, rq, ab = nc.methods.get("_handle_connections"), pc.methods.get("work_read_queue"), pc.methods.get("add_in_bytes")
    if hc is None or rq is None or ab is None:
        raise AnalysisError("receive path not found")
    ctx.use(hc, rq, ab)
    ctx.rule(rule, "the received bytes are immutable `bytes` objects from recv() to the decoder",
             floor=4)
    sites = []
    for n in ast.walk(hc.node):
        if isinstance(n, ast.Call) and A.call_name(n).endswith(".add_in_bytes") and n.args:
            sites.append((hc, n, n.args[0], "the chunk handed to add_in_bytes"))
    for n in ast.walk(ab.node):
        if isinstance(n, ast.Call) and A.call_name(n).endswith(".put") and n.args:
            sites.append((ab, n, n.args[0], "the chunk queued for the reader thread"))
    for n in ast.walk(rq.node):
        if isinstance(n, ast.Call) and A.call_name(n).endswith(".from_bytes") and n.args:
            sites.append((rq, n, n.args[0], f"the argument of {A.call_name(n)}"))
    if len(sites) < 4:
        raise AnalysisError(f"receive path: only {len(sites)} sites found")
    for f, call, arg, what in sites:
        cons = f"{f.qualname}:{A.call_name(call).split('.')[-1]}({ast.unparse(arg)[:40]})"
        k = _buf_kind(model, f, arg)
        ctx.inst(cons, rule=rule, sample=k)
        if k == "mutable":
            ctx.fail(cons, f.loc(call), f"{what} (`{ast.unparse(arg)[:60]}`) is a mutable buffer "
                     f"(bytearray / memoryview), not `bytes`: the decoder keeps slices of it as AVP "
                     f"payloads - OctetString values come out as bytearray and cannot be encoded "
                     f"again, and a view of a reused buffer changes under the reader thread",
                     rule=rule, expected="bytes at every step from recv() to from_bytes()",
                     observed="bytearray / memoryview")


# ---------------------------------------------------------------------------------------------
# from the node to the request handler
def application_delivery_chain(ctx: Ctx, rule: str):
    """A request the node hands to an application (`app.receive_request(message)`) reaches that
    application's `handle_request` on every non-faulting path: receive_request of every
    application class either calls handle_request or queues the message, the queue's consumer
    either starts the handler thread or answers the request itself, the handler thread calls
    handle_request.  A path that returns earlier (a filter on what the message looks like, on
    what other requests are in progress) is a request that is neither handled nor answered."""
    from ..srcmodel import AnalysisError
    model = ctx.model
    app = model.cls("node.application", "Application")
    ctx.rule(rule, "every request handed to an application reaches its handle_request (or is "
                   "answered by the application machinery): no silent early exit on the way", floor=6)
    classes = [app] + model.subclasses(app)

    def must_pass(f, starts_pred, goal_pred, what, cons, via_loop=False):
        ctx.use(f)
        ctx.inst(cons, rule=rule)
        g = cfg_of(f, inline=False)
        goals = [n for n in g.nodes if n.kind in ("stmt", "test") and goal_pred(n)]
        if not goals:
            ctx.fail(cons, f.loc(), f"{f.qualname} never {what}", rule=rule)
            return
        if starts_pred is None:
            starts = [d for l, d in g.entry.succ]
            stops = [g.exit]
        else:
            src = [n for n in g.nodes if n.kind == "stmt" and starts_pred(n)]
            if not src:
                raise AnalysisError(f"{f.qualname}: the statement that takes the message was not found")
            starts = [d for s in src for l, d in s.succ if l != "exc"]
            stops = [g.exit] + [n for n in g.nodes if n.kind == "loop"]
        r = g.reach(starts, blocked=goals, skip_labels=("exc",))
        hit = [s for s in stops if s in r]
        if hit:
            early = [n for n in r if n.kind == "stmt" and isinstance(n.ast, (ast.Return, ast.Continue))]
            ctx.fail(cons, g.loc(early[0]) if early else f.loc(),
                     f"a path through {f.qualname} ends without having {what.replace('calls', 'called').replace('queues', 'queued').replace('starts', 'started')}: "
                     f"the request is dropped there - the application never sees it and nobody "
                     f"answers it", rule=rule,
                     expected=f"every non-faulting path {what}", observed="a path around it")

    n_recv = 0
    for ci in classes:
        rr = ci.methods.get("receive_request")
        if rr is None:
            continue
        n_recv += 1
        must_pass(rr, None,
                  lambda n: n.has_call(lambda nm, c: nm in ("self.handle_request",) or nm.endswith("_queue.put")
                                       or nm.endswith("_queue.put_nowait")),
                  "calls handle_request / queues the message",
                  f"{ci.name}.receive_request:delivers")
    if n_recv < 2:
        raise AnalysisError(f"only {n_recv} receive_request implementations found")
    ta = model.cls("node.application", "ThreadingApplication")
    w, p = ta.methods.get("_wait_for_recv_msg"), ta.methods.get("_process_recv_msg")
    if w is None or p is None:
        raise AnalysisError("ThreadingApplication worker functions not found")
    must_pass(w, lambda n: n.has_call(lambda nm, c: nm.endswith("_recv_msg_queue.get")),
              lambda n: n.has_call(lambda nm, c: nm.endswith(".start") or nm.endswith("send_answer")),
              "starts the handler thread / answers the request",
              "ThreadingApplication._wait_for_recv_msg:delivers")
    must_pass(p, None, lambda n: n.has_call("self.handle_request") or n.has_call(
        lambda nm, c: nm == "self.handle_request"),
              "calls handle_request", "ThreadingApplication._process_recv_msg:delivers")
    # "5012 when handling fails": whatever ends the handler - also what is not an `Exception`
    # (SystemExit, asyncio.CancelledError) - the handler thread builds the error answer
    cons = "ThreadingApplication._process_recv_msg:handler#base-exception"
    ctx.inst(cons, rule=rule)
    par = A.parents(p.node)
    for c in A.walk_no_nested(p.node):
        if isinstance(c, ast.Call) and A.call_name(c) == "self.handle_request":
            cur, ok = c, False
            while cur in par:
                up = par[cur]
                if isinstance(up, ast.Try) and any(cur is b for b in up.body):
                    for h in up.handlers:
                        if (h.type is None or ast.unparse(h.type) == "BaseException") and any(
                                isinstance(x, ast.Call) and A.call_name(x).endswith("generate_answer")
                                for x in ast.walk(h)):
                            ok = True
                    break
                cur = up
            if not ok:
                ctx.fail(cons, p.loc(c), "the handler thread catches `Exception` only around handle_request: a "
                         "handler that ends with SystemExit or asyncio.CancelledError returns its thread slot "
                         "but its request is never answered (a plain Application gets 5012 from the node in "
                         "the same situation)", rule=rule,
                         expected="except BaseException: build the 5012 answer", observed="narrower handler")
    # ... and a request whose handler thread cannot be started is answered, like one for which
    # no slot is free
    cons = "ThreadingApplication._wait_for_recv_msg:start-failure-answered"
    ctx.inst(cons, rule=rule)
    gw = cfg_of(w, inline=False, exc_everywhere=True)
    starts_ = [n for n in gw.nodes if n.has_call(lambda nm, c: nm.endswith(".start"))]
    answers_ = [n for n in gw.nodes if n.has_call(lambda nm, c: nm.endswith("send_answer"))]
    heads_ = [n for n in gw.nodes if n.kind == "loop"]
    for st in starts_:
        hs = [d for l, d in st.succ if l == "exc" and d.kind == "handler"]
        for h in hs:
            r = gw.reach([h], blocked=answers_, skip_labels=("exc",))
            if any(hd in r for hd in heads_) or gw.exit in r:
                ctx.fail(cons, gw.loc(h), "when Thread.start() fails ('can't start new thread') the consumer goes "
                         "for the next message without answering this one: the request is neither handled "
                         "nor answered (the branch for 'no free slot' next to it answers 3004)", rule=rule,
                         expected="send_answer(...) on the failure path", observed="a path to the loop head without it")


# ---------------------------------------------------------------------------------------------
# one way out
def single_transmit_gate(ctx: Ctx, rule: str):
    """Messages are queued for a connection (`add_out_msg`) by Node.send_message only, and the
    answer records are written (`_record_answer`) from there only.  send_message is where a
    transmitted answer removes the pending record of its request (so that a second answer for it
    is refused), where it enters the duplicate-detection window, where the state of the connection
    is checked: a second place that queues messages by-passes all three."""
    from ..lockset import call_sites
    from ..srcmodel import AnalysisError
    model = ctx.model
    nc = model.cls("node.node", "Node")
    sm = nc.methods.get("send_message")
    if sm is None:
        raise AnalysisError("Node.send_message not found")
    ctx.use(sm)
    ctx.rule(rule, "add_out_msg and _record_answer are called by Node.send_message only; the origin "
                   "record is read with one tolerant look-up", floor=3)
    # _record_answer runs on the thread that submits the answer while the node thread may be
    # removing the connection and sweeping the origin table: the record is read with ONE tolerant
    # look-up (.get / .pop with default), not tested with `in` and then subscripted - the
    # KeyError would surface from send_answer in place of NotRoutable
    ra = nc.methods.get("_record_answer")
    cons = "_record_answer:origin-record-read-once"
    ctx.inst(cons, rule=rule)
    if ra is not None:
        ctx.use(ra)
        par_ = A.parents(ra.node)
        for x in A.walk_no_nested(ra.node):
            if isinstance(x, ast.Subscript) and isinstance(x.ctx, (ast.Load, ast.Del)) \
                    and A.dotted(x.value) == "self._origin_waiting_answer":
                cur, caught = x, False
                while cur in par_:
                    cur = par_[cur]
                    if isinstance(cur, ast.Try) and any("KeyError" in ast.unparse(h.type) or h.type is None
                                                        for h in cur.handlers if True):
                        caught = True
                if not caught:
                    ctx.fail(cons, ra.loc(x), f"`{ast.unparse(x)}` subscripts the origin table after a separate "
                             f"membership test: the removal of the connection (another thread) can sweep the "
                             f"entry in between, and Application.send_answer fails with KeyError instead of "
                             f"NotRoutable", rule=rule, expected="one look-up: .get(key) / .pop(key, None)",
                             observed="`in` test + subscript")
    for meth in ("add_out_msg", "_record_answer"):
        sites = [s for s in call_sites(model, meth) if ".node" in s.func.module.name]
        ctx.inst(f"{meth}:callers", rule=rule, sample=[s.where for s in sites])
        if not any(s.func is sm for s in sites):
            ctx.fail(f"{meth}:callers", sm.loc(), f"send_message does not call {meth}", rule=rule)
        for s in sites:
            if s.func is not sm:
                ctx.fail(f"{meth}:caller({s.func.qualname})", s.where,
                         f"{s.func.qualname} calls {meth} itself instead of going through "
                         f"send_message: the pending record of the request this answers is not "
                         f"removed (the application's own, later answer is transmitted as a second "
                         f"answer instead of failing with NotRoutable), the ready check and the "
                         f"statistics are by-passed", rule=rule,
                         expected="Node.send_message as the only caller", observed=s.func.qualname)


# ---------------------------------------------------------------------------------------------
# locks
def no_lock_reacquired(ctx: Ctx, rule: str):
    """A method that holds a non-re-entrant lock of its object (`with self._lock`, the lock being a
    threading.Lock) does not call a method or read a property of the same object that takes that
    lock again: the second acquisition waits for the first for ever.  The thread that runs into it
    (a connection's reader counting a statistic, an application worker) never comes back and the
    lock stays taken for every other thread."""
    from ..lockset import held_locks, lock_fields
    model = ctx.model
    ctx.rule(rule, "no method re-acquires a non-re-entrant lock of `self` that its caller in the "
                   "same class already holds", floor=1)
    n_cls = 0
    for ci in model.all_classes():
        if ".node" not in ci.module.name:
            continue
        locks = {}
        for c in model.mro(ci):
            for k, v in lock_fields(model, c).items():
                locks.setdefault(k, v)
            # __setstate__ / __deepcopy__ re-create the lock: same kind
        plain = {k for k, v in locks.items() if v.split(".")[-1] == "Lock"}
        if not plain:
            continue
        n_cls += 1

        def acquires(m, lk, depth=3, seen=()):
            """does method m (or what it calls on self) take self.<lk>?"""
            if m is None or depth < 0 or m in seen:
                return None
            for n in A.walk_no_nested(m.node):
                if isinstance(n, (ast.With, ast.AsyncWith)) and any(
                        ast.unparse(it.context_expr) == f"self.{lk}" for it in n.items):
                    return n
                if isinstance(n, ast.Call) and A.call_name(n) == f"self.{lk}.acquire":
                    return n
            for n in A.walk_no_nested(m.node):
                if isinstance(n, ast.Call) and A.call_name(n).startswith("self.") and A.call_name(n).count(".") == 1:
                    r = acquires(model.find_method(ci, A.call_name(n).split(".")[1]), lk, depth - 1, seen + (m,))
                    if r is not None:
                        return r
            return None
        props = {f.name: f for c in model.mro(ci) for f in c.all_funcs if f.is_property}
        for f in ci.all_funcs:
            for lk in plain:
                cons = f"{ci.name}.{f.name}:{lk}-not-reacquired"
                inner = []
                for n in A.walk_no_nested(f.node):
                    if isinstance(n, ast.Call) and A.call_name(n).startswith("self.") \
                            and A.call_name(n).count(".") == 1 and f"self.{lk}" in held_locks(f, n):
                        inner.append((n, model.find_method(ci, A.call_name(n).split(".")[1])))
                    elif isinstance(n, ast.Attribute) and isinstance(n.ctx, ast.Load) and A.dotted(n.value) == "self" \
                            and n.attr in props and f"self.{lk}" in held_locks(f, n):
                        inner.append((n, props[n.attr]))
                if not inner:
                    continue
                ctx.use(f)
                ctx.inst(cons, rule=rule, sample=[ast.unparse(n)[:40] for n, _ in inner])
                for n, m in inner:
                    a = acquires(m, lk)
                    if a is not None:
                        ctx.fail(cons, f.loc(n), f"{ci.name}.{f.name} holds `self.{lk}` (a threading.Lock, "
                                 f"not re-entrant) and calls `{ast.unparse(n)[:50]}`, which takes "
                                 f"`self.{lk}` again ({m.loc(a)}): the thread dead-locks on itself and "
                                 f"every later user of the lock waits behind it", rule=rule,
                                 expected="the inner code runs without taking the lock again (or the lock is an RLock)",
                                 observed=f"{m.qualname} acquires self.{lk}")
                        break
    ctx.inst("classes-with-plain-locks", rule=rule, sample=n_cls)
    if n_cls < 1:
        from ..srcmodel import AnalysisError
        raise AnalysisError("no class of the node package holds a threading.Lock")



# ---------------------------------------------------------------------------------------------
# the socket that was taken out of the table
def taken_socket_is_closed(ctx: Ctx, rule: str):
    """close_connection_socket: once the socket has been taken out of `peer_sockets` (the `pop`
    that decides which of two racing callers closes it) every path to the end of the function
    closes that socket and the connection object - also the path on which preparing the close
    (SO_LINGER / abort) fails, because nobody can find the socket again afterwards."""
    from ..effects import fault_effects_of
    from ..srcmodel import AnalysisError
    model = ctx.model
    nc = model.cls("node.node", "Node")
    f = nc.methods.get("close_connection_socket")
    if f is None:
        raise AnalysisError("Node.close_connection_socket not found")
    ctx.use(f)
    ctx.rule(rule, "close_connection_socket closes the socket it took out of the table, and the "
                   "connection object, on every path (also when SO_LINGER / abort fails)", floor=2)
    # every statement inside a `try` may raise into its handlers
    g = cfg_of(f, exc_everywhere=True)
    connp = [a.arg for a in f.node.args.args][1]
    take = [n for n in g.nodes if n.kind == "stmt" and isinstance(n.ast, ast.Assign)
            and isinstance(n.ast.value, ast.Call) and "peer_sockets" in ast.unparse(n.ast.value.func)
            and isinstance(n.ast.targets[0], ast.Name)]
    if not take:
        raise AnalysisError("close_connection_socket: the statement that takes the socket was not found")
    sock = take[0].ast.targets[0].id
    tests = [n for n in g.nodes if n.kind == "test" and n.ast is not None and sock in
             {x.id for x in ast.walk(n.ast) if isinstance(x, ast.Name)} and g.can_reach(take[0], n)]
    starts = [d for t in tests[:1] for l, d in t.succ if l == "T"] if tests else \
        [d for l, d in take[0].succ if l != "exc"]
    if tests and not starts:
        starts = [d for l, d in tests[0].succ if l != "exc"][:1]
    for what, goal in (("socket", [n for n in g.nodes if n.has_call(f"{sock}.close")]),
                       ("connection", [n for n in g.nodes if n.has_call(f"{connp}.close")])):
        cons = f"close_connection_socket:{what}-closed-on-every-path"
        ctx.inst(cons, rule=rule)
        if not goal:
            ctx.fail(cons, f.loc(), f"close_connection_socket never closes the {what}", rule=rule)
            continue
        # (a close() that itself fails has been attempted - the descriptor is released all the
        # same -, so the exceptional edge out of the close statement counts as closed too)
        r = g.reach(starts, blocked=goal)
        if g.exit in r:
            skip = [n for n in r if n.kind == "handler"]
            ctx.fail(cons, g.loc(skip[0]) if skip else g.loc(goal[0]),
                     f"a path from taking the socket out of peer_sockets to the end of "
                     f"close_connection_socket does not close the {what} (the close sits inside the "
                     f"try whose handler swallows a failed setsockopt / abort): the tables are "
                     f"cleaned, the descriptor stays open"
                     + (" and the connection's two worker threads keep running" if what == "connection" else "")
                     + " - nothing refers to them any more", rule=rule,
                     expected="close() on every path after the pop", observed="a path around it")
