"""Rules about the node's connection tables that several properties share."""
from __future__ import annotations

import ast

from ..report import Ctx
from ..cfg import cfg_of
from ..lockset import call_sites
from .. import astutil as A

CONN_TABLES = ("connections", "peer_sockets", "socket_peers", "_half_ready_connections")


def signal_flag(call: ast.Call):
    """True/False/None(unknown) for the signal_node argument of  X.close(...)."""
    v = None
    if call.args:
        v = call.args[0]
    for k in call.keywords:
        if k.arg == "signal_node":
            v = k.value
    if v is None:
        return True
    if isinstance(v, ast.Constant):
        return bool(v.value)
    return None


def conn_close_calls(model):
    """Calls  <x>.close(...)  in node.py whose receiver is a PeerConnection."""
    from ..typesx import expr_type
    node_cls = model.cls("node.node", "Node")
    out = []
    for f in node_cls.all_funcs:
        for n in A.walk_no_nested(f.node):
            if isinstance(n, ast.Call) and isinstance(n.func, ast.Attribute) \
                    and n.func.attr == "close":
                t = expr_type(model, f, n.func.value)
                if getattr(t, "name", None) == "PeerConnection":
                    out.append((f, n))
    return out


def closed_connections_are_removed(ctx: Ctx, rule: str):
    """Every close of a connection object in node.py is either signalled to the I/O
    loop (which then closes the socket and removes the table entries) or happens on a
    path that itself calls close_connection_socket / remove_peer_connection, or
    concerns a connection that was never registered."""
    model = ctx.model
    ctx.rule(rule, "a connection that is closed is also removed from the node's tables: "
                   "signalled close, or close_connection_socket/remove_peer_connection on the "
                   "same path, or never registered", floor=5)
    for f, call in conn_close_calls(model):
        recv = ast.unparse(call.func.value)
        sig = signal_flag(call)
        g = cfg_of(f)
        node = [n for n in g.nodes if call in n.calls()]
        if not node:
            continue
        node = node[0]
        cons = f"{f.qualname}:close({recv})@{_branch_tag(g, node)}"
        ctx.use(f)
        ctx.inst(cons, rule=rule, sample={"where": g.loc(node), "signal_node": sig})
        if sig is True:
            continue
        removers = [n for n in g.nodes if n.kind == "stmt" and any(
            A.call_name(c) in ("self.close_connection_socket", "self.remove_peer_connection")
            and c.args and ast.unparse(c.args[0]) == recv for c in n.calls())]
        before = g.dominated(node, removers) if removers else False
        after = g.always_followed(node, removers, exits=[g.exit]) if removers else False
        if before or after:
            continue
        # never registered on this path?
        regs = [n for n in g.nodes if n.kind == "stmt" and any(
            isinstance(t, ast.Subscript) and isinstance(t.value, ast.Attribute)
            and t.value.attr == "connections" for t in n.stores())]
        reaches = any(g.can_reach(r, node) for r in regs)
        if f.name == "close_connection_socket":
            continue
        if not reaches and regs:
            continue
        ctx.fail(cons, g.loc(node),
                 f"`{ast.unparse(call)}` in {f.qualname} closes the connection object without "
                 f"signalling the I/O loop and without close_connection_socket/"
                 f"remove_peer_connection on the same path: the connection stays in "
                 f"connections/peer_sockets (and as Peer.connection) although it is closed; a "
                 f"reconnecting peer is refused or routed to the dead connection", rule=rule)


def _branch_tag(g, node) -> str:
    """Position independent tag: the nearest enclosing handler / test text."""
    par = A.parents(g.fn)
    x = node.ast
    while x in par:
        x = par[x]
        if isinstance(x, ast.ExceptHandler):
            return "except-" + (ast.unparse(x.type) if x.type else "all")
        if isinstance(x, ast.If):
            t = ast.unparse(x.test)
            return "if-" + "".join(ch for ch in t if ch.isalnum() or ch in "_.")[:40]
    return "body"
