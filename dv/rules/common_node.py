"""Rules about the node's connection tables that several properties share."""
from __future__ import annotations

import ast

from ..report import Ctx
from ..cfg import cfg_of
from ..lockset import call_sites
from .. import astutil as A

CONN_TABLES = ("connections", "peer_sockets", "socket_peers", "_half_ready_connections")


def signal_flag(call: ast.Call):
    """True/False/None(unknown) for the signal_node argument of  X.close(...)."""
    v = None
    if call.args:
        v = call.args[0]
    for k in call.keywords:
        if k.arg == "signal_node":
            v = k.value
    if v is None:
        return True
    if isinstance(v, ast.Constant):
        return bool(v.value)
    return None


def conn_close_calls(model):
    """Calls  <x>.close(...)  in node.py whose receiver is a PeerConnection."""
    from ..typesx import expr_type
    node_cls = model.cls("node.node", "Node")
    out = []
    for f in node_cls.all_funcs:
        for n in A.walk_no_nested(f.node):
            if isinstance(n, ast.Call) and isinstance(n.func, ast.Attribute) \
                    and n.func.attr == "close":
                t = expr_type(model, f, n.func.value)
                if getattr(t, "name", None) == "PeerConnection":
                    out.append((f, n))
    return out


def closed_connections_are_removed(ctx: Ctx, rule: str):
    """Every close of a connection object in node.py is either signalled to the I/O
    loop (which then closes the socket and removes the table entries) or happens on a
    path that itself calls close_connection_socket / remove_peer_connection, or
    concerns a connection that was never registered."""
    model = ctx.model
    ctx.rule(rule, "a connection that is closed is also removed from the node's tables: "
                   "signalled close, or close_connection_socket/remove_peer_connection on the "
                   "same path, or never registered", floor=5)
    for f, call in conn_close_calls(model):
        recv = ast.unparse(call.func.value)
        sig = signal_flag(call)
        g = cfg_of(f)
        node = [n for n in g.nodes if call in n.calls()]
        if not node:
            continue
        node = node[0]
        cons = f"{f.qualname}:close({recv})@{_branch_tag(g, node)}"
        ctx.use(f)
        ctx.inst(cons, rule=rule, sample={"where": g.loc(node), "signal_node": sig})
        if sig is True:
            continue
        removers = [n for n in g.nodes if n.kind == "stmt" and any(
            A.call_name(c) in ("self.close_connection_socket", "self.remove_peer_connection")
            and c.args and ast.unparse(c.args[0]) == recv for c in n.calls())]
        before = g.dominated(node, removers) if removers else False
        after = g.always_followed(node, removers, exits=[g.exit]) if removers else False
        if before or after:
            continue
        # never registered on this path?
        regs = [n for n in g.nodes if n.kind == "stmt" and any(
            isinstance(t, ast.Subscript) and isinstance(t.value, ast.Attribute)
            and t.value.attr == "connections" for t in n.stores())]
        reaches = any(g.can_reach(r, node) for r in regs)
        if f.name == "close_connection_socket":
            continue
        if not reaches and regs:
            continue
        ctx.fail(cons, g.loc(node),
                 f"`{ast.unparse(call)}` in {f.qualname} closes the connection object without "
                 f"signalling the I/O loop and without close_connection_socket/"
                 f"remove_peer_connection on the same path: the connection stays in "
                 f"connections/peer_sockets (and as Peer.connection) although it is closed; a "
                 f"reconnecting peer is refused or routed to the dead connection", rule=rule)


def _branch_tag(g, node) -> str:
    """Position independent tag: the nearest enclosing handler / test text."""
    par = A.parents(g.fn)
    x = node.ast
    while x in par:
        x = par[x]
        if isinstance(x, ast.ExceptHandler):
            return "except-" + (ast.unparse(x.type) if x.type else "all")
        if isinstance(x, ast.If):
            t = ast.unparse(x.test)
            return "if-" + "".join(ch for ch in t if ch.isalnum() or ch in "_.")[:40]
    return "body"


def peer_connection_ownership(ctx: Ctx, rule: str):
    """Peer.connection is set only when unset and cleared only by its owner."""
    from ..atoms import Atomizer
    model = ctx.model
    nc = model.cls("node.node", "Node")
    ctx.rule(rule, "Peer.connection is set only when unset and cleared only by its owner",
             floor=3)
    at_cache = {}
    for f in nc.all_funcs:
        sets = []
        for n in A.walk_no_nested(f.node):
            if isinstance(n, ast.Assign):
                for t in n.targets:
                    if isinstance(t, ast.Attribute) and t.attr == "connection":
                        sets.append((n, t))
        if not sets:
            continue
        g = cfg_of(f)
        at = Atomizer(model, f.module, nc)
        for st, t in sets:
            recv = ast.unparse(t.value)
            node = [n for n in g.nodes if n.ast is st][0]
            is_clear = isinstance(st.value, ast.Constant) and st.value.value is None
            cons = f"{f.qualname}:{'clear' if is_clear else 'set'}({recv}.connection)"
            ctx.inst(cons, sample={"where": g.loc(node), "stmt": node.text(80)})
            subj = f"{recv}.connection"
            if is_clear:
                owner = [a.arg for a in f.node.args.args][1] if len(f.node.args.args) > 1 else None

                def pred(a):
                    if a.subject == subj and a.op == "is" and a.value is None:
                        return True
                    if a.subject == subj and a.op in ("is-expr",) and a.value == owner:
                        return True
                    if a.op == "==x" and {a.subject, a.value} == {subj, owner}:
                        return True
                    return None
                if not at.guarded(g, node, pred):
                    ctx.fail(cons, g.loc(node),
                             f"{subj} is cleared without checking that the removed connection "
                             f"`{owner}` is the peer's own (`{subj} is {owner}`): removing a second "
                             f"connection of an already connected peer orphans the live one "
                             f"(Peer.connection None although a ready connection exists; the peer "
                             f"is dialled again)")
            else:
                def pred(a):
                    if a.subject == subj and a.op == "truthy":
                        return False
                    if a.subject == subj and a.op == "is" and a.value is None:
                        return True
                    return None
                if not at.guarded(g, node, pred):
                    ctx.fail(cons, g.loc(node),
                             f"{subj} is overwritten although the peer may already have a live "
                             f"connection: the earlier connection loses its owner record; when "
                             f"the newer one closes the peer counts as disconnected")



def disconnect_record(ctx: Ctx, rule: str):
    """The disconnect record is written with the owner clear and reset on assignment."""
    from ..atoms import Atomizer
    from ..srcmodel import AnalysisError
    model = ctx.model
    nc = model.cls("node.node", "Node")
    add = nc.methods.get("_add_peer_connection")
    rem = nc.methods.get("remove_peer_connection")
    asg = nc.methods.get("_assign_peer_connection")
    if add is None or rem is None or asg is None:
        raise AnalysisError("Node._add_peer_connection/remove_peer_connection/_assign_peer_connection not found")
    ctx.use(add, rem, asg)
    # ---------------- R4 disconnect record --------------------------------------
    ctx.rule(rule, "the disconnect record is written with the owner clear and reset on "
                       "assignment", floor=3)
    g = cfg_of(rem)
    at = Atomizer(model, rem.module, nc)
    clears = [n for n in g.nodes if n.kind == "stmt" and isinstance(n.ast, ast.Assign)
              and any(isinstance(t, ast.Attribute) and t.attr == "connection" for t in n.ast.targets)]
    ld = [n for n in g.nodes if n.kind == "stmt" and any(
        isinstance(t, ast.Attribute) and t.attr == "last_disconnect" for t in n.stores())]
    dr = [n for n in g.nodes if n.kind == "stmt" and any(
        isinstance(t, ast.Attribute) and t.attr == "disconnect_reason" for t in n.stores())]
    ctx.inst("remove_peer_connection:last_disconnect")
    if not clears or not ld or not all(g.always_followed(c, ld) or g.dominated(c, ld) for c in clears):
        ctx.fail("remove_peer_connection:last_disconnect", rem.loc(),
                 "clearing Peer.connection is not accompanied by storing last_disconnect: the "
                 "reconnect timer of a persistent peer never starts")
    elif not all("time" in ast.unparse(n.ast.value) for n in ld):
        ctx.fail("remove_peer_connection:last_disconnect", g.loc(ld[0]), "last_disconnect is not a time stamp")
    ctx.inst("remove_peer_connection:disconnect_reason")
    rparams = [a.arg for a in rem.node.args.args]
    ok = False
    for n in dr:
        recv = ast.unparse([t for t in n.stores() if isinstance(t, ast.Attribute)][0].value)
        v = n.ast.value
        if isinstance(v, ast.Name) and v.id in rparams and at.guarded(
                g, n, lambda a, s=f"{recv}.disconnect_reason": True
                if (a.subject == s and a.op == "is" and a.value is None) else
                (False if (a.subject == s and a.op == "truthy") else None)):
            ok = True
    if not ok or not all(g.always_followed(c, ld) for c in clears):
        ctx.fail("remove_peer_connection:disconnect_reason", rem.loc(),
                 "disconnect_reason is not stored from the caller's reason when (and only when) "
                 "it is still unset")
    for f in (add, asg):
        g2 = cfg_of(f)
        sets = [n for n in g2.nodes if n.kind == "stmt" and isinstance(n.ast, ast.Assign)
                and any(isinstance(t, ast.Attribute) and t.attr == "connection"
                        for t in n.ast.targets)
                and not (isinstance(n.ast.value, ast.Constant) and n.ast.value.value is None)]
        resets = [n for n in g2.nodes if n.kind == "stmt" and isinstance(n.ast, ast.Assign)
                  and any(isinstance(t, ast.Attribute) and t.attr == "disconnect_reason"
                          for t in n.ast.targets)
                  and isinstance(n.ast.value, ast.Constant) and n.ast.value.value is None]
        cons = f"{f.qualname}:reset-disconnect-reason"
        ctx.inst(cons)
        for s in sets:
            if not (g2.dominated(s, resets) or g2.always_followed(s, resets)):
                ctx.fail(cons, g2.loc(s), "a connection is assigned to the peer without resetting "
                         "disconnect_reason: a peer that was disconnected by DPR is never "
                         "re-dialled after a later loss")



def ready_state_stores(ctx: Ctx, rule: str):
    """Typestate: a connection enters a ready state only through the ready flag
    (after a successful capabilities exchange) or through the DWR/DWA toggles,
    each guarded by the state it must come from."""
    from ..atoms import Atomizer, must_facts
    model = ctx.model
    peer_mod = model.module("node.peer")
    READY = frozenset(model.fold_name(peer_mod, "PEER_READY_STATES"))
    PREADY = model.fold_name(peer_mod, "PEER_READY")
    WAITING = model.fold_name(peer_mod, "PEER_READY_WAITING_DWA")
    ctx.rule(rule, "stores of a ready state: only _flag_connection_as_ready, and the DWR/DWA "
                   "toggles guarded by the state they come from", floor=3)
    for f in model.all_funcs():
        if ".node" not in f.module.name:
            continue
        for n in A.walk_no_nested(f.node):
            if not isinstance(n, ast.Assign):
                continue
            for t in n.targets:
                if not (isinstance(t, ast.Attribute) and t.attr == "state"):
                    continue
                v = model.try_fold(n.value, f.module, f.cls)
                if v not in READY:
                    continue
                recv = ast.unparse(t.value)
                cons = f"{f.qualname}:state={'READY' if v == PREADY else 'READY_WAITING_DWA'}"
                g = cfg_of(f)
                node = [x for x in g.nodes if x.ast is n][0]
                at = Atomizer(model, f.module, f.cls)
                facts = must_facts(g, at, node)
                ctx.use(f)
                ctx.inst(cons, sample={"where": g.loc(node), "facts": sorted(map(str, facts))[:6]})
                if f.name == "_flag_connection_as_ready":
                    callers = [c for c in call_sites(model, f.name)]
                    bad = [c for c in callers if c.func.name not in ("receive_cer", "receive_cea")]
                    if bad:
                        ctx.fail(cons + "#caller", bad[0].where, f"{f.name} is called from "
                                 f"{bad[0].func.qualname}, outside the capabilities exchange")
                    continue
                if v == PREADY:
                    ok = (f"{recv}.state", "==", WAITING, True) in facts
                    want = "state == READY_WAITING_DWA"
                else:
                    ok = (f"{recv}.state", "in", READY, True) in facts or \
                        (f"{recv}.state", "==", PREADY, True) in facts
                    want = "state in PEER_READY_STATES"
                if not ok:
                    ctx.fail(cons, g.loc(node),
                             f"`{ast.unparse(n)}` in {f.qualname} is not guarded by {want}: a "
                             f"connection that is CONNECTED (before its capabilities exchange), "
                             f"DISCONNECTING (after a DPR) or CLOSING can become ready and is "
                             f"offered for routing again")


def ready_constants(ctx: Ctx, rule: str):
    model = ctx.model
    peer_mod = model.module("node.peer")
    ctx.rule(rule, "PEER_READY_STATES is exactly {READY, READY_WAITING_DWA}; the seven states "
                   "are pairwise distinct", floor=1)
    names = ["PEER_CONNECTING", "PEER_CONNECTED", "PEER_READY", "PEER_READY_WAITING_DWA",
             "PEER_DISCONNECTING", "PEER_CLOSING", "PEER_CLOSED"]
    vals = {n: model.fold_name(peer_mod, n) for n in names}
    ready = set(model.fold_name(peer_mod, "PEER_READY_STATES"))
    ctx.inst("PEER_READY_STATES", sample={"ready": sorted(ready), "states": vals})
    if len(set(vals.values())) != len(vals):
        ctx.fail("PEER_*:distinct", peer_mod.relpath + ":1", f"connection state constants collide: {vals}")
    if ready != {vals["PEER_READY"], vals["PEER_READY_WAITING_DWA"]}:
        ctx.fail("PEER_READY_STATES", peer_mod.relpath + ":1",
                 f"PEER_READY_STATES = {sorted(ready)} is not exactly (PEER_READY, "
                 f"PEER_READY_WAITING_DWA): connections that have not completed the capabilities "
                 f"exchange or are disconnecting are routed to")
