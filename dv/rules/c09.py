"""C09 - application answers go only to the requesting connection, at most once."""
from __future__ import annotations

import ast

from ..report import Ctx
from ..srcmodel import AnalysisError
from ..cfg import cfg_of
from ..atoms import Atomizer, must_facts
from .. import astutil as A
from .common_node import route_answer_discipline, waiting_table_keys, ready_constants

TECHNIQUE = "table-discipline analysis: CFG dominance (delete-before-return), must-facts (ready " \
            "filter), key agreement over all access sites, key-completeness rule"
EXPLANATION = (
    "route_answer is analysed on its CFG: the pending-request record is deleted on every path "
    "before a connection can be returned (so a second submission raises), every return is "
    "dominated by `state in PEER_READY_STATES` and by host-identity equality, every other exit "
    "raises NotRoutable and nothing is queued inside; Application.send_answer sends exactly on "
    "the returned connection. All access sites of the pending table (insert on request "
    "arrival, cleanup in send_message, drop on connection removal) use the same key "
    "expression. Key completeness: the table is written as [host][hop-by-hop id]; a lookup "
    "that searches the outer level by membership in the inner level is ambiguous when two "
    "peers use the same hop-by-hop id - reported as a known finding on this tree.")
ASSUMPTIONS = [
    "not decided: histories with connection loss at every point (needs execution); decided is the table discipline",
]


def run(ctx: Ctx):
    model = ctx.model
    from .common_node import names_resolve
    names_resolve(ctx, "C09-RN")
    # ---------------- R7 what the application cannot send the node does not send for it ----------
    # A handler whose send_answer fails with NotRoutable (the connection is DISCONNECTING after a
    # DPR, or CLOSING) raises; the dispatcher's catch-all answers failed requests with 5012 - for
    # an application request only while the connection is still ready
    from .recvmsg import RecvModel
    from ..atoms import must_facts as _mf
    R_ = RecvModel(ctx)
    peer_mod_ = model.module("node.peer")
    READY_ = frozenset(model.fold_name(peer_mod_, "PEER_READY_STATES"))
    BASE_ = {R_.code("CMD_CAPABILITIES_EXCHANGE"), R_.code("CMD_DEVICE_WATCHDOG"), R_.code("CMD_DISCONNECT_PEER")}
    ctx.rule("C09-R7", "the 5012 of the dispatcher's error handler is sent for an application request "
                       "only while its connection is ready", floor=1)
    hsends = [n for n in R_.sends if any(h in R_.g.reach([h]) and n in R_.g.reach([h]) for h in R_.handlers)]
    cons7 = "_receive_message:handler-5012#ready-only"
    ctx.inst(cons7, rule="C09-R7", sample=[R_.g.loc(n) for n in hsends])
    # (a handler that does not send through send_message itself is the business of C09-R6)
    # paths through the handler that are consistent with "an application request on a connection
    # that is not ready": the edges taken when the state IS a ready one, or the command IS a base
    # protocol command, are removed - what can still reach the send is sent in that situation
    def _ready(a):
        if a.subject == f"{R_.conn}.state" and a.op == "in" and isinstance(a.value, (set, frozenset, tuple, list)) \
                and set(a.value) <= set(READY_):
            return True
        return None

    def _base(a):
        if a.subject == R_.cmd and a.op == "in" and isinstance(a.value, (set, frozenset, tuple, list)) \
                and set(a.value) <= BASE_:
            return True
        if a.subject == R_.cmd and a.op == "==" and a.value in BASE_:
            return True
        return None
    gone = R_.g.guard_edges(lambda t: R_.at.label_when(t, _ready)) + \
        R_.g.guard_edges(lambda t: R_.at.label_when(t, _base))
    still = R_.g.reach(list(R_.handlers), blocked_edges=gone)
    for n in hsends:
        ready = base = False
        guard = n not in still
        if not (ready or base or guard):
            ctx.fail(cons7, R_.g.loc(n), "the error handler answers 5012 whatever the state of the connection: "
                     "when an application's own answer was refused with NotRoutable (the peer has sent a "
                     "DPR, the node is shutting the connection down) and the handler raises, the node "
                     "transmits an answer for that request on the connection all the same - after the "
                     "DPA, or after its own DPR", rule="C09-R7",
                     expected="return without sending when the request is an application request and "
                              "conn.state is not a ready state", observed="unconditional send_message")
    from . import c12 as _c12
    ctx.include(_c12.run, {"C12-R1"}, "C09-R8",
                "a received DPR takes the connection out of the ready states on every path, exceptional "
                "ones included (no answer of an application is written behind the peer's DPR)", floor=1,
                constructs=lambda c: c.startswith("Node.receive_dpr"))
    from .common_node import single_transmit_gate
    single_transmit_gate(ctx, "C09-R6")
    nc = model.cls("node.node", "Node")
    route_answer_discipline(ctx, "C09-R1")
    waiting_table_keys(ctx, "C09-R3")
    ready_constants(ctx, "C09-R2b")
    from .common_node import ready_state_stores
    ready_state_stores(ctx, "C09-R2c")
    from .common_node import ready_substate_transitions_atomic
    ready_substate_transitions_atomic(ctx, "C09-R2d")

    # ---------------- R3b removal drops the host's table; send_message cleanup -------------
    ctx.rule("C09-R3b", "remove_peer_connection drops the removed host's pending table; "
                        "send_message cleans the record of a directly sent answer", floor=2)
    rem = nc.methods.get("remove_peer_connection")
    if rem is None:
        raise AnalysisError("Node.remove_peer_connection not found")
    ctx.use(rem)
    g = cfg_of(rem)
    at = Atomizer(model, rem.module, nc)
    dels = [n for n in g.nodes if n.kind == "stmt" and (
        any(isinstance(t, ast.Subscript) and A.dotted(t.value) == "self._peer_waiting_answer" for t in n.deletes())
        or any(isinstance(c.func, ast.Attribute) and c.func.attr == "pop"
               and A.dotted(c.func.value) == "self._peer_waiting_answer" for c in n.calls()))]
    cons = "remove_peer_connection:drop-pending"
    ctx.inst(cons)
    if not dels:
        ctx.fail(cons, rem.loc(), "a removed connection's pending-request records are kept: after "
                 "the peer reconnects, a late answer is transmitted on the new connection")
    else:
        facts = must_facts(g, at, dels[0])
        extra = [f for f in facts if "_peer_waiting_answer" not in str(f[2]) and "_peer_waiting_answer" not in f[0]]
        if extra:
            ctx.fail(cons + "#conditional", g.loc(dels[0]), f"the pending records are only dropped under {extra}")
    sm = nc.methods.get("send_message")
    ctx.use(sm)
    gs = cfg_of(sm)
    ats = Atomizer(model, sm.module, nc)
    cons = "send_message:cleanup"
    ctx.inst(cons)
    sdel = [n for n in gs.nodes if n.kind == "stmt" and (
        any("_peer_waiting_answer" in ast.unparse(t) for t in n.deletes())
        or any(isinstance(c.func, ast.Attribute) and c.func.attr == "pop"
               and "_peer_waiting_answer" in A.resolve_local_chain(sm.node, c.func.value) for c in n.calls()))]
    mparam = [a.arg for a in sm.node.args.args][2]
    if not sdel or (f"{mparam}.header.is_request", "truthy", None, False) not in must_facts(gs, ats, sdel[0]):
        ctx.fail(cons, sm.loc(), "send_message does not clean the pending record of an answer sent "
                 "directly (only for answers)")
    # the message is queued on every path
    q = [n for n in gs.nodes if n.has_call("add_out_msg")]
    cparam = [a.arg for a in sm.node.args.args][1]
    if len(q) != 1 or not gs.dominated(gs.exit, q) or \
            [A.dotted(a) for a in [c for c in q[0].calls() if A.call_name(c).endswith("add_out_msg")][0].args] != [mparam] \
            or A.call_name([c for c in q[0].calls() if A.call_name(c).endswith("add_out_msg")][0]) != f"{cparam}.add_out_msg":
        ctx.fail(cons + "#queue", sm.loc(), "send_message does not queue the message exactly once "
                 "on the given connection")

    # ---------------- R4 key completeness -------------------------------------------------
    ctx.rule("C09-R4", "a lookup in the pending table supplies both key levels from data that "
                       "identifies the requester's connection", floor=1)
    ra = nc.methods.get("route_answer")
    ctx.use(ra)
    searches = []
    for n in A.walk_no_nested(ra.node):
        if isinstance(n, ast.For) and "self._peer_waiting_answer" in ast.unparse(n.iter):
            for t in ast.walk(n):
                if isinstance(t, ast.Compare) and len(t.ops) == 1 and isinstance(t.ops[0], ast.In):
                    searches.append((n, t.left))
                    break
    both = False
    if searches:
        ktxt = A.resolve_local_chain(ra.node, searches[0][1])
        both = "hop_by_hop_identifier" in ktxt and "end_to_end_identifier" in ktxt
    cons = "route_answer:search-by-message-id" if both else "route_answer:search-by-hop-by-hop-id"
    ctx.inst(cons, sample={"outer_level_searches": len(searches)})
    if searches and both:
        ctx.fail(cons, ra.loc(searches[0][0]),
                 "route_answer finds the waiting connection by searching every connection's table "
                 "for the answer's (hop-by-hop, end-to-end) identifier pair: both identifiers are "
                 "chosen by the remote peers, so two connections with an outstanding request under "
                 "the same pair are indistinguishable and the answer for one request is transmitted "
                 "on the other connection (the answer object carries nothing that names the "
                 "connection its request arrived on)",
                 expected="lookup [requester connection][message id]",
                 observed="for ident, ids in table.items(): if id in ids")
    elif searches:
        ctx.fail(cons, ra.loc(searches[0][0]),
                 "route_answer finds the waiting host by searching every table for the "
                 "answer's hop-by-hop id alone: hop-by-hop ids are unique per connection only, so two "
                 "peers with an outstanding request under the same id are indistinguishable and "
                 "the answer for peer B's request is transmitted to peer A",
                 expected="lookup [requester connection][hop-by-hop id, end-to-end id]",
                 observed="for host, ids in table.items(): if id in ids")
    from .common_node import ready_check_atomic_with_send
    ready_check_atomic_with_send(ctx, "C09-R5", "send_answer", "route_answer")
