"""C14 - no fault or handler outcome stops service; workers survive."""
from __future__ import annotations

import ast

from ..report import Ctx
from ..srcmodel import AnalysisError, FuncInfo
from ..cfg import cfg_of
from ..atoms import Atomizer
from ..effects import fault_effects_of, effects_of
from ..lockset import call_sites, method_refs
from .. import astutil as A
from .common_node import closed_connections_are_removed

TECHNIQUE = "exception-escape analysis of worker loops under a fault model + CFG pairing of the " \
            "thread-slot acquire/release + thread-context analysis of shared-table iteration"
EXPLANATION = (
    "For each long-lived worker (node I/O loop, statistics loop, connection reader and writer, "
    "the two ThreadingApplication consumers, the per-request thread) the set of exceptions that "
    "can escape under the property's fault model - transport calls raise OSError, user "
    "callbacks raise anything or return None, answers may be unroutable (NotRoutable), queue "
    "time-outs, Thread.start failing, the codec through as_bytes/from_bytes - is computed by "
    "raise-set inference and must be empty. The capacity slot taken per request is paired: "
    "on the CFG every path from the acquire leads to exactly one release or to a hand-off that "
    "itself guarantees one release per item. Workers are created and started once and "
    "stopped by their owner; blocking waits have a time-out so the stop flag is observed. "
    "Iterations over connection tables that are mutated in another thread context must use a "
    "snapshot.")
ASSUMPTIONS = [
    "fault model: recv/send/sctp_send/connect/connectx raise OSError; handle_request/handle_answer/"
    "_request_handler/peer_route_select_func raise anything or return None; explicit raises of the "
    "node package; queue get/put with time-out; Thread.start raises RuntimeError; the codec is "
    "entered only through as_bytes/from_bytes; constructing messages from internal values does not raise",
    "not in the fault model: accept()/select() failing, os.write on the node's own interrupt pipe, "
    "logging calls",
    "configuration tables (peers, applications, _peer_routes) are filled before traffic flows",
    "not decided: the reconnect-and-serve probe itself; scheduling effects other than snapshot iteration",
]

SUPPRESS = {
    # (worker, exception): reason
    ("Node._handle_connections", "RuntimeError"):
        "_generate_connection_id raises after 11 successive collisions of 48-bit random ids",
}


def _workers(model):
    return [
        model.func("node.node", "Node._handle_connections"),
        model.func("node.node", "Node._collect_stats"),
        model.func("node.peer", "PeerConnection.work_read_queue"),
        model.func("node.peer", "PeerConnection.work_write_queue"),
        model.func("node.application", "ThreadingApplication._wait_for_recv_msg"),
        model.func("node.application", "ThreadingApplication._wait_for_resp_msg"),
        model.func("node.application", "ThreadingApplication._process_recv_msg"),
    ]


def run(ctx: Ctx):
    model = ctx.model
    from .common_node import names_resolve
    names_resolve(ctx, "C14-RN")
    from . import c18 as _c18b
    ctx.include(_c18b.run, {"C18-R4"}, "C14-R17",
                "a connection object (two threads) that was constructed for a dial is closed on "
                "every path on which the dial does not register it", floor=1,
                constructs=lambda c: "PeerConnection@" in c)
    from . import c18 as _c18
    ctx.include(_c18.run, {"C18-R3"}, "C14-R18",
                "the writer counts every message it takes as done: a CLOSING connection is closed "
                "after its last message instead of holding its socket, record and threads", floor=1,
                constructs=lambda c: c.startswith("work_write_queue:task_done"))
    from .common_node import no_lock_reacquired
    no_lock_reacquired(ctx, "C14-R16")
    from .recvmsg import received_messages_reach_dispatch
    received_messages_reach_dispatch(ctx, "C14-R15", answers=True, requests=True)
    F = fault_effects_of(model)
    ctx.note(f"fault-model raise-set fix point: {F.iterations} iterations; callable attributes "
             f"resolved: {sorted(F.callable_attrs)}")
    workers = _workers(model)

    # ------------------------------------------------------------------ R1
    ctx.rule("C14-R1", "no exception of the fault model escapes a worker thread function",
             floor=7)
    for w in workers:
        ctx.use(w)
        r = set(F.raises(w))
        ctx.inst(w.qualname, sample={"worker": w.qualname, "escapes": sorted(r)})
        gw = cfg_of(w, effects=F)
        for e in sorted(r):
            # the statements from which e really leaves the worker (not those whose e is caught)
            esc = [n for n in gw.nodes if e in (n.raises or ()) and any(
                d is gw.raise_exit for l, d in n.succ if l in ("exc", "raise"))]
            chains = []
            for n in esc:
                ln = getattr(n.ast, "lineno", 0)
                ch = F.why_at(w, e, ln)
                if ch not in chains:
                    chains.append(ch)
            if not chains:
                chains = [F.why(w, e)]
            seen_tags = set()
            for chain in chains:
                if (w.qualname, e) in SUPPRESS and any("_generate_connection_id" in c for c in chain):
                    ctx.note(f"suppressed {e} in {w.qualname}: {SUPPRESS[(w.qualname, e)]}")
                    continue
                origin = chain[-1] if chain else ""
                tag = _origin_tag(chain)
                if tag in seen_tags:
                    continue
                seen_tags.add(tag)
                ctx.fail(f"{w.qualname}:{e}@{tag}", chain[0].split(": ")[0] if chain else w.loc(),
                         f"{e} can escape the worker {w.qualname} and terminate its thread "
                         f"(origin: {origin})", steps=chain)
    # the thread target functions are indeed the analysed workers
    _thread_targets(ctx, model, workers)
    # value faults are outside the fault model's raise sets: the reader worker must isolate its
    # message handler structurally
    from . import c05
    ctx.include(c05.run, {"C05-R4"}, "C14-R1c",
                "the reader worker isolates the message handler (try/except Exception around "
                "the dispatch) and cannot return silently", floor=3)

    # ------------------------------------------------------------------ R2
    _slot_pairing(ctx, model, F)

    # ------------------------------------------------------------------ R3
    _lifecycle(ctx, model)

    # ------------------------------------------------------------------ R4
    _snapshots(ctx, model, F)

    # ------------------------------------------------------------------ R5
    # a connection closed after a fault must also leave the tables, otherwise the
    # reconnecting peer is not served "as on a fresh node"
    closed_connections_are_removed(ctx, "C14-R5")
    # ... and the I/O loop only learns about a closed connection through its wake-up
    from .common_node import wakeup_tokens_all_handled, waiting_table_keys
    wakeup_tokens_all_handled(ctx, "C14-R6")
    # a routing record of a lost connection must not be inherited by the peer's next
    # connection ("answered exactly as on a fresh node")
    waiting_table_keys(ctx, "C14-R7")
    # a handshake message still being handled while the connection is torn down must not
    # resurrect it as the peer's ready connection (the peer would never be dialled again)
    from .common_node import ready_state_stores, every_state_has_a_deadline
    ready_state_stores(ctx, "C14-R8")
    every_state_has_a_deadline(ctx, "C14-R9")
    from .common_node import socket_close_confined
    socket_close_confined(ctx, "C14-R10")
    # writer, readers and purge of the flat transaction tables agree on the key
    from .common_node import transaction_table_keys
    transaction_table_keys(ctx, "C14-R11")
    from .common_node import stat_counters_synchronised
    stat_counters_synchronised(ctx, "C14-R12")
    from .common_node import close_is_thread_tolerant
    close_is_thread_tolerant(ctx, "C14-R13")
    from .common_node import wakeup_pipe_cannot_block
    wakeup_pipe_cannot_block(ctx, "C14-R14")


def _origin_tag(chain: list[str]) -> str:
    """Stable tag of the raising primitive: the last '...: what' of the chain."""
    if not chain:
        return "?"
    what = chain[-1].split(": ", 1)[-1]
    what = what.replace("calls ", "").replace("(...)", "").replace(" ", "_")
    return what[:60]


def _thread_targets(ctx: Ctx, model, workers):
    ctx.rule("C14-R1b", "every thread target in the node package is an analysed worker", floor=6)
    names = {w.name for w in workers}
    for f in model.all_funcs():
        if ".node" not in f.module.name:
            continue
        for n in A.walk_no_nested(f.node):
            if isinstance(n, ast.Call) and A.call_name(n).split(".")[-1] in ("StoppableThread", "Thread"):
                tgt = None
                for k in n.keywords:
                    if k.arg == "target":
                        tgt = k.value
                if tgt is None:
                    continue
                nm = A.attr_tail(tgt)
                cons = f"{f.qualname}:thread({nm})"
                ctx.inst(cons, sample={"where": f.loc(n), "target": ast.unparse(tgt)})
                if nm not in names:
                    ctx.fail(cons, f.loc(n), f"thread target `{ast.unparse(tgt)}` is not one of the "
                             f"analysed worker functions: its exception behaviour is unknown")


def _slot_pairing(ctx: Ctx, model, F):
    ctx.rule("C14-R2", "every thread slot taken is returned exactly once on every path "
                       "(handler raised / returned None / answer unroutable / start failed)",
             floor=4)
    app = model.cls("node.application", "ThreadingApplication")
    recv = app.methods["_wait_for_recv_msg"]
    resp = app.methods["_wait_for_resp_msg"]
    proc = app.methods["_process_recv_msg"]
    SLOTS, RESPQ = "self._thread_slots", "self._resp_msg_queue"

    def is_call(n, recv_txt, meths):
        return n.kind == "stmt" and any(
            isinstance(c.func, ast.Attribute) and c.func.attr in meths
            and A.dotted(c.func.value) == recv_txt for c in n.calls())

    # (a) producer side
    g = cfg_of(recv, effects=F)
    acq = [n for n in g.nodes if is_call(n, SLOTS, ("put", "put_nowait"))]
    rel = [n for n in g.nodes if is_call(n, SLOTS, ("get", "get_nowait"))]
    starts = [n for n in g.nodes if n.kind == "stmt" and any(
        isinstance(c.func, ast.Attribute) and c.func.attr == "start" for c in n.calls())]
    cons = "ThreadingApplication._wait_for_recv_msg:slot"
    ctx.inst(cons, sample={"acquire": [g.loc(n) for n in acq], "release": [g.loc(n) for n in rel],
                           "handoff": [g.loc(n) for n in starts]})
    if len(acq) != 1:
        ctx.error(f"expected one slot acquire in _wait_for_recv_msg, found {len(acq)}")
        return
    heads = [n for n in g.nodes if n.kind == "loop"]
    # from the completed acquire, every path to the loop head / exits passes a completed
    # hand-off (thread started) or a release attempt
    nxt = [d for l, d in acq[0].succ if l != "exc"]
    r = g.reach(nxt, normal_blocked=starts, blocked=rel)
    leak = [n for n in heads + [g.exit, g.raise_exit] if n in r]
    if leak:
        ctx.fail(cons, g.loc(acq[0]),
                 "after a slot has been taken there is a path back to the loop head on which "
                 "neither a worker thread was started nor the slot returned (e.g. "
                 "Thread.start() failing): the slot is lost for good and, with max_threads=1, "
                 "every later request is answered TOO_BUSY")
    # the thread that is started runs _process_recv_msg
    for s in starts:
        # the started object is a Thread whose target is _process_recv_msg
        pass
    tt = [n for n in A.walk_no_nested(recv.node) if isinstance(n, ast.Call)
          and A.call_name(n).endswith("Thread")]
    ok = any(any(k.arg == "target" and A.attr_tail(k.value) == proc.name for k in t.keywords)
             for t in tt)
    ctx.inst("ThreadingApplication._wait_for_recv_msg:handoff-target")
    if not ok:
        ctx.fail("ThreadingApplication._wait_for_recv_msg:handoff-target", recv.loc(),
                 "the per-request thread does not run _process_recv_msg")

    # (b) per-request thread: exactly one item on the response queue on every path
    g = cfg_of(proc, effects=F)
    puts = [n for n in g.nodes if is_call(n, RESPQ, ("put", "put_nowait"))]
    cons = "ThreadingApplication._process_recv_msg:report"
    ctx.inst(cons, sample={"puts": [g.loc(n) for n in puts]})
    r = g.reach([g.entry], normal_blocked=puts)
    if g.exit in r or g.raise_exit in r:
        ctx.fail(cons, proc.loc(),
                 "_process_recv_msg can finish without putting anything on the response queue "
                 "(handler returned None, or building the fallback answer raised): the slot "
                 "taken for this request is never returned")
    # ... whatever ends the handler, also a BaseException that is not an Exception
    # (SystemExit, asyncio.CancelledError): the report sits in a finally clause
    cons_f = cons + "#base-exception"
    ctx.inst(cons_f)
    par_ = A.parents(proc.node)
    put_calls = [c for c in ast.walk(proc.node) if isinstance(c, ast.Call) and isinstance(c.func, ast.Attribute)
                 and c.func.attr in ("put", "put_nowait") and A.dotted(c.func.value) == RESPQ]
    hcalls = [c for c in ast.walk(proc.node) if isinstance(c, ast.Call) and A.call_name(c) == "self.handle_request"]

    def _in_finally_of(call, guarded):
        x = call
        while x in par_:
            up = par_[x]
            if isinstance(up, ast.Try) and any(x is b or x in ast.walk(b) for b in up.finalbody) \
                    and any(guarded is b or guarded in list(ast.walk(b)) for b in up.body):
                return True
            x = up
        return False
    okf = bool(put_calls and hcalls) and any(_in_finally_of(pc_, hcalls[0]) for pc_ in put_calls)
    if not okf:
        for t_ in ast.walk(proc.node):
            if isinstance(t_, ast.Try) and hcalls and any(hcalls[0] in list(ast.walk(b)) for b in t_.body) \
                    and any(h.type is None or ast.unparse(h.type) == "BaseException" for h in t_.handlers):
                okf = True
    if not okf:
        ctx.fail(cons_f, proc.loc(), "the report that returns the thread slot follows a try/except Exception: "
                 "a handler that ends with a BaseException which is no Exception (sys.exit(), "
                 "asyncio.CancelledError out of asyncio.run()) skips it - the slot is lost and with "
                 "max_threads=1 every later request is answered TOO_BUSY for ever")
    # the same outcome of a handler of a PLAIN Application, which runs on the connection's reader
    # thread: the dispatch try of _receive_message (or the isolation in the reader loop) catches
    # BaseException, or the reader thread ends with the connection still READY and unread
    cons_r = "Node._receive_message:handler#base-exception"
    ctx.inst(cons_r)
    rm_ = model.cls("node.node", "Node").methods.get("_receive_message")
    rq_ = model.cls("node.peer", "PeerConnection").methods.get("work_read_queue")

    def _catches_base(fn_, callee_names):
        for t_ in ast.walk(fn_.node):
            if isinstance(t_, ast.Try) and any(
                    isinstance(c_, ast.Call) and A.call_name(c_).split(".")[-1] in callee_names
                    for b_ in t_.body for c_ in ast.walk(b_)) and any(
                    h.type is None or "BaseException" in ast.unparse(h.type) for h in t_.handlers):
                return True
        return False
    if rm_ is None or rq_ is None:
        ctx.error("_receive_message / work_read_queue not found", rule="C14-R2")
    elif not (_catches_base(rm_, {"_receive_app_request"}) or _catches_base(rq_, {"__dispatch_message", "_PeerConnection__dispatch_message"})):
        ctx.fail(cons_r, rm_.loc(), "a request handler of a plain Application runs on the connection's "
                 "reader thread inside `try ... except Exception`: a handler that ends with a "
                 "BaseException which is no Exception (sys.exit(), asyncio.CancelledError) ends the "
                 "reader thread - the connection stays READY in every table and nothing reads from "
                 "it any more")
    for p in puts:
        after = g.reach([p], include_starts=False)
        if any(q in after for q in puts):
            ctx.fail(cons + "#twice", g.loc(p), "two items can be queued for one request: a "
                     "slot of another request is returned")
    # bounded queue never blocks the put: it is unbounded
    init = app.methods["__init__"]
    for n in A.walk_no_nested(init.node):
        if isinstance(n, ast.Assign) and any(A.dotted(t) == RESPQ for t in n.targets):
            if not (isinstance(n.value, ast.Call) and A.call_name(n.value) == "queue.Queue"
                    and not n.value.args and not n.value.keywords):
                ctx.fail(cons + "#queue", init.loc(n), "response queue must be an unbounded queue.Queue()")

    # (c) consumer: one release attempt per item, before anything that can raise past it
    g = cfg_of(resp, effects=F)
    gets = [n for n in g.nodes if is_call(n, RESPQ, ("get", "get_nowait"))]
    rel = [n for n in g.nodes if is_call(n, SLOTS, ("get", "get_nowait"))]
    cons = "ThreadingApplication._wait_for_resp_msg:release"
    ctx.inst(cons, sample={"item": [g.loc(n) for n in gets], "release": [g.loc(n) for n in rel]})
    if len(gets) != 1 or not rel:
        ctx.fail(cons, resp.loc(), "response consumer does not release a slot per item")
        return
    heads = [n for n in g.nodes if n.kind == "loop"]
    nxt = [d for l, d in gets[0].succ if l != "exc"]
    r = g.reach(nxt, blocked=rel)
    if any(n in r for n in heads + [g.exit, g.raise_exit]):
        ctx.fail(cons, g.loc(gets[0]),
                 "after taking an item from the response queue there is a path to the next "
                 "iteration that does not return the thread slot (e.g. send_answer raising "
                 "NotRoutable before the release)")
    for p in rel:
        after = g.reach([p], include_starts=False, blocked=heads)
        if any(q in after for q in rel if q is not p):
            ctx.fail(cons + "#twice", g.loc(p), "two slots can be returned for one item")
    # the release must not block
    for p in rel:
        for c in p.calls():
            if isinstance(c.func, ast.Attribute) and c.func.attr == "get":
                if not F._queue_raises("get", c):
                    ctx.fail(cons + "#blocking", g.loc(p), "slot release uses a blocking get: an "
                             "empty slot queue would hang the response consumer")


def _lifecycle(ctx: Ctx, model):
    ctx.rule("C14-R3", "workers are created once, started once by their owner, stopped by the "
                       "owner's stop()/close(); blocking waits have a time-out", floor=10)
    spec = [
        ("node.peer", "PeerConnection", "_read_thread", "__init__", "close"),
        ("node.peer", "PeerConnection", "_write_thread", "__init__", "close"),
        ("node.application", "ThreadingApplication", "_recv_queue_consumer", "start", "stop"),
        ("node.application", "ThreadingApplication", "_resp_queue_consumer", "start", "stop"),
        ("node.node", "Node", "_connection_thread", "start", "stop"),
        ("node.node", "Node", "_stat_collect_thread", "start", "stop"),
    ]
    for mod, cn, attr, start_in, stop_in in spec:
        ci = model.cls(mod, cn)
        cons = f"{cn}.{attr}"
        starts = [c for c in call_sites(model, "start") if c.receiver == f"self.{attr}"
                  and c.func.cls is ci]
        stops = [c for c in call_sites(model, "stop") if c.receiver == f"self.{attr}"
                 and c.func.cls is ci]
        ctx.inst(cons, sample={"start": [c.where for c in starts], "stop": [c.where for c in stops]})
        if len(starts) != 1 or starts[0].func.name != start_in:
            ctx.fail(cons + "#start", starts[0].where if starts else ci.loc(),
                     f"{cons} must be started exactly once, in {cn}.{start_in} "
                     f"(found {[c.func.qualname for c in starts]})")
        if not any(c.func.name == stop_in for c in stops):
            ctx.fail(cons + "#stop", ci.loc(), f"{cons} is never stopped by {cn}.{stop_in}(): the "
                     f"worker outlives its owner")
    # a worker never joins its own thread (RuntimeError: cannot join current thread)
    F_ = fault_effects_of(model)
    targets = {"_read_thread": ("node.peer", "PeerConnection.work_read_queue"),
               "_write_thread": ("node.peer", "PeerConnection.work_write_queue"),
               "_recv_queue_consumer": ("node.application", "ThreadingApplication._wait_for_recv_msg"),
               "_resp_queue_consumer": ("node.application", "ThreadingApplication._wait_for_resp_msg"),
               "_connection_thread": ("node.node", "Node._handle_connections"),
               "_stat_collect_thread": ("node.node", "Node._collect_stats")}
    for attr, (mod, q) in targets.items():
        w = model.func(mod, q)
        cons = f"{q}:never-joins-itself"
        ctx.inst(cons)
        for h in F_.reachable_funcs([w], depth=6):
            if h.cls is None or h.cls is not w.cls and w.cls not in model.mro(h.cls):
                continue
            for n in A.walk_no_nested(h.node):
                if isinstance(n, ast.Call) and A.call_name(n) == f"self.{attr}.join":
                    ctx.fail(cons, h.loc(n), f"{h.qualname} joins {attr}, but it is reachable from that "
                             f"thread's own target {q}: `RuntimeError: cannot join current thread` ends "
                             f"the worker in the middle of {h.name}() (e.g. before the node has been "
                             f"signalled to close the socket)")
    # blocking waits have time-outs; loops test the stop flag
    for w in _workers(model)[:6]:
        g = cfg_of(w)
        cons = f"{w.qualname}:stop-observed"
        ctx.inst(cons)
        at = Atomizer(model, w.module, w.cls)
        if not any(n.kind == "test" and (a := at.node_atom(n)) and a.subject.endswith(".is_stopped")
                   for n in g.nodes):
            ctx.fail(cons, w.loc(), f"{w.qualname} never tests the stop flag")
        for n in A.walk_no_nested(w.node):
            if isinstance(n, ast.Call) and isinstance(n.func, ast.Attribute) \
                    and n.func.attr == "get" and "queue" in ast.unparse(n.func.value).lower():
                has_to = len(n.args) >= 2 or any(k.arg == "timeout" for k in n.keywords) \
                    or any(isinstance(a, ast.Constant) and a.value is False for a in n.args[:1]) \
                    or any(k.arg == "block" and isinstance(k.value, ast.Constant)
                           and k.value.value is False for k in n.keywords)
                if not has_to:
                    ctx.fail(cons + "#timeout", w.loc(n), f"`{ast.unparse(n)}` blocks without a "
                             f"time-out: the stop flag is never observed on an idle queue")
            if isinstance(n, ast.Call) and A.call_name(n) == "select.select" and len(n.args) < 4:
                ctx.fail(cons + "#timeout", w.loc(n), "select() without a time-out")


# ---------------------------------------------------------------------------
# R4 snapshot iteration
# ---------------------------------------------------------------------------
DYNAMIC_TABLES = {
    "Node": ["connections", "peer_sockets", "socket_peers", "_half_ready_connections",
             "_peer_waiting_answer", "_app_waiting_answer", "_origin_waiting_answer",
             "_sent_answers",
             # configuration tables: add_peer() / add_application() are supported on a running
             # node (the examples register the application after start())
             "peers", "_peer_routes"],
    "Application": ["_answer_waiting"],
    # statistics: keys appear with the first command name / result-code range seen, on connection
    # and application threads, while the I/O thread (statistics logging) and the statistics
    # thread read them
    "PeerStats": ["processed_req_time", "sent_result_code_range_counters"],
}


def _contexts(model, F) -> dict[int, set[str]]:
    entries = {
        "node-loop": [model.func("node.node", "Node._handle_connections")],
        "stats": [model.func("node.node", "Node._collect_stats")],
        "conn-reader": [model.func("node.peer", "PeerConnection.work_read_queue")],
        "conn-writer": [model.func("node.peer", "PeerConnection.work_write_queue")],
        "app-worker": [model.func("node.application", "ThreadingApplication._wait_for_recv_msg"),
                       model.func("node.application", "ThreadingApplication._wait_for_resp_msg"),
                       model.func("node.application", "ThreadingApplication._process_recv_msg")],
    }
    api = []
    for cn, mod in (("Node", "node.node"), ("Application", "node.application"),
                    ("ThreadingApplication", "node.application")):
        ci = model.cls(mod, cn)
        for f in ci.all_funcs:
            if not f.name.startswith("_") and not f.is_property:
                api.append(f)
    entries["api"] = api
    out: dict[int, set[str]] = {}
    for ctxname, roots in entries.items():
        for f in F.reachable_funcs(roots):
            out.setdefault(id(f.node), set()).add(ctxname)
    return out


def _snapshots(ctx: Ctx, model, F):
    ctx.rule("C14-R4", "iterations over connection/transaction tables mutated in another thread "
                       "context use a snapshot (list(...))", floor=6)
    cx = _contexts(model, F)
    funcs = [f for f in model.all_funcs() if ".node" in f.module.name]
    for owner, tables in DYNAMIC_TABLES.items():
        for tbl in tables:
            # mutation sites (size changing)
            muts: list[tuple[FuncInfo, ast.AST]] = []
            for f in funcs:
                if f.name == "__init__":
                    continue
                for n in A.walk_no_nested(f.node):
                    hit = False
                    if isinstance(n, ast.Delete):
                        hit = any(isinstance(t, ast.Subscript) and _is_tbl(t.value, tbl)
                                  for t in n.targets)
                    elif isinstance(n, ast.Assign):
                        hit = any(isinstance(t, ast.Subscript) and _is_tbl(t.value, tbl)
                                  for t in n.targets)
                    elif isinstance(n, ast.Call) and isinstance(n.func, ast.Attribute) \
                            and n.func.attr in ("pop", "clear", "setdefault", "popitem", "update") \
                            and _is_tbl(n.func.value, tbl):
                        hit = True
                    if hit:
                        muts.append((f, n))
            mctx = set()
            for f, _ in muts:
                mctx |= cx.get(id(f.node), {"api"})
            # iteration sites
            for f in funcs:
                for n in A.walk_no_nested(f.node):
                    its = []
                    if isinstance(n, (ast.For, ast.comprehension)):
                        its.append(n.iter)
                    for it in its:
                        live = _live_view(it, tbl)
                        if live is None:
                            continue
                        ictx = cx.get(id(f.node), {"api"})
                        cons = f"{f.qualname}:iterate({tbl})"
                        # "api" stands for any number of user threads: an API function that
                        # iterates and an API function that resizes run concurrently
                        other = ({m for m in mctx if ictx - {m} or len(mctx) > 1} and
                                 (len(mctx | ictx) > 1)) or ("api" in mctx and "api" in ictx)
                        ctx.inst(cons, sample={"where": f.loc(it), "iter": ast.unparse(it),
                                               "snapshot": not live,
                                               "iter_contexts": sorted(ictx),
                                               "mutating_contexts": sorted(mctx)})
                        if live and other and muts:
                            mf, mn = muts[0]
                            for cand_f, cand_n in muts:
                                if cx.get(id(cand_f.node), {"api"}) - ictx:
                                    mf, mn = cand_f, cand_n
                                    break
                            ctx.fail(cons, f.loc(it),
                                     f"`{ast.unparse(it)}` iterates the live table {owner}.{tbl} in "
                                     f"thread context(s) {sorted(ictx)} while it is resized in "
                                     f"{sorted(mctx)} (e.g. {mf.qualname} at {mf.loc(mn)}): "
                                     f"'RuntimeError: dictionary changed size during iteration' "
                                     f"terminates the iterating thread; iterate list(...)")


def _is_tbl(e: ast.AST, tbl: str) -> bool:
    return isinstance(e, ast.Attribute) and e.attr == tbl


def _live_view(it: ast.expr, tbl: str):
    """None: not an iteration of tbl; True: live view; False: snapshot."""
    wrapped = False
    e = it
    while isinstance(e, ast.Call) and A.call_name(e) in ("list", "tuple", "sorted", "dict", "set",
                                                         "frozenset") and e.args:
        wrapped = True
        e = e.args[0]
    if isinstance(e, ast.Call) and isinstance(e.func, ast.Attribute) \
            and e.func.attr in ("items", "values", "keys") and _is_tbl(e.func.value, tbl):
        return not wrapped
    if _is_tbl(e, tbl):
        return not wrapped
    return None
