"""C12 - disconnect-peer handling and reconnect policy."""
from __future__ import annotations

import ast

from ..report import Ctx
from ..srcmodel import AnalysisError
from ..cfg import cfg_of
from ..atoms import Atomizer, must_facts, guarded_any
from ..lockset import call_sites, held_locks
from .. import astutil as A
from .common_node import (disconnect_record, peer_connection_ownership, ready_constants,
                          ready_state_stores)

TECHNIQUE = "CFG guard-chain (must-facts / alternative-guard) analysis of the reconnect policy + " \
            "typestate rule for ready-state stores + ownership rule for Peer.connection"
EXPLANATION = (
    "Structural analysis of node.py: receive_dpr has one path (2001 DPA built from the "
    "request, state DISCONNECTING, reason DPR recorded for a known peer, one send); the call of "
    "_connect_to_peer in _reconnect_peers is reachable only under not-stopping, persistent, no "
    "connection, a recorded disconnect, reconnect wait elapsed, and (not DPR or always_reconnect); "
    "_connect_to_peer creates no socket when the peer has a connection or no address; the "
    "registration in _add_peer_connection re-checks under the node lock; start() dials persistent "
    "peers only; only these two places dial. A connection re-enters a ready state only through "
    "guarded stores (so a DISCONNECTING connection is never offered for routing again), and "
    "Peer.connection is cleared only by its owner (so a peer with a live connection is never "
    "dialled a second time).")
ASSUMPTIONS = [
    "not decided: timing of reconnect cycles over clock advances (needs execution)",
    "connect()/connectx() either succeed, raise EINPROGRESS or fail synchronously",
]


from .common_node import clock_sources


from .common_node import wake_fail


def run(ctx: Ctx):
    model = ctx.model
    from .common_node import names_resolve
    names_resolve(ctx, "C12-RN")
    from . import c18 as _c18
    ctx.include(_c18.run, {"C18-R2"}, "C12-R16",
                "a connection that is registered while the node is stopping is refused, dialled "
                "ones included (`unless the node is stopping`)", floor=1,
                constructs=lambda c: c.startswith("_add_peer_connection:refuse-while-stopping"))
    nc = model.cls("node.node", "Node")
    peer_mod = model.module("node.peer")
    C = lambda n: model.fold_name(peer_mod, n)

    # ---------------- R1 DPR / DPA / send_dpr --------------------------------------
    ctx.rule("C12-R1", "receive_dpr: one path - 2001 DPA, DISCONNECTING, reason DPR, one send; "
                       "receive_dpa -> CLOSING + attention; send_dpr: REBOOTING, DISCONNECTING", floor=3)
    f = nc.methods.get("receive_dpr")
    if f is None:
        raise AnalysisError("Node.receive_dpr not found")
    ctx.use(f)
    g = cfg_of(f)
    at = Atomizer(model, f.module, nc)
    conn = [a.arg for a in f.node.args.args][1]
    cons = "Node.receive_dpr"
    ctx.inst(cons)
    probs = []
    sends = [n for n in g.nodes if n.has_call("send_message")]
    if len(sends) != 1 or not g.dominated(g.exit, sends):
        probs.append("does not send exactly one DPA on every path")
    stores = {}
    for n in g.nodes:
        if n.kind == "stmt":
            for t in n.stores():
                stores.setdefault(A.dotted(t), []).append(n)
    rc = [n for k, v in stores.items() if k.endswith(".result_code") for n in v]
    if not rc or model.try_fold(rc[0].ast.value, f.module) != 2001:
        probs.append("Result-Code of the DPA is not 2001")
    st = stores.get(f"{conn}.state", [])
    if len(st) != 1 or model.try_fold(st[0].ast.value, f.module) != C("PEER_DISCONNECTING") \
            or not g.dominated(g.exit, st):
        probs.append("the connection is not put into PEER_DISCONNECTING on every path (it stays "
                     "offered for routing after the DPA)")
    dr = [n for k, v in stores.items() if k.endswith(".disconnect_reason") for n in v]
    if not dr or model.try_fold(dr[0].ast.value, f.module) != C("DISCONNECT_REASON_DPR"):
        probs.append("the peer's disconnect reason does not record the DPR")
    else:
        recv = A.dotted([t for t in dr[0].stores() if isinstance(t, ast.Attribute)][0].value)
        facts = must_facts(g, at, dr[0])
        # the one condition besides "the peer is known": the connection is the peer's own (the
        # DPR of another connection that merely names the peer says nothing about the peer's)
        own = [x for x in facts if (x[0] == f"{recv}.connection" and x[1] == "is-expr" and x[2] == conn and x[3] is True)
               or (x[1] == "==x" and {x[0], x[2]} == {f"{recv}.connection", conn} and x[3] is True)]
        others = [x for x in facts if x[0] != recv and x not in own]
        if others:
            probs.append(f"the DPR reason is only recorded under {others}")
        if not own:
            probs.append(f"the DPR reason is recorded on the peer although the connection is not known to be "
                         f"the peer's own (`{recv}.connection is {conn}`): a DPR on a second connection that "
                         f"merely names the peer marks the peer as disconnected by DPR, and the loss of its "
                         f"own connection is then never followed by a redial")
        pdef = [n for n in g.nodes if n.kind == "stmt" and any(
            isinstance(t, ast.Name) and t.id == recv for t in n.stores())]
        if not pdef or not A.call_name(pdef[0].ast.value).endswith("_find_connection_peer"):
            probs.append("the peer is not looked up with _find_connection_peer(conn)")
    if not any(isinstance(getattr(n.ast, "value", None), ast.Call)
               and A.call_name(n.ast.value) == "self._generate_answer" for n in g.nodes if n.kind == "stmt"):
        probs.append("the DPA is not built from the DPR")
    for p in probs:
        ctx.fail(cons, f.loc(), f"receive_dpr {p}")
        break
    # ... on exceptional paths too: nothing that can raise on what the peer sent precedes the state
    # change (an exception there is swallowed by _receive_message and answered 5012: the connection
    # stays ready, is routed to, and answers are still transmitted behind the peer's DPR)
    if len(st) == 1:
        from ..effects import effects_of
        Ed = effects_of(model)
        ge = cfg_of(f, effects=Ed)
        est = [n for n in ge.nodes if n.kind == "stmt" and any(A.dotted(t) == f"{conn}.state" for t in n.stores())]
        before = ge.reach([ge.entry], blocked=est)
        PEERDEP = {"AttributeError", "UnicodeDecodeError", "TypeError", "KeyError", "IndexError", "ValueError"}
        esc = sorted((n for n in before if set(n.raises or ()) & PEERDEP
                      and any(l in ("exc", "raise") for l, _ in n.succ)), key=lambda n: n.line)
        ctx.inst(cons + "#raises-first")
        if esc:
            ctx.fail(cons + "#raises-first", ge.loc(esc[0]), f"`{esc[0].text(80)}` can raise "
                     f"({sorted(set(esc[0].raises) & PEERDEP)}) before the connection is put into PEER_DISCONNECTING: "
                     f"the DPR is answered 5012 by the error handler, the connection remains ready, "
                     f"requests are routed to it and application answers are transmitted after the DPR "
                     f"({'; '.join(Ed.why_at(f, sorted(set(esc[0].raises) & PEERDEP)[0], esc[0].line))[:200]})")
    f = nc.methods.get("receive_dpa")
    cons = "Node.receive_dpa"
    ctx.inst(cons)
    if f is None:
        ctx.error("Node.receive_dpa not found")
    else:
        ctx.use(f)
        g = cfg_of(f)
        conn = [a.arg for a in f.node.args.args][1]
        st = [n for n in g.nodes if n.kind == "stmt" and any(A.dotted(t) == f"{conn}.state" for t in n.stores())]
        att = [n for n in g.nodes if any(A.call_name(c) == f"{conn}.demand_attention" for c in n.calls())]
        if len(st) != 1 or model.try_fold(st[0].ast.value, f.module) != C("PEER_CLOSING") \
                or not g.dominated(g.exit, st):
            ctx.fail(cons, f.loc(), "a DPA does not put the connection into PEER_CLOSING")
        elif not att or not g.dominated(g.exit, att):
            ctx.fail(cons, f.loc(), "a DPA does not wake the I/O loop (demand_attention): the "
                     "connection is only closed at the next unrelated wake-up")
        elif not g.always_followed(st[0], att, exits=[g.exit]):
            wake_fail(ctx, cons + "#publish-then-signal", g.loc(st[0]), "the I/O loop is woken before the "
                     "connection is put into PEER_CLOSING (no wake-up follows the state store): if "
                     "the node thread handles the wake-up in that gap it still sees DISCONNECTING, "
                     "does nothing, and nobody signals again - the connection lingers until the "
                     "wait timeout although the DPA arrived")
    f = nc.methods.get("send_dpr")
    cons = "Node.send_dpr"
    ctx.inst(cons)
    if f is None:
        ctx.error("Node.send_dpr not found")
    else:
        ctx.use(f)
        g = cfg_of(f)
        conn = [a.arg for a in f.node.args.args][1]
        stores = {}
        for n in g.nodes:
            if n.kind == "stmt":
                for t in n.stores():
                    stores.setdefault(A.dotted(t), []).append(n)
        cause = [n for k, v in stores.items() if k.endswith(".disconnect_cause") for n in v]
        consts = model.module("message.constants")
        st = stores.get(f"{conn}.state", [])
        sends = [n for n in g.nodes if n.has_call("send_message")]
        if not cause or model.try_fold(cause[0].ast.value, f.module) != \
                model.fold_name(consts, "E_DISCONNECT_CAUSE_REBOOTING"):
            ctx.fail(cons, f.loc(), "Disconnect-Cause of the DPR is not REBOOTING")
        elif len(st) != 1 or model.try_fold(st[0].ast.value, f.module) != C("PEER_DISCONNECTING"):
            ctx.fail(cons, f.loc(), "send_dpr does not put the connection into PEER_DISCONNECTING")
        elif len(sends) != 1 or not g.dominated(g.exit, sends):
            ctx.fail(cons, f.loc(), "send_dpr does not send exactly one DPR")

    # ---------------- R2 reconnect guard chain ------------------------------------
    ctx.rule("C12-R2", "guard chain in front of _connect_to_peer in _reconnect_peers", floor=7)
    f = nc.methods.get("_reconnect_peers")
    if f is None:
        raise AnalysisError("Node._reconnect_peers not found")
    ctx.use(f)
    g = cfg_of(f)
    at = Atomizer(model, f.module, nc)
    calls = [n for n in g.nodes if n.has_call("_connect_to_peer")]
    if len(calls) != 1:
        raise AnalysisError(f"expected one _connect_to_peer call in _reconnect_peers, found {len(calls)}")
    cn = calls[0]
    call = [c for c in cn.calls() if A.call_name(c).endswith("_connect_to_peer")][0]
    p = ast.unparse(call.args[0]) if call.args else "?"
    facts = must_facts(g, at, cn)
    DPR = C("DISCONNECT_REASON_DPR")
    need = [
        ("not-stopping", ("self._stopping", "truthy", None, False) in facts,
         "the node is not stopping"),
        ("persistent", (f"{p}.persistent", "truthy", None, True) in facts,
         "the peer is persistent (non-persistent peers are never dialled)"),
        ("no-connection", (f"{p}.connection", "truthy", None, False) in facts
         or (f"{p}.connection", "is", None, True) in facts,
         "the peer has no connection (never two self-initiated connections)"),
        ("was-disconnected", (f"{p}.last_disconnect", "truthy", None, True) in facts,
         "a disconnect has been recorded"),
        ("wait-elapsed", (f"{p}.reconnect_wait", ">", f"{p}.disconnected_since", False) in facts,
         "disconnected_since >= reconnect_wait"),
    ]
    for key, ok, text in need:
        cons = f"_reconnect_peers:{key}"
        ctx.inst(cons)
        if not ok:
            ctx.fail(cons, g.loc(cn), f"_connect_to_peer is reachable without the guard: {text}")
    cons = "_reconnect_peers:dpr-policy"
    ctx.inst(cons)
    ok = guarded_any(g, at, cn, [
        lambda a: False if (a.subject == f"{p}.disconnect_reason" and a.op == "==" and a.value == DPR) else None,
        lambda a: True if (a.subject == f"{p}.always_reconnect" and a.op == "truthy") else None])
    if not ok:
        ctx.fail(cons, g.loc(cn), "a peer that disconnected with a DPR and is not marked "
                 "always_reconnect can be dialled again")
    # ... and under no further condition: the policy names every exception
    cons = "_reconnect_peers:no-extra-guard"
    known_attrs = {"persistent", "connection", "last_disconnect", "reconnect_wait", "disconnected_since",
                   "disconnect_reason", "always_reconnect"}
    ctx.inst(cons, sample=[list(map(str, x)) for x in facts])
    import re as _re
    for fx in facts:
        txt = f"{fx[0]} {fx[2] if isinstance(fx[2], str) else ''}"
        extra_self = [a for a in _re.findall(r"\bself\.(\w+)", txt) if a not in ("_stopping", "peers")]
        extra_peer = [a for a in _re.findall(rf"\b{_re.escape(p)}\.(\w+)", txt) if a not in known_attrs]
        if extra_self or extra_peer:
            ctx.fail(cons, g.loc(cn), f"the redial is additionally conditioned on {fx}: a persistent "
                     f"peer whose wait has elapsed (no DPR, node running, no connection) is not "
                     f"dialled while that condition is false")
            break
    cons = "_reconnect_peers:iterates-peers"
    ctx.inst(cons)
    loops = [n for n in g.nodes if n.kind == "iter"]
    if not loops or "self.peers" not in ast.unparse(loops[0].ast.iter) \
            or ast.unparse(loops[0].ast.target) != p:
        ctx.fail(cons, f.loc(), "reconnect pass does not visit every configured peer")
    cons = "_reconnect_peers:isolated"
    ctx.inst(cons)
    trys = [x for x in cn.lexical if isinstance(x, ast.Try)]
    if not any(any(h.type is None or ast.unparse(h.type) in ("Exception", "BaseException")
                   for h in t.handlers) for t in trys):
        ctx.fail(cons, g.loc(cn), "a failing dial is not isolated by try/except Exception: one "
                 "unreachable peer stops the I/O loop")
    ds = model.cls("node.peer", "Peer").methods.get("disconnected_since")
    cons = "Peer.disconnected_since"
    ctx.inst(cons)
    if ds is None:
        ctx.error("Peer.disconnected_since not found")
    else:
        rets = [n for n in ast.walk(ds.node) if isinstance(n, ast.Return) and n.value is not None]
        if not any(isinstance(r.value, ast.BinOp) and isinstance(r.value.op, ast.Sub)
                   and clock_sources(model, ds.module, r.value.left, ds.cls)
                   and A.dotted(r.value.right) == "self.last_disconnect" for r in rets):
            ctx.fail(cons, ds.loc(), "disconnected_since is not `now - last_disconnect`")
        gd = cfg_of(ds)
        atd = Atomizer(model, ds.module, ds.cls)
        for n in gd.nodes:
            if n.kind == "stmt" and isinstance(n.ast, ast.Return) and n.ast.value is not None \
                    and not (isinstance(n.ast.value, ast.BinOp)):
                facts = must_facts(gd, atd, n)
                if ("self.last_disconnect", "truthy", None, False) not in facts and \
                        ("self.last_disconnect", "is", None, True) not in facts:
                    ctx.fail(cons + "#sentinel", gd.loc(n), f"disconnected_since returns "
                             f"`{ast.unparse(n.ast.value)}` although a disconnect has been recorded "
                             f"(guards: {sorted(map(str, facts))}): a persistent peer whose dial fails in "
                             f"the same second is never dialled again")

    # ---------------- R3 duplicate-dial guards -------------------------------------
    ctx.rule("C12-R3", "_connect_to_peer / _add_peer_connection / start() duplicate-dial guards",
             floor=4)
    f = nc.methods.get("_connect_to_peer")
    if f is None:
        raise AnalysisError("Node._connect_to_peer not found")
    ctx.use(f)
    g = cfg_of(f)
    at = Atomizer(model, f.module, nc)
    p = [a.arg for a in f.node.args.args][1]
    socks = [n for n in g.nodes if n.kind == "stmt" and any(
        A.call_name(c) in ("socket.socket", "sctp.sctpsocket_tcp") for c in n.calls())]
    conns = [n for n in g.nodes if n.kind == "stmt" and any(
        A.call_name(c) == "PeerConnection" for c in n.calls())]
    ctx.inst("_connect_to_peer:guards", sample=[g.loc(n) for n in socks])
    if not socks:
        ctx.error("_connect_to_peer creates no socket")
    for n in socks + conns:
        facts = must_facts(g, at, n)
        if not ((f"{p}.connection", "truthy", None, False) in facts
                or (f"{p}.connection", "is", None, True) in facts):
            ctx.fail("_connect_to_peer:guards", g.loc(n), "a socket/connection is created although "
                     "the peer may already have a connection")
            break
        if (f"{p}.ip_addresses", "truthy", None, True) not in facts:
            ctx.fail("_connect_to_peer:guards#address", g.loc(n), "a socket is created for a peer "
                     "without a configured address")
            break
    # dial result: connection registered before connect(); refusal stops dialling
    regs = [n for n in g.nodes if n.has_call("_add_peer_connection")]
    dials = [n for n in g.nodes if n.kind == "stmt" and any(
        isinstance(c.func, ast.Attribute) and c.func.attr in ("connect", "connectx") for c in n.calls())]
    ctx.inst("_connect_to_peer:register-before-dial")
    for d in dials:
        if not g.dominated(d, regs):
            ctx.fail("_connect_to_peer:register-before-dial", g.loc(d), "connect() is issued for a "
                     "connection that is not registered (a second dial can start meanwhile)")
    add = nc.methods.get("_add_peer_connection")
    ctx.use(add)
    ga = cfg_of(add)
    ata = Atomizer(model, add.module, nc)
    cparam = [a.arg for a in add.node.args.args][1]
    regstores = [n for n in ga.nodes if n.kind == "stmt" and any(
        isinstance(t, ast.Subscript) and A.dotted(t.value) == "self.connections" for t in n.stores())]
    ctx.inst("_add_peer_connection:recheck")
    if len(regstores) != 1:
        ctx.error("expected one registration store in _add_peer_connection")
    else:
        r = regstores[0]
        if "self._busy_lock" not in held_locks(add, r.ast):
            ctx.fail("_add_peer_connection:recheck#lock", ga.loc(r), "the registration is not done "
                     "under self._busy_lock: two threads can both pass the already-connected check")
        # reachable only if NOT (node_name and known and peers[..].connection)
        ok = guarded_any(ga, ata, r, [
            lambda a: False if (a.subject == f"{cparam}.node_name" and a.op == "truthy") else None,
            lambda a: False if (a.op == "in-expr" and a.subject == f"{cparam}.node_name"
                                and a.value == "self.peers") else None,
            lambda a: False if (a.subject == f"self.peers[{cparam}.node_name].connection"
                                and a.op == "truthy") else None])
        if not ok:
            ctx.fail("_add_peer_connection:recheck", ga.loc(r), "a connection for a named peer is "
                     "registered without re-checking that the peer has no connection yet: two "
                     "self-initiated connections to one peer")
        # the check itself is inside the lock
        tests = [n for n in ga.nodes if n.kind == "test"
                 and n.text().replace(" ", "") == f"self.peers[{cparam}.node_name].connection"]
        for t in tests:
            if "self._busy_lock" not in [ast.unparse(i.context_expr) for w in t.lexical
                                         if isinstance(w, ast.With) for i in w.items]:
                ctx.fail("_add_peer_connection:recheck#lock", ga.loc(t), "the already-connected "
                         "check is made outside self._busy_lock")
    st = nc.methods.get("start")
    ctx.inst("Node.start:persistent-only")
    if st is None:
        ctx.error("Node.start not found")
    else:
        gs = cfg_of(st)
        ats = Atomizer(model, st.module, nc)
        for n in gs.nodes:
            for c in n.calls():
                if A.call_name(c).endswith("_connect_to_peer"):
                    pv = ast.unparse(c.args[0])
                    if (f"{pv}.persistent", "truthy", None, True) not in must_facts(gs, ats, n):
                        ctx.fail("Node.start:persistent-only", gs.loc(n), "start() dials a peer "
                                 "that is not persistent")
    ctx.inst("_connect_to_peer:callers")
    callers = sorted({c.func.qualname for c in call_sites(model, "_connect_to_peer")})
    if callers != ["Node._reconnect_peers", "Node.start"]:
        ctx.fail("_connect_to_peer:callers", f.loc(), f"_connect_to_peer is called from {callers}; "
                 f"only start() and _reconnect_peers() apply the dial policy")

    # ---------------- R4 / R5 shared rules -------------------------------------------
    peer_connection_ownership(ctx, "C12-R4")
    disconnect_record(ctx, "C12-R4b")
    ready_state_stores(ctx, "C12-R5")
    from .common_node import ready_substate_transitions_atomic
    ready_substate_transitions_atomic(ctx, "C12-R5b")
    ready_constants(ctx, "C12-R6")
    from . import c06, c14
    ctx.include(c06.run, {"C06-R1"}, "C12-R7",
                "dispatch gate: in every state other than CONNECTED / CLOSING / CLOSED a received "
                "DPR reaches receive_dpr (nothing is dropped in READY, READY_WAITING_DWA or "
                "DISCONNECTING, e.g. a DPR crossing our own)", floor=9)
    ctx.include(c14.run, {"C14-R4"}, "C12-R8",
                "the I/O loop that runs _reconnect_peers iterates snapshots of the tables its "
                "own body resizes (a RuntimeError there ends the thread and with it every redial)",
                floor=6)
    from .common_node import socket_close_confined
    socket_close_confined(ctx, "C12-R9")
    # the reconnect scan is due in every round of the I/O loop, also in busy ones
    # the end-of-file of a peer that sends DPR and hangs up at once
    ctx.rule("C12-R14", "a DPR that has been received is acted upon before the loss of the connection "
                        "is: the end of the stream does not overtake input still queued for the reader", floor=1)
    hc_ = nc.methods.get("_handle_connections")
    gh_ = cfg_of(hc_)
    ath_ = Atomizer(model, hc_.module, nc)
    GONE = model.fold_name(peer_mod, "DISCONNECT_REASON_GONE_AWAY") if False else None
    cons = "_handle_connections:eof-after-queued-input"
    ctx.inst(cons)
    eof_sites = []
    for n in gh_.nodes:
        for c in n.calls():
            if A.call_name(c) == "self.close_connection_socket" and len(c.args) >= 2 \
                    and "GONE_AWAY" in ast.unparse(c.args[1]):
                eof_sites.append((n, A.dotted(c.args[0])))
    if not eof_sites:
        ctx.error("no GONE_AWAY close site found in _handle_connections", rule="C12-R14")
    for n, cv in eof_sites:
        fx = must_facts(gh_, ath_, n)
        considers_queue = any("_read_buffer_queue" in str(f_[0]) or "unread" in str(f_[0]) or "pending_input" in str(f_[0])
                              for f_ in fx)
        via_queue = False
        if not considers_queue and not via_queue:
            ctx.fail(cons, gh_.loc(n), f"when recv() returns no bytes the I/O thread removes `{cv}` at once, "
                     f"while bytes it read just before may still wait in the connection's read queue: a "
                     f"peer that sends its DPR and hangs up without waiting for the DPA is recorded as "
                     f"GONE_AWAY (the queued DPR is then dropped by the closed connection) and is dialled "
                     f"again although the loss followed a DPR")
    ctx.rule("C12-R15", "the reconnect wait is measured without losing up to a second to truncation", floor=1)
    cons = "_reconnect_peers:wait#whole-seconds"
    ctx.inst(cons)
    peer_cls_ = model.cls("node.peer", "Peer")
    ds_ = peer_cls_.methods.get("disconnected_since")
    rem_ = nc.methods.get("remove_peer_connection")
    trunc_read = ds_ is not None and any(isinstance(x, ast.BinOp) and isinstance(x.op, ast.Sub)
                                         and isinstance(x.left, ast.Call) and A.call_name(x.left) == "int"
                                         for x in ast.walk(ds_.node))
    trunc_stamp = rem_ is not None and any(
        isinstance(x, ast.Assign) and any(isinstance(t, ast.Attribute) and t.attr == "last_disconnect" for t in x.targets)
        and isinstance(x.value, ast.Call) and A.call_name(x.value) == "int" for x in ast.walk(rem_.node))
    rp_ = nc.methods.get("_reconnect_peers")
    strict_lt = rp_ is not None and any(
        isinstance(x, ast.Compare) and len(x.ops) == 1 and isinstance(x.ops[0], ast.Lt)
        and "disconnected_since" in ast.unparse(x.left) and "reconnect_wait" in ast.unparse(x.comparators[0])
        for x in ast.walk(rp_.node))
    if trunc_read and trunc_stamp and strict_lt:
        ctx.fail(cons, rp_.loc(), "the loss is stamped int(time.time()), the elapsed time is int(now) - stamp "
                 "and the peer is skipped while that is < reconnect_wait: both truncations can add up to "
                 "almost a second, so a peer lost at t=5000.9 with reconnect_wait=1 is dialled at "
                 "t=5001.0, 0.1 s after the loss")
    from .common_node import io_loop_every_round
    io_loop_every_round(ctx, "C12-R10", want=("reconnect",))
    # writer, readers and purge of the flat transaction tables agree on the key
    from .common_node import transaction_table_keys
    transaction_table_keys(ctx, "C12-R12")
    from .common_node import close_is_thread_tolerant
    close_is_thread_tolerant(ctx, "C12-R13")
    from .common_node import clock_agreement
    clock_agreement(ctx, "C12-R11", {("node.peer", "Peer", "last_disconnect"): ["disconnected_since"]})
