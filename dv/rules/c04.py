"""C04 - decoding hostile bytes terminates and raises only library decode errors."""
from __future__ import annotations

import ast
import struct as _struct

from ..report import Ctx
from ..srcmodel import AnalysisError
from ..cfg import cfg_of
from ..atoms import Atomizer, must_facts
from ..effects import effects_of
from .. import astutil as A

TECHNIQUE = "exception-escape (raise-set) inference + CFG progress/guard queries on the decoders"
EXPLANATION = (
    "Effect analysis: a compositional raise-set inference (fix point over resolved calls, "
    "handler subtraction with the exception hierarchy, repository decorators interpreted "
    "through their wrapper body, documented value-dependent raisers of struct/socket/bytes/"
    "datetime as primitives) bounds the exceptions that can escape every decode entry point "
    "for arbitrary byte values; it is value independent, hence covers every hostile input. "
    "CFG queries decide that each decode loop consumes >= 8 bytes per iteration or raises, "
    "and that every Unpacker read is length-enforced (no over-read, no silent short read).")
ASSUMPTIONS = [
    "out of model: exceptions caused by ill-typed values (TypeError/AttributeError on None), "
    "KeyError/IndexError on unchecked subscripts, MemoryError, RecursionError",
    "library primitives raise only what the table in dv/effects.py lists for them",
    "datetime.fromtimestamp is total on [year 1 + 1 day, year 9999 - 1 day] (64-bit time_t)",
    "not decided: a linear-time bound beyond the per-iteration progress; recursion depth of nested grouped AVPs",
]

DECODE_OK = {"AvpDecodeError"}
MSG_OK = {"ConversionError", "Error", "AvpDecodeError"}


def _subset(E, raised, allowed) -> set[str]:
    return {e for e in raised if not any(E.is_sub(e, a) for a in allowed)}


def run(ctx: Ctx):
    model = ctx.model
    E = effects_of(model)
    avp_mod = model.module("message.avp.avp")
    base_mod = model.module("message._base")
    pk_mod = model.module("message.packer")
    ctx.use(avp_mod, base_mod, pk_mod)
    ctx.note(f"raise-set fix point: {E.iterations} iterations over {len(E.funcs)} functions")
    for w, q, what, iv in {(a, b, c, d) for a, b, c, d in E.suppressed}:
        ctx.note(f"suppressed {what} at {w} ({q}): argument interval {iv} inside datetime range")

    # ---------------- R1 escape sets ------------------------------------
    ctx.rule("C04-R1", "exceptions escaping the decode / render entry points", floor=18)
    avp_cls = avp_mod.classes.get("Avp")
    if avp_cls is None:
        raise AnalysisError("class Avp not found")
    entries = []
    for c in [avp_cls] + model.subclasses(avp_cls):
        g = c.methods.get("value")
        if g is not None and g.is_property:
            entries.append((g, DECODE_OK, f"{c.name}.value"))
    for q, allowed in (("Avp.from_bytes", DECODE_OK), ("Avp.from_unpacker", {"ConversionError"}),
                       ("Avp.__str__", set())):
        entries.append((model.func("message.avp.avp", q), allowed, q))
    for q, allowed in (("MessageHeader.from_bytes", {"ConversionError"}),
                       ("Message.from_bytes", MSG_OK), ("MessageHeader.__str__", set()),
                       ("Message.__str__", set())):
        entries.append((model.func("message._base", q), allowed, q))
    # the recursive AVP renderer behind message.dump(): given decoded AVPs it renders every one of
    # them, descending into groups.  (dump() itself first asks a typed message for its AVP list,
    # which re-encodes the attributes - an encode question, not part of this property.)
    init_mod = model.module("message")
    if "_dump_avps" in init_mod.funcs:
        entries.append((init_mod.funcs["_dump_avps"], set(), "message._dump_avps"))
    # str() of every Message subclass that overrides it
    mcls = base_mod.classes["Message"]
    for c in model.subclasses(mcls):
        if "__str__" in c.methods:
            entries.append((c.methods["__str__"], set(), f"{c.name}.__str__"))
    for c in model.subclasses(avp_cls):
        if "__str__" in c.methods:
            entries.append((c.methods["__str__"], set(), f"{c.name}.__str__"))
    for f, allowed, name in entries:
        ctx.use(f)
        r = E.raises(f)
        bad = _subset(E, r, allowed)
        ctx.inst(name, sample={"entry": name, "raises": sorted(r), "allowed": sorted(allowed)})
        for e in sorted(bad):
            chain = E.why(f, e)
            ctx.fail(f"{name}:{e}", chain[-1].split(": ")[0] if chain else f.loc(),
                     f"{e} can escape {name} (allowed: {sorted(allowed) or 'nothing'})",
                     steps=chain, expected=str(sorted(allowed)), observed=e)

    # ---------------- R2 decode loops progress ----------------------------
    ctx.rule("C04-R2", "every `while not <unpacker>.is_done()` loop consumes input on every "
                       "iteration or raises", floor=3)
    loops = 0
    for m in model.modules.values():
        if ".message" not in m.name:
            continue
        fns = list(m.funcs.values()) + [f for c in m.classes.values() for f in c.all_funcs]
        for f in fns:
            whiles = [n for n in A.walk_no_nested(f.node) if isinstance(n, ast.While)
                      and "is_done()" in ast.unparse(n.test)]
            if not whiles:
                continue
            g = cfg_of(f, effects=E)
            for w in whiles:
                loops += 1
                cons = f"{f.qualname}:decode-loop"
                t = w.test
                while isinstance(t, ast.UnaryOp):
                    t = t.operand
                u = A.dotted(t.func.value) if isinstance(t, ast.Call) else ""
                head = [n for n in g.nodes if n.kind == "loop" and n.ast is w][0]
                adv = [n for n in g.nodes if n.kind == "stmt" and any(
                    A.call_name(c) == "Avp.from_unpacker" and c.args
                    and A.dotted(c.args[0]) == u for c in n.calls())]
                ctx.inst(cons, sample={"where": f.loc(w), "unpacker": u,
                                       "advancing": [g.loc(n) for n in adv]})
                body = [d for l, d in head.succ]
                r = g.reach(body, normal_blocked=adv)
                if head in r:
                    ctx.fail(cons, f.loc(w), f"the decode loop over `{u}` can start another "
                             f"iteration without a completed Avp.from_unpacker({u}): it does "
                             f"not consume input and never terminates on malformed bytes")
                # nobody rewinds the cursor inside the loop
                for n in A.walk_no_nested(w):
                    if isinstance(n, ast.Call) and A.call_name(n) in (f"{u}.set_position", f"{u}.reset"):
                        ctx.fail(cons + "#rewind", f.loc(n), "cursor is repositioned inside the decode loop")
    ctx.note(f"decode loops found: {loops}")
    gv = avp_mod.classes.get("AvpGrouped")
    gg = gv.methods.get("value") if gv else None
    ctx.inst("AvpGrouped.value:cache-after-decode")
    if gg is None:
        ctx.error("AvpGrouped.value not found")
    else:
        g2 = cfg_of(gg, effects=E)
        caches = [n for n in g2.nodes if n.kind == "stmt" and any(
            A.dotted(t) == "self._avps" for t in n.stores())]
        dec = [n for n in g2.nodes if n.kind == "stmt" and any(
            A.call_name(c) == "Avp.from_unpacker" for c in n.calls())]
        for c in caches:
            if any(g2.can_reach(c, d) for d in dec):
                ctx.fail("AvpGrouped.value:cache-after-decode", g2.loc(c),
                         "the list of decoded children is cached on the AVP before decoding has "
                         "finished: when a child is malformed the first read raises AvpDecodeError "
                         "but every later read silently returns the partial list")
    # nothing reachable from a decode loop body repositions an unpacker
    fu0 = model.func("message.avp.avp", "Avp.from_unpacker")
    reach = E.reachable_funcs([fu0])
    ctx.inst("decode-loop-callees:no-rewind", sample=[g_.qualname for g_ in reach][:12])
    for g_ in reach:
        if g_.cls is not None and g_.cls.name == "Unpacker" and g_.name in ("set_position", "reset",
                                                                             "__init__"):
            continue
        for n in A.walk_no_nested(g_.node):
            if isinstance(n, ast.Call) and isinstance(n.func, ast.Attribute) \
                    and n.func.attr in ("set_position", "reset"):
                rc = E.recv_class(n.func.value, g_)
                if rc is None or getattr(rc, "name", "") == "Unpacker":
                    # a forward reposition is harmless: `<start> + f(<declared length>)` where start
                    # is the cursor at entry and the node is behind the guard that rejects a
                    # declared length shorter than the header (then f(length) >= header size)
                    if n.func.attr == "set_position" and n.args and isinstance(n.args[0], ast.BinOp) \
                            and isinstance(n.args[0].op, ast.Add):
                        gq = cfg_of(g_)
                        atq = Atomizer(model, g_.module, g_.cls)
                        qn = [x for x in gq.nodes if x.kind == "stmt" and x.ast is not None
                              and any(c is n for c in x.calls())]
                        startv = [A.dotted(x.targets[0]) for x in A.walk_no_nested(g_.node)
                                  if isinstance(x, ast.Assign) and isinstance(x.value, ast.Call)
                                  and A.call_name(x.value).endswith(".get_position")]
                        fx = must_facts(gq, atq, qn[0]) if qn else set()
                        lower_bounded = any(f_[3] is False and (
                            (f_[1] == "<" and str(f_[2]) == "0") or (f_[1] == ">" and str(f_[0]) == "0"))
                            for f_ in fx)
                        if startv and A.dotted(n.args[0].left) in startv and lower_bounded:
                            continue
                    ctx.fail("decode-loop-callees:no-rewind", g_.loc(n),
                             f"{g_.qualname} (reached from every decode loop through "
                             f"Avp.from_unpacker) repositions the unpacker cursor with "
                             f"`{ast.unparse(n)}`: with a hostile length field the cursor can "
                             f"move backwards and the decode loop never terminates")
    fu = model.func("message.avp.avp", "Avp.from_unpacker")
    g = cfg_of(fu, effects=E)
    param = [a.arg for a in fu.node.args.args][1]
    reads = [n for n in g.nodes if n.kind == "stmt" and any(
        A.call_name(c) == f"{param}.unpack_uint" for c in n.calls())]
    uncond = [n for n in reads if g.dominated(g.exit, [n])]
    ctx.inst("Avp.from_unpacker:header-reads", sample=[g.loc(n) for n in uncond])
    if len(uncond) < 2:
        ctx.fail("Avp.from_unpacker:header-reads", fu.loc(),
                 f"Avp.from_unpacker performs {len(uncond)} unconditional unpack_uint reads; "
                 f"two (code, flags+length = 8 bytes) are what makes every decode loop progress")

    # a length field smaller than the header is rejected, not read as "no payload"
    cons = "Avp.from_unpacker:length-covers-header"
    ctx.inst(cons)
    g0 = cfg_of(fu)
    at0 = Atomizer(model, fu.module, fu.cls)
    lenvars = set()
    for n in A.walk_no_nested(fu.node):
        if isinstance(n, ast.AugAssign) and isinstance(n.op, ast.Sub) and isinstance(n.target, ast.Name):
            lenvars.add(n.target.id)
        if isinstance(n, ast.Assign) and isinstance(n.value, ast.BinOp) and isinstance(n.value.op, ast.Sub) \
                and len(n.targets) == 1 and isinstance(n.targets[0], ast.Name):
            lenvars.add(n.targets[0].id)
    rets0 = [n for n in g0.nodes if n.kind == "stmt" and isinstance(n.ast, ast.Return)]
    if not lenvars:
        ctx.error("Avp.from_unpacker: no payload-length variable (length minus header) found", rule="C04-R2")
    for r in rets0:
        fx = must_facts(g0, at0, r)
        okl = any((f_[0] == "0" and f_[1] == ">" and f_[2] in lenvars and f_[3] is False)
                  or (f_[0] in lenvars and f_[1] == ">" and str(f_[2]) in ("-1",) and f_[3] is True)
                  for f_ in fx)
        if not okl:
            ctx.fail(cons, g0.loc(r), f"Avp.from_unpacker returns an AVP without having rejected a "
                     f"negative payload length ({sorted(lenvars)} = length field minus header size): a "
                     f"nested AVP declaring fewer bytes than its own header is accepted with an empty "
                     f"payload and the rest of the group is parsed from the wrong offset, instead of "
                     f"the documented decode error")
            break

    # ---------------- R3 Unpacker reads are length-enforced ------------------
    ctx.rule("C04-R3", "every advancing Unpacker method returns length-enforced data "
                       "(no over-read, no silent short read)", floor=5)
    up = pk_mod.classes.get("Unpacker")
    if up is None:
        raise AnalysisError("Unpacker not found")
    pos, buf = "self.__pos", "self.__buf"
    for f in up.all_funcs:
        stores_pos = [n for n in A.walk_no_nested(f.node) if isinstance(n, (ast.Assign, ast.AugAssign))
                      and any(A.dotted(t) == pos for t in A.store_targets(n))]
        if not stores_pos or f.name in ("reset", "set_position", "__init__"):
            continue
        cons = f"Unpacker.{f.name}"
        ctx.use(f)
        _check_unpack_method(ctx, model, E, f, cons, pos, buf)
    # is_done
    isd = up.methods.get("is_done")
    ctx.inst("Unpacker.is_done")
    ok = False
    if isd is not None:
        rets = [n for n in ast.walk(isd.node) if isinstance(n, ast.Return)]
        if len(rets) == 1:
            at = Atomizer(model, pk_mod, up)
            a = at.atom(rets[0].value)
            # pos >= len(buf)  ==  not (len(buf) > pos)
            ok = (a.op == ">" and a.subject == f"len({buf})" and a.value == pos and a.flip)
    if not ok:
        ctx.fail("Unpacker.is_done", isd.loc() if isd else up.loc(),
                 "is_done() must be `position >= len(buffer)`; otherwise a decode loop runs "
                 "past the end or stops early")

    # the decoders read the bytes they were given and no others: what an Unpacker is built over is
    # the received buffer (a parameter, self.payload) or a slice of it - never a buffer that was
    # lengthened, padded or re-assembled, from which AVPs would be decoded that occupy more bytes
    # than were supplied
    n_up = 0
    for m in model.modules.values():
        if ".message" not in m.name:
            continue
        for f in list(m.funcs.values()) + [f_ for c in m.classes.values() for f_ in c.all_funcs]:
            ups = [n for n in A.walk_no_nested(f.node) if isinstance(n, ast.Call)
                   and A.call_name(n).split(".")[-1] == "Unpacker"]
            if not ups:
                continue
            params = {a.arg for a in f.node.args.args + f.node.args.kwonlyargs}

            def supplied(e, depth=0) -> bool:
                if isinstance(e, ast.Subscript):
                    return supplied(e.value, depth)
                if A.dotted(e) == "self.payload":
                    return True
                if isinstance(e, ast.Call) and A.call_name(e) in ("bytes", "memoryview") and len(e.args) == 1:
                    return supplied(e.args[0], depth)
                if isinstance(e, ast.Name):
                    defs = [d.value for d in A.walk_no_nested(f.node)
                            if isinstance(d, (ast.Assign, ast.AnnAssign)) and d.value is not None
                            and any(isinstance(t, ast.Name) and t.id == e.id for t in A.store_targets(d))]
                    aug = [d for d in A.walk_no_nested(f.node) if isinstance(d, ast.AugAssign)
                           and isinstance(d.target, ast.Name) and d.target.id == e.id]
                    if aug:
                        return False
                    if not defs:
                        return e.id in params
                    return depth < 4 and all(supplied(v, depth + 1) for v in defs) \
                        and (e.id in params or True)
                return False
            for u in ups:
                n_up += 1
                cons = f"{f.qualname}:unpacker-over-supplied-bytes"
                ctx.inst(cons)
                ctx.use(f)
                if len(u.args) != 1 or not supplied(u.args[0]):
                    ctx.fail(cons, f.loc(u), f"{f.qualname} decodes from `{A.resolve_local_chain(f.node, u.args[0])[:90] if u.args else ''}`, "
                             f"which is not (a slice of) the bytes it was given: padding or joining makes up "
                             f"octets the peer never sent, so a message cut inside an AVP's data is no longer "
                             f"rejected and the decoded AVPs occupy more bytes than were supplied",
                             expected="Unpacker(<parameter or self.payload, possibly sliced>)",
                             observed=ast.unparse(u)[:120])
    if n_up < 4:
        ctx.error(f"only {n_up} Unpacker construction sites found in the message package (expected >= 4)")

    # ---------------- R4 tolerant attribute assignment ------------------------
    ctx.rule("C04-R4", "assign_attr_from_defs reads scalar AVP values inside try/except "
                       "AvpDecodeError", floor=2)
    asg = model.func("message.commands._attributes", "assign_attr_from_defs")
    ctx.use(asg)
    par = A.parents(asg.node)
    n_loads = 0
    for n in A.walk_no_nested(asg.node):
        if isinstance(n, ast.Attribute) and n.attr == "value" and isinstance(n.ctx, ast.Load):
            p = par.get(n)
            if isinstance(p, ast.Call) and n in p.args and A.call_name(p) == asg.name:
                continue   # children handed to the recursive call (grouped value)
            n_loads += 1
            cons = f"assign_attr_from_defs:value-load#{n_loads}"
            ctx.inst(cons)
            x, ok = n, False
            while x in par:
                px = par[x]
                if isinstance(px, ast.Try) and any(x is b for b in px.body):
                    for h in px.handlers:
                        if any(E.is_sub("AvpDecodeError", t) for t in E.handler_types(h)):
                            ok = True
                x = px
            if not ok:
                ctx.fail("assign_attr_from_defs:value-load", asg.loc(n),
                         "a scalar avp.value is read outside try/except AvpDecodeError: one "
                         "undecodable AVP makes the whole message undecodable")
    if n_loads < 2:
        ctx.error(f"only {n_loads} scalar value loads found in assign_attr_from_defs")

    # ---------------- R5 the typed decoder recurses into grouped values only -----------------
    # assign_attr_from_defs treats the value of an AVP as a list of member AVPs exactly when the
    # definition has a container class; the dictionary decides what the value really is.  A
    # definition with a container whose (code, vendor) is a scalar AVP in the dictionary makes
    # the decoder iterate over an int / str / bytes: TypeError (or AttributeError) out of
    # Message.from_bytes for a well-formed message.
    from . import c03 as _c03
    ctx.include(_c03.run, {"C03-R2"}, "C04-R5",
                "a definition has a container class exactly when the dictionary types its AVP as "
                "Grouped (the typed decoder recurses into the value on the definition's word)",
                floor=2000, select=lambda fd: "has container" in fd.message)


def _calcsize(fmt: str):
    try:
        return _struct.calcsize(fmt)
    except Exception:
        return None


def _check_unpack_method(ctx, model, E, f, cons, pos, buf):
    g = cfg_of(f, effects=E)
    mod, cls = f.module, f.cls
    at = Atomizer(model, mod, cls)
    rets = [n for n in g.nodes if n.kind == "stmt" and isinstance(n.ast, ast.Return)
            and n.ast.value is not None]
    ctx.inst(cons, sample={"returns": [n.text(80) for n in rets]})
    if "raise_conversion_error" not in f.decorators:
        ctx.fail(cons + "#decorator", f.loc(), f"{cons} is not wrapped by raise_conversion_error: "
                 f"EOFError/struct.error escape instead of ConversionError")
    # locals
    defs: dict[str, ast.expr] = {}
    for n in A.walk_no_nested(f.node):
        if isinstance(n, ast.Assign):
            for t in n.targets:
                tt = [t]
                for x in tt:
                    if isinstance(x, ast.Name):
                        defs[x.id] = n.value
            # chained:  self.__pos = j = i + 4
            if len(n.targets) > 1:
                for t in n.targets:
                    if isinstance(t, ast.Name):
                        defs[t.id] = n.value

    def resolve(e, d=4):
        if isinstance(e, ast.Name) and e.id in defs and d > 0:
            return resolve(defs[e.id], d - 1)
        return e
    for r in rets:
        v = r.ast.value
        calls = [c for c in ast.walk(v) if isinstance(c, ast.Call)
                 and E._qual_external(c.func, f) == "struct.unpack"]
        if calls:
            c = calls[0]
            fmt = model.try_fold(c.args[0], mod, cls)
            data = resolve(c.args[1]) if len(c.args) > 1 else None
            size = _calcsize(fmt) if isinstance(fmt, str) else None
            width = None
            if isinstance(data, ast.Subscript) and A.dotted(data.value) == buf \
                    and isinstance(data.slice, ast.Slice):
                lo, hi = resolve(data.slice.lower), resolve(data.slice.upper)
                # hi = lo + K
                if isinstance(hi, ast.BinOp) and isinstance(hi.op, ast.Add):
                    k = model.try_fold(hi.right, mod, cls)
                    if isinstance(k, int) and ast.unparse(resolve(hi.left)) == ast.unparse(lo):
                        width = k
            if size is None or width is None or size != width:
                ctx.fail(cons, g.loc(r), f"{cons}: struct format {fmt!r} (size {size}) is not "
                         f"applied to a {size}-byte slice of the buffer (slice width {width}): "
                         f"a short read is not detected / bytes beyond the value are consumed")
            # cursor advance equals the width
            adv = [n for n in g.nodes if n.kind == "stmt"
                   and any(A.dotted(t) == pos for t in n.stores())]
            for a_ in adv:
                val = resolve(a_.ast.value)
                k = model.try_fold(val.right, mod, cls) if isinstance(val, ast.BinOp) else None
                if k != size:
                    ctx.fail(cons + "#advance", g.loc(a_), f"{cons} advances the cursor by {k}, "
                             f"but decodes {size} bytes")
        else:
            # raw slice returned: explicit guards required
            val = resolve(v)
            if not (isinstance(val, ast.Subscript) and A.dotted(val.value) == buf):
                continue
            params = [a.arg for a in f.node.args.args][1:]
            n_ = params[0] if params else None
            neg_ok = at.guarded(g, r, lambda a: False if (a.op == ">" and a.subject == "0"
                                                          and a.value == n_) else None)
            # upper bound:  not (j > len(buf))
            adv = [n for n in g.nodes if n.kind == "stmt"
                   and any(A.dotted(t) == pos for t in n.stores())]
            j = ast.unparse(adv[0].ast.value) if adv else None
            eof_ok = at.guarded(g, r, lambda a: False if (a.op == ">" and a.subject == j
                                                          and a.value == f"len({buf})") else None)
            if not neg_ok:
                ctx.fail(cons + "#negative", g.loc(r), f"{cons} returns a slice without rejecting a "
                         f"negative size (the cursor would move backwards: endless decode loop)")
            if not eof_ok:
                ctx.fail(cons + "#eof", g.loc(r), f"{cons} returns a slice without the "
                         f"`{j} > len(buffer)` end-of-data check: a truncated payload is "
                         f"returned silently short and the cursor passes the end of the buffer")
            # slice is [i:i+n] and j rounds n up to a multiple of 4
            sl = val.slice
            if not (isinstance(sl, ast.Slice) and sl.lower is not None and sl.upper is not None
                    and ast.unparse(resolve(sl.upper)).replace(" ", "") in
                    (f"{ast.unparse(sl.lower)}+{n_}", f"{ast.unparse(resolve(sl.lower))}+{n_}")):
                ctx.fail(cons + "#slice", g.loc(r), f"{cons} does not return exactly n bytes from "
                         f"the cursor: `{ast.unparse(val)}`")
    # every raise in the method is of a type the decorator converts
    for n in ast.walk(f.node):
        if isinstance(n, ast.Raise) and n.exc is not None:
            e = n.exc.func if isinstance(n.exc, ast.Call) else n.exc
            nm = E.canon(ast.unparse(e))
            if not any(E.is_sub(nm, t) for t in ("EOFError", "TypeError", "ValueError",
                                                   "struct.error", "ConversionError")):
                ctx.fail(cons + "#raise", f.loc(n), f"{cons} raises {nm}, which "
                         f"raise_conversion_error does not convert")
