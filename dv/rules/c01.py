"""C01 - AVP value <-> wire codec: format / layout / constant / table agreement."""
from __future__ import annotations

import ast

from ..report import Ctx
from ..srcmodel import AnalysisError
from ..cfg import cfg_of
from ..atoms import Atomizer, must_facts
from ..effects import effects_of
from ..tables import extract_dictionary
from .. import astutil as A
from .common_codec import no_hidden_state

TECHNIQUE = "layout/format/constant extraction from the AST with constant folding; sibling " \
            "agreement (getter vs setter, writer vs reader) against the RFC 6733 tables"
EXPLANATION = (
    "The pack/unpack siblings of the AVP codec are compared structurally and against RFC 6733: "
    "struct formats of every fixed-width type (normalised to byte order/size/signedness) in "
    "getter and setter; the value reaching struct.pack unmodified inside a try that turns "
    "struct.error into AvpEncodeError; the AVP header words written by Avp.as_packed and read "
    "by Avp.from_unpacker (order, shift 24, mask 2^24-1, header sizes 8/12, V/M/P bit values, "
    "V set iff vendor non-zero); the three padding expressions as round-up-to-4 templates; the "
    "Time epoch constants (2208988800, sum 2^32, cutoff 2^31) and the strict comparisons that "
    "select the era on both sides; the Address family table on both sides; the dictionary "
    "dispatch (base table iff vendor == 0, vendor table otherwise, register() writing the same "
    "tables, every entry's type an Avp subclass, duplicate keys agreeing).")
ASSUMPTIONS = [
    "not decided: value-level equality with an independent RFC encoder, float/unicode/time-zone "
    "behaviour, re-encode == input for all values (inputs half of the quantifier)",
    "standard-size struct codes raise struct.error on out-of-range values (no wrapping)",
]

FMT = {"i": (4, True, "int"), "l": (4, True, "int"), "I": (4, False, "int"), "L": (4, False, "int"),
       "q": (8, True, "int"), "Q": (8, False, "int"), "f": (4, None, "float"), "d": (8, None, "float"),
       "h": (2, True, "int"), "H": (2, False, "int"), "b": (1, True, "int"), "B": (1, False, "int")}
EXPECT = {"AvpInteger32": (4, True, "int"), "AvpInteger64": (8, True, "int"),
          "AvpUnsigned32": (4, False, "int"), "AvpUnsigned64": (8, False, "int"),
          "AvpFloat32": (4, None, "float"), "AvpFloat64": (8, None, "float"),
          "AvpTime": (4, False, "int")}


def norm_fmt(fmt):
    if not isinstance(fmt, str) or not fmt:
        return None
    order = "native"
    if fmt[0] in "!>":
        order, fmt = "big", fmt[1:]
    elif fmt[0] == "<":
        order, fmt = "little", fmt[1:]
    elif fmt[0] in "@=":
        fmt = fmt[1:]
    if len(fmt) != 1 or fmt not in FMT:
        return (order, fmt)
    return (order,) + FMT[fmt]


def _struct_calls(E, f, which):
    out = []
    for n in ast.walk(f.node):
        if isinstance(n, ast.Call) and E._qual_external(n.func, f) == f"struct.{which}":
            out.append(n)
    return out


def run(ctx: Ctx):
    model = ctx.model
    E = effects_of(model)
    mod = model.module("message.avp.avp")
    pk = model.module("message.packer")
    ctx.use(mod, pk)
    avp = mod.classes.get("Avp")
    if avp is None:
        raise AnalysisError("class Avp not found")

    # ---------------- R1 / R2 formats and domain rejection -------------------------------------
    ctx.rule("C01-R1", "struct formats of the fixed-width types agree between getter and setter "
                       "and with RFC 6733", floor=14)
    ctx.rule("C01-R2", "out-of-domain values are rejected: value reaches struct.pack unmodified, "
                       "struct.error -> AvpEncodeError; type guards of the string/time setters", floor=9)
    for cn, want in EXPECT.items():
        ci = mod.classes.get(cn)
        if ci is None:
            ctx.cur("C01-R1")
            ctx.inst(cn)
            ctx.fail(cn, mod.relpath + ":1", f"AVP type class {cn} not found")
            continue
        g_, s_ = ci.methods.get("value"), ci.setters.get("value")
        if g_ is None or s_ is None:
            ctx.cur("C01-R1")
            ctx.inst(cn)
            ctx.fail(cn, ci.loc(), f"{cn} lacks a value getter/setter")
            continue
        for f, which in ((g_, "unpack"), (s_, "pack")):
            ctx.cur("C01-R1")
            calls = _struct_calls(E, f, which)
            cons = f"{cn}.value:{which}"
            ctx.inst(cons, sample=[ast.unparse(c)[:60] for c in calls])
            if not calls:
                ctx.fail(cons, f.loc(), f"{cn} does not {which} its value with struct")
                continue
            for c in calls:
                fmt = model.try_fold(c.args[0], mod, ci) if c.args else None
                nf = norm_fmt(fmt)
                if nf != ("big",) + want:
                    ctx.fail(cons, f.loc(c), f"{cn} {which}s with format {fmt!r} = {nf}; RFC 6733 "
                             f"requires network byte order, {want[0] * 8}-bit "
                             f"{'signed ' if want[1] else 'unsigned ' if want[1] is False else ''}{want[2]}")
                if which == "unpack":
                    ok = len(c.args) == 2 and A.dotted(c.args[1]) == "self.payload"
                    if not ok:
                        ctx.fail(cons + "#arg", f.loc(c), f"{cn} does not decode the whole payload "
                                 f"(`{ast.unparse(c)}`): a payload of the wrong length is accepted")
        # R2
        ctx.cur("C01-R2")
        cons = f"{cn}.value:setter-domain"
        ctx.inst(cons)
        param = [a.arg for a in s_.node.args.args][1]
        for c in _struct_calls(E, s_, "pack"):
            arg = c.args[1] if len(c.args) > 1 else None
            if cn != "AvpTime" and not (isinstance(arg, ast.Name) and arg.id == param):
                ctx.fail(cons, s_.loc(c), f"{cn} does not pass the value unmodified to struct.pack "
                         f"(`{ast.unparse(arg) if arg is not None else None}`): an out-of-domain "
                         f"value is truncated/wrapped instead of rejected")
            if not _in_try_raising(s_, c, E, "struct.error", "AvpEncodeError"):
                ctx.fail(cons + "#error", s_.loc(c), f"{cn}: struct.error of the setter is not turned "
                         f"into AvpEncodeError")
        if "AvpEncodeError" not in E.raises(s_) or (set(E.raises(s_)) - {"AvpEncodeError"}):
            ctx.fail(cons + "#escape", s_.loc(), f"{cn} setter can raise {sorted(E.raises(s_))}; only "
                     f"AvpEncodeError is documented")
    ctx.cur("C01-R1")
    ctx.inst("AvpEnumerated")
    en = mod.lookup_class("AvpEnumerated")
    if en is None or en.name != "AvpInteger32":
        ctx.fail("AvpEnumerated", mod.relpath + ":1", "AvpEnumerated is not an alias of AvpInteger32")
    ctx.cur("C01-R2")
    for cn, guard in (("AvpOctetString", "bytes"), ("AvpTime", "datetime.datetime")):
        ci = mod.classes.get(cn)
        s_ = ci.setters.get("value") if ci else None
        cons = f"{cn}.value:type-guard"
        ctx.inst(cons)
        if s_ is None:
            ctx.fail(cons, mod.relpath + ":1", f"{cn} setter not found")
            continue
        g = cfg_of(s_)
        at = Atomizer(model, mod, ci)
        param = [a.arg for a in s_.node.args.args][1]
        stores = [n for n in g.nodes if n.kind == "stmt" and any(A.dotted(t) == "self.payload" for t in n.stores())]
        okg = stores and all(any(f_[0].replace(" ", "") == f"isinstance({param},{guard})" and f_[3]
                                 for f_ in must_facts(g, at, s)) for s in stores)
        if not okg:
            ctx.fail(cons, s_.loc(), f"{cn} accepts values that are not {guard}")
    ci = mod.classes.get("AvpUtf8String")
    cons = "AvpUtf8String.value:codec"
    ctx.inst(cons)
    if ci is not None:
        g_, s_ = ci.methods.get("value"), ci.setters.get("value")
        enc = [n for n in ast.walk(s_.node) if isinstance(n, ast.Call) and isinstance(n.func, ast.Attribute)
               and n.func.attr == "encode"]
        dec = [n for n in ast.walk(g_.node) if isinstance(n, ast.Call) and isinstance(n.func, ast.Attribute)
               and n.func.attr == "decode"]
        codecs = {str(model.try_fold(c.args[0], mod)).lower().replace("-", "") for c in enc + dec if c.args}
        if not enc or not dec or codecs != {"utf8"}:
            ctx.fail(cons, ci.loc(), f"UTF8String is not encoded and decoded as UTF-8 on both sides ({codecs})")
        for f in (g_, s_):
            bad = set(E.raises(f)) - {"AvpEncodeError", "AvpDecodeError"}
            if bad:
                ctx.fail(cons + "#errors", f.loc(), f"{f.qualname} can raise {sorted(bad)}")

    _string_identity(ctx, model, mod)
    _header_layout(ctx, model, mod, avp)
    _padding(ctx, model, mod, pk, avp)
    _time(ctx, model, mod)
    _address(ctx, model, mod, E)
    _grouped(ctx, model, mod)
    _dictionary(ctx, model, mod, avp)
    _rfc6733_types(ctx, model)
    _float32_nan(ctx, model, mod)
    # no codec function of the AVP module keeps state between calls (the dictionaries live in
    # .dictionary and are the documented registry)
    codec_funcs = [f for f in model.all_funcs() if f.module is mod]
    no_hidden_state(ctx, "C01-R8", codec_funcs, {"AVP_DICTIONARY", "AVP_VENDOR_DICTIONARY"})


def _string_identity(ctx: Ctx, model, mod):
    """OctetString / UTF8String: the octets are the value itself (resp. its UTF-8 encoding) - no
    normalisation, stripping, case folding or re-coding between the value and the payload, on
    either side.  A transformation makes `set v; read back` (and decode; re-encode) differ for the
    values it is not the identity on (a decomposed unicode string, trailing blanks, ...)."""
    ctx.cur("C01-R2")
    for cn, enc, dec in (("AvpOctetString", None, None), ("AvpUtf8String", "encode", "decode")):
        ci = mod.classes.get(cn)
        g_ = ci.methods.get("value") if ci else None
        s_ = ci.setters.get("value") if ci else None
        cons = f"{cn}.value:octets-are-the-value"
        ctx.inst(cons)
        if g_ is None or s_ is None:
            ctx.error(f"{cn} value getter/setter not found", rule="C01-R2")
            continue
        param = [a.arg for a in s_.node.args.args][1]

        def shape(fn, e, base: str, meth):
            """None if *e* (locals substituted) is `base` resp. `base.meth(<codec>)`, else its text."""
            try:
                t = ast.parse(A.resolve_local_chain(fn.node, e), mode="eval").body
            except SyntaxError:
                return ast.unparse(e)
            if meth is None:
                return None if A.dotted(t) == base else ast.unparse(t)
            ok = (isinstance(t, ast.Call) and isinstance(t.func, ast.Attribute) and t.func.attr == meth
                  and A.dotted(t.func.value) == base and len(t.args) + len(t.keywords) <= 1)
            return None if ok else ast.unparse(t)
        stores = [n for n in A.walk_no_nested(s_.node) if isinstance(n, (ast.Assign, ast.AnnAssign))
                  and any(A.dotted(t) == "self.payload" for t in A.store_targets(n))]
        if not stores:
            ctx.error(f"{cn} setter does not store self.payload", rule="C01-R2")
        for st in stores:
            bad = shape(s_, st.value, param, enc)
            if bad is not None:
                ctx.fail(cons, s_.loc(st), f"{cn} setter stores `{bad[:80]}` as the payload, not "
                         f"`{param}{'.' + enc + '(utf8)' if enc else ''}`: the value is transformed on its "
                         f"way to the wire, so reading it back (or decoding the wire bytes) does not return "
                         f"the value that was set for every string",
                         expected=f"{param}" + (f".{enc}('utf8')" if enc else ""), observed=bad[:120])
        rets = [n for n in A.walk_no_nested(g_.node) if isinstance(n, ast.Return) and n.value is not None]
        if not rets:
            ctx.error(f"{cn} getter returns nothing", rule="C01-R2")
        for r in rets:
            bad = shape(g_, r.value, "self.payload", dec)
            if bad is not None:
                ctx.fail(cons + "#getter", g_.loc(r), f"{cn} getter returns `{bad[:80]}`, not "
                         f"`self.payload{'.' + dec + '(utf8)' if dec else ''}`: decoded values differ from "
                         f"the octets on the wire, re-encoding them does not reproduce the input",
                         expected="self.payload" + (f".{dec}('utf8')" if dec else ""), observed=bad[:120])


def _in_try_raising(f, node, E, caught: str, raised: str) -> bool:
    par = A.parents(f.node)
    x = node
    while x in par:
        p = par[x]
        if isinstance(p, ast.Try) and any(x is b for b in p.body):
            for h in p.handlers:
                if any(E.is_sub(caught, t) for t in E.handler_types(h)):
                    return any(isinstance(s, ast.Raise) and raised in ast.unparse(s) for s in ast.walk(h))
        x = p
    return False


# ---------------------------------------------------------------------------
def _header_layout(ctx: Ctx, model, mod, avp):
    ctx.rule("C01-R3", "AVP header: writer and reader agree on word order, shift, mask, header "
                       "sizes; V/M/P bits; V iff vendor", floor=8)
    wr = avp.methods.get("as_packed")
    rd = avp.methods.get("from_unpacker")
    if wr is None or rd is None:
        raise AnalysisError("Avp.as_packed / Avp.from_unpacker not found")
    ctx.use(wr, rd)
    fold = lambda e: model.try_fold(e, mod, avp)
    # writer
    packs = [n for n in ast.walk(wr.node) if isinstance(n, ast.Call) and isinstance(n.func, ast.Attribute)
             and n.func.attr.startswith("pack_")]
    packs.sort(key=lambda n: (n.lineno, n.col_offset))
    cons = "Avp.as_packed:words"
    ctx.inst(cons, sample=[ast.unparse(p)[:70] for p in packs])
    seq = [(p.func.attr, p) for p in packs]
    ok = [a for a, _ in seq] == ["pack_uint", "pack_uint", "pack_uint", "pack_fopaque"]
    w_shift = None
    if not ok:
        ctx.fail(cons, wr.loc(), f"the AVP header is not written as code, flags|length, [vendor], "
                 f"padded payload (found {[a for a, _ in seq]})")
    else:
        if A.dotted(seq[0][1].args[0]) != "self.code":
            ctx.fail(cons, wr.loc(seq[0][1]), "first word is not the AVP code")
        w2 = seq[1][1].args[0]
        shifts = [n for n in ast.walk(w2) if isinstance(n, ast.BinOp) and isinstance(n.op, ast.LShift)]
        w_shift = fold(shifts[0].right) if shifts else None
        has_len = any(A.dotted(n) == "self.length" for n in ast.walk(w2))
        if not (isinstance(w2, ast.BinOp) and isinstance(w2.op, ast.BitOr) and w_shift == 24 and has_len):
            ctx.fail(cons, wr.loc(w2), f"second word is not `length | flags << 24` (`{ast.unparse(w2)}`)")
        else:
            fl = shifts[0].left
            flv = ast.unparse(fl)
            if flv != "self.flags":
                d = [n for n in ast.walk(wr.node) if isinstance(n, ast.Assign)
                     and any(A.dotted(t) == flv for t in n.targets)]
                if not d or A.dotted(d[0].value) != "self.flags":
                    ctx.fail(cons + "#flags", wr.loc(w2), "the flag octet written is not self.flags")
        par = A.parents(wr.node)
        p3 = par.get(par.get(seq[2][1]))
        if A.dotted(seq[2][1].args[0]) != "self.vendor_id" or not (
                isinstance(p3, ast.If) and A.dotted(p3.test) == "self.vendor_id"):
            ctx.fail(cons + "#vendor", wr.loc(seq[2][1]), "the vendor id is not written exactly when it is non-zero")
        if A.dotted(seq[3][1].args[1]) != "self.payload":
            ctx.fail(cons + "#payload", wr.loc(seq[3][1]), "the payload written is not self.payload")
    # reader
    cons = "Avp.from_unpacker:words"
    ctx.inst(cons)
    g = cfg_of(rd)
    at = Atomizer(model, mod, avp)
    u = [a.arg for a in rd.node.args.args][1]
    reads = [n for n in g.nodes if n.kind == "stmt" and any(
        isinstance(c.func, ast.Attribute) and c.func.attr.startswith("unpack_")
        and A.dotted(c.func.value) == u for c in n.calls())]
    reads.sort(key=lambda n: n.line)
    kinds = [[c.func.attr for c in n.calls() if isinstance(c.func, ast.Attribute)
              and c.func.attr.startswith("unpack_")][0] for n in reads]
    if kinds != ["unpack_uint", "unpack_uint", "unpack_uint", "unpack_fopaque"]:
        ctx.fail(cons, rd.loc(), f"the AVP header is not read as code, flags+length, [vendor], payload ({kinds})")
        return
    code_v = A.dotted(reads[0].ast.targets[0])
    fl_v = A.dotted(reads[1].ast.targets[0])
    assigns = {}
    for n in ast.walk(rd.node):
        if isinstance(n, ast.Assign) and isinstance(n.targets[0], ast.Name):
            assigns.setdefault(n.targets[0].id, []).append(n.value)
    flags_v = len_v = None
    r_shift = r_mask = None
    for name, vals in assigns.items():
        for v in vals:
            if isinstance(v, ast.BinOp) and A.dotted(v.left) == fl_v:
                if isinstance(v.op, ast.RShift):
                    flags_v, r_shift = name, fold(v.right)
                if isinstance(v.op, ast.BitAnd):
                    len_v, r_mask = name, fold(v.right)
    if r_shift != 24 or r_mask != 0x00ffffff or (w_shift is not None and w_shift != r_shift):
        ctx.fail(cons, rd.loc(), f"reader splits the second word with shift {r_shift} / mask "
                 f"{hex(r_mask) if isinstance(r_mask, int) else r_mask}; the writer shifts by {w_shift}, the "
                 f"length field is 24 bits")
    subs = [n for n in g.nodes if n.kind == "stmt" and isinstance(n.ast, ast.AugAssign)
            and isinstance(n.ast.op, ast.Sub) and A.dotted(n.ast.target) == len_v]
    subvals = sorted(fold(n.ast.value) for n in subs)
    lp = avp.methods.get("length")
    hdr = []
    if lp is not None:
        for n in ast.walk(lp.node):
            if isinstance(n, ast.Assign) and isinstance(n.value, ast.Constant):
                hdr.append(n.value.value)
            if isinstance(n, ast.AugAssign) and isinstance(n.op, ast.Add):
                hdr.append(fold(n.value))
    cons = "Avp:header-sizes"
    ctx.inst(cons, sample={"length_property": hdr, "reader_subtracts": subvals})
    if sorted(hdr) != [4, 8] or subvals != [4, 8]:
        ctx.fail(cons, rd.loc(), f"header sizes disagree: Avp.length adds {hdr}, the reader subtracts "
                 f"{subvals} (RFC 6733: 8 bytes, 12 with a vendor id)")
    else:
        vs = [n for n in subs if fold(n.ast.value) == 4][0]
        facts = must_facts(g, at, vs)
        vflag = fold(avp.class_assigns.get("avp_flag_vendor"))
        okv = any(f_[0].replace(" ", "") in (f"{flags_v}&Avp.avp_flag_vendor", f"{flags_v}&cls.avp_flag_vendor",
                                              f"{flags_v}&{vflag}") and f_[3] for f_ in facts)
        if not okv or not g.dominated(vs, [reads[2]]):
            ctx.fail(cons + "#vendor", g.loc(vs), "the vendor id is not read exactly when the V flag is set")
        lp_ret = [n for n in ast.walk(lp.node) if isinstance(n, ast.Return)]
        if not any("len(self.payload)" in ast.unparse(r) for r in lp_ret):
            ctx.fail(cons + "#payload", lp.loc(), "Avp.length does not count the unpadded payload")
    pr = reads[3]
    cons = "Avp.from_unpacker:payload"
    ctx.inst(cons)
    c = [c for c in pr.calls() if isinstance(c.func, ast.Attribute) and c.func.attr == "unpack_fopaque"][0]
    if A.dotted(c.args[0]) != len_v:
        ctx.fail(cons, g.loc(pr), "the payload is not read with the remaining AVP length")
    # constructor argument order
    ctor = [n for n in ast.walk(rd.node) if isinstance(n, ast.Call) and isinstance(n.func, ast.Name)
            and len(n.args) == 4]
    init = avp.methods.get("__init__")
    iparams = [a.arg for a in init.node.args.args][1:]
    cons = "Avp.from_unpacker:construct"
    ctx.inst(cons)
    payload_v = A.dotted(pr.ast.targets[0])
    vend_v = A.dotted(reads[2].ast.targets[0])
    want = {"code": code_v, "vendor_id": vend_v, "payload": payload_v, "flags": flags_v}
    if not ctor or [A.dotted(a) for a in ctor[0].args] != [want[p] for p in iparams]:
        ctx.fail(cons, rd.loc(), f"the decoded AVP is not constructed with (code, vendor, payload, "
                 f"flags) in the constructor's parameter order {iparams}")
    # flag constants and properties
    cons = "Avp:flag-bits"
    ctx.inst(cons)
    bits = {k: fold(avp.class_assigns.get(k)) for k in ("avp_flag_vendor", "avp_flag_mandatory", "avp_flag_private")}
    if bits != {"avp_flag_vendor": 0x80, "avp_flag_mandatory": 0x40, "avp_flag_private": 0x20}:
        ctx.fail(cons, avp.loc(), f"V/M/P flag bits are {bits}, RFC 6733 says 0x80/0x40/0x20")
    for prop, const in (("is_mandatory", "avp_flag_mandatory"), ("is_private", "avp_flag_private")):
        g_, s_ = avp.methods.get(prop), avp.setters.get(prop)
        ctx.inst(f"Avp.{prop}")
        if g_ is None or s_ is None or const not in ast.unparse(g_.node) or \
                ast.unparse(s_.node).count(const) < 2 or "~" not in ast.unparse(s_.node):
            ctx.fail(f"Avp.{prop}", avp.loc(), f"{prop} does not test/set/clear its own bit {const}")
    vs_ = avp.setters.get("vendor_id")
    cons = "Avp.vendor_id:V-flag"
    ctx.inst(cons)
    if vs_ is None:
        ctx.fail(cons, avp.loc(), "vendor_id setter not found")
    else:
        gv = cfg_of(vs_)
        atv = Atomizer(model, mod, avp)
        p = [a.arg for a in vs_.node.args.args][1]
        sets = [n for n in gv.nodes if n.kind == "stmt" and isinstance(n.ast, ast.AugAssign)
                and A.dotted(n.ast.target) == "self.flags"]
        on = [n for n in sets if isinstance(n.ast.op, ast.BitOr)]
        off = [n for n in sets if isinstance(n.ast.op, ast.BitAnd)]
        ok = (len(on) == 1 and len(off) == 1
              and (p, "truthy", None, True) in must_facts(gv, atv, on[0])
              and (p, "truthy", None, False) in must_facts(gv, atv, off[0])
              and "avp_flag_vendor" in ast.unparse(on[0].ast) and "~" in ast.unparse(off[0].ast))
        st = [n for n in gv.nodes if n.kind == "stmt" and any(A.dotted(t) == "self._vendor_id" for t in n.stores())]
        if not ok or not st or not gv.dominated(gv.exit, st):
            ctx.fail(cons, vs_.loc(), "the V flag is not set exactly when the vendor id is non-zero")
        gi = cfg_of(init)
        fs = [n for n in gi.nodes if n.kind == "stmt" and any(A.dotted(t) == "self.flags" for t in n.stores())]
        vv = [n for n in gi.nodes if n.kind == "stmt" and any(A.dotted(t) == "self.vendor_id" for t in n.stores())]
        if not fs or not vv or not gi.dominated(vv[0], fs):
            ctx.fail(cons + "#init", init.loc(), "the constructor stores the raw flags after the "
                     "vendor id: V can disagree with the vendor id")


def _padding(ctx: Ctx, model, mod, pk, avp):
    # the 24-bit length field is bounded before it is or-ed with the flag octet
    ap_ = avp.methods.get("as_packed")
    cons = "Avp.as_packed:length-fits-24-bits"
    ctx.inst(cons, rule="C01-R3")
    if ap_ is not None:
        gap = cfg_of(ap_)
        atp_ = Atomizer(model, mod, avp)
        lw = [n for n in gap.nodes if n.kind == "stmt" and any(
            isinstance(c.func, ast.Attribute) and c.func.attr == "pack_uint" and c.args
            and "self.length" in ast.unparse(c.args[0]) for c in n.calls())]
        for n in lw:
            fx = must_facts(gap, atp_, n)
            okl = any(f_[0] == "self.length" and f_[1] == ">" and f_[3] is False
                      and str(f_[2]) in ("16777215", "0xffffff") for f_ in fx)
            if not okl:
                ctx.fail(cons, gap.loc(n), "the AVP length is or-ed into the flags/length word without "
                         "having been checked to fit 24 bits: for 2**24-8 or more data bytes the "
                         "length field wraps and the excess changes the flag octet (nothing is "
                         "rejected)", rule="C01-R3")
    # one encoder: Avp.as_bytes is as_packed() over a fresh Packer - a second, hand-written
    # rendering of the header (struct.pack of code / flags|length / vendor) has to repeat every
    # obligation of the first (the 24-bit bound, V iff vendor, the padding) and is checked by none
    # of the rules above
    ab_ = avp.methods.get("as_bytes")
    cons = "Avp.as_bytes:delegates-to-as_packed"
    ctx.inst(cons, rule="C01-R3")
    if ab_ is None:
        ctx.error("Avp.as_bytes not found", rule="C01-R3")
    else:
        ctx.use(ab_)
        calls_ = [A.call_name(c) for c in ast.walk(ab_.node) if isinstance(c, ast.Call)]
        own = [c for c in calls_ if c.split(".")[-1] in ("pack", "pack_into", "to_bytes", "join")
               or c.startswith("struct.")]
        if "self.as_packed" not in calls_ or own:
            ctx.fail(cons, ab_.loc(), f"Avp.as_bytes renders the AVP by itself ({own or 'no call of self.as_packed'}) "
                     f"instead of through as_packed(): the second encoder is bound by none of the layout rules - "
                     f"e.g. it has no check that the length fits 24 bits, so an over-long AVP wraps into the flag "
                     f"octet when it is encoded on its own", rule="C01-R3",
                     expected="return self.as_packed(Packer()).get_buffer()", observed=str(own)[:120])
    ctx.rule("C01-R4", "padding expressions are round-up-to-4; pad byte is zero", floor=3)

    def tmpl(e):
        """('and', a, b) for (X + a) & ~b ; ('div', a, c, d) for (X + a) // c * d"""
        f = lambda x: model.try_fold(x, mod)
        if isinstance(e, ast.BinOp) and isinstance(e.op, ast.BitAnd):
            l, r = e.left, e.right
            if isinstance(r, ast.UnaryOp) and isinstance(r.op, ast.Invert) and isinstance(l, ast.BinOp) \
                    and isinstance(l.op, ast.Add):
                return ("and", f(l.right), f(r.operand))
        if isinstance(e, ast.BinOp) and isinstance(e.op, ast.Mult):
            l = e.left
            if isinstance(l, ast.BinOp) and isinstance(l.op, ast.FloorDiv) and isinstance(l.left, ast.BinOp) \
                    and isinstance(l.left.op, ast.Add):
                return ("div", f(l.left.right), f(l.right), f(e.right))
        return None

    def check(cons, where, e):
        ctx.inst(cons, sample=ast.unparse(e))
        t = tmpl(e)
        if t is None:
            ctx.error(f"{cons}: padding expression `{ast.unparse(e)}` matches no round-up template")
        elif t not in (("and", 3, 3), ("div", 3, 4, 4)):
            ctx.fail(cons, where, f"`{ast.unparse(e)}` does not round up to a multiple of 4 "
                     f"(template {t}): AVP data is not padded to a 4-byte boundary")
    wr = avp.methods["as_packed"]
    e1 = [n.value for n in ast.walk(wr.node) if isinstance(n, ast.Assign) and "len(self.payload)" in ast.unparse(n.value)]
    if e1:
        check("Avp.as_packed:padding", wr.loc(e1[0]), e1[0])
        arg = [n for n in ast.walk(wr.node) if isinstance(n, ast.Call) and isinstance(n.func, ast.Attribute)
               and n.func.attr == "pack_fopaque"]
        if arg and A.dotted(arg[0].args[0]) != A.dotted([n.targets[0] for n in ast.walk(wr.node)
                                                         if isinstance(n, ast.Assign) and n.value is e1[0]][0]):
            ctx.fail("Avp.as_packed:padding#use", wr.loc(), "the padded length computed is not the one passed to pack_fopaque")
    else:
        ctx.inst("Avp.as_packed:padding")
        ctx.error("Avp.as_packed: padded payload length expression not found")
    pf = model.func("message.packer", "Packer.pack_fstring")
    uf = model.func("message.packer", "Unpacker.unpack_fstring")
    ctx.use(pf, uf)
    for f, cons in ((pf, "Packer.pack_fstring:padding"), (uf, "Unpacker.unpack_fstring:padding")):
        es = [n for n in ast.walk(f.node) if isinstance(n, ast.BinOp) and isinstance(n.op, ast.Mult)
              and tmpl(n) is not None]
        if es:
            check(cons, f.loc(es[0]), es[0])
        else:
            ctx.inst(cons)
            ctx.error(f"{cons}: no round-up expression found")
    cons = "Packer.pack_fstring:pad-byte"
    ctx.inst(cons)
    pads = [n for n in ast.walk(pf.node) if isinstance(n, ast.BinOp) and isinstance(n.op, ast.Mult)
            and isinstance(n.right, ast.Constant) and isinstance(n.right.value, bytes)]
    if not pads or pads[0].right.value != b"\0":
        ctx.fail(cons, pf.loc(), "padding is not made of zero bytes")


def _time(ctx: Ctx, model, mod):
    ctx.rule("C01-R5", "Time: epoch constants and era selection on both sides", floor=3)
    ci = mod.classes.get("AvpTime")
    if ci is None:
        raise AnalysisError("AvpTime not found")
    _time_zone(ctx, model, mod, ci)
    f = lambda n: model.try_fold(ci.class_assigns.get(n), mod, ci) if ci.class_assigns.get(n) is not None else None
    s1900, ovf, cut = f("seconds_since_1900"), f("overflow_timestamp"), f("overflow_detection_cutoff")
    cons = "AvpTime:constants"
    ctx.inst(cons, sample={"seconds_since_1900": s1900, "overflow_timestamp": ovf, "cutoff": cut})
    if s1900 != 2208988800:
        ctx.fail("AvpTime.seconds_since_1900", ci.loc(), f"seconds_since_1900 = {s1900}, the NTP epoch "
                 f"offset is 2208988800 (70 years incl. 17 leap days)")
    if isinstance(s1900, int) and isinstance(ovf, int) and s1900 + ovf != 2 ** 32:
        ctx.fail("AvpTime.overflow_timestamp", ci.loc(),
                 f"overflow_timestamp = {ovf}: seconds_since_1900 + overflow_timestamp must be 2^32 "
                 f"(NTP era 1 starts 2036-02-07 06:28:16 UTC = {2 ** 32 - 2208988800}); the two encode "
                 f"branches are not continuous and every date after the roll-over is off by "
                 f"{2 ** 32 - (s1900 + ovf)} s on the wire")
    if cut != 2 ** 31:
        ctx.fail("AvpTime.overflow_detection_cutoff", ci.loc(), f"overflow_detection_cutoff = {cut}, must be 2^31")
    for func, kind in ((ci.methods.get("value"), "decode"), (ci.setters.get("value"), "encode")):
        cons = f"AvpTime.value:{kind}-era"
        ctx.inst(cons)
        if func is None:
            ctx.fail(cons, ci.loc(), f"AvpTime {kind}r not found")
            continue
        g = cfg_of(func)
        at = Atomizer(model, mod, ci)
        bound = "self.overflow_detection_cutoff" if kind == "decode" else "self.overflow_timestamp"
        # the seconds variable
        ops = []
        for n in g.nodes:
            if n.kind != "stmt":
                continue
            for b in ast.walk(n.ast):
                if isinstance(b, ast.AugAssign) and isinstance(b.target, ast.Name):
                    # `seconds += self.overflow_timestamp` is `seconds = seconds + ...`
                    b = ast.copy_location(ast.BinOp(left=ast.Name(id=b.target.id, ctx=ast.Load()),
                                                    op=b.op, right=b.value), b)
                if isinstance(b, ast.BinOp) and isinstance(b.op, (ast.Add, ast.Sub)) and \
                        A.dotted(b.right) in ("self.overflow_timestamp", "self.seconds_since_1900") and \
                        isinstance(b.left, ast.Name):
                    ops.append((n, b))
        if len(ops) != 2:
            ctx.fail(cons, func.loc(), f"expected two era branches (+/- epoch constants), found {len(ops)}")
            continue
        sec = ops[0][1].left.id
        for n, b in ops:
            facts = must_facts(g, at, n)
            early = (bound, ">", sec, True) in facts      # seconds < bound
            late = (bound, ">", sec, False) in facts       # seconds >= bound
            opn = "+" if isinstance(b.op, ast.Add) else "-"
            const = A.dotted(b.right).split(".")[-1]
            if kind == "decode":
                want = {("+", "overflow_timestamp"): early, ("-", "seconds_since_1900"): late}
            else:
                want = {("+", "seconds_since_1900"): early, ("-", "overflow_timestamp"): late}
            if not want.get((opn, const), False):
                ctx.fail(cons, g.loc(n),
                         f"`{ast.unparse(b)}` is not selected by the strict comparison "
                         f"`{sec} < {bound}` / its complement (guards: "
                         f"{[x for x in facts if sec in (x[0], str(x[2]))]}): the boundary value "
                         f"{'0x80000000 (1968-01-20 03:14:08 UTC)' if kind == 'decode' else 'of the 2036 roll-over'} "
                         f"is {kind}d in the wrong era")
        if kind == "encode":
            sd = [n for n in g.nodes if n.kind == "stmt" and isinstance(n.ast, ast.Assign)
                  and any(A.dotted(t) == sec for t in n.ast.targets)]
            s = ast.unparse(sd[0].ast.value) if sd else ""
            if not (s.startswith("int(") and ".timestamp()" in s):
                ctx.fail(cons + "#seconds", func.loc(), f"the encoded value is not int(value.timestamp()): `{s}`")
            # the reader picks the era from the cut-off (value < 2^31 => era 1); the writer must
            # reject values whose 32-bit form falls on the other side (before 1968 / after 2104)
            cons_r = "AvpTime.value:encode-range"
            ctx.inst(cons_r)
            cmps = [x for x in ast.walk(func.node) if isinstance(x, ast.Compare)
                    and "overflow_detection_cutoff" in ast.unparse(x)]
            if not cmps:
                ctx.fail(cons_r, func.loc(), "the setter never compares the 32-bit value it packs with "
                         "overflow_detection_cutoff: a datetime before 1968-01-20 03:14:08 UTC or after "
                         "2104-02-26 09:42:23 UTC is packed modulo 2^32 and read back as a date of the "
                         "other era (1950-01-01 -> 2086-02-06, 2105-01-01 -> 1968-11-24) instead of being "
                         "rejected")


def _time_zone(ctx: Ctx, model, mod, ci):
    """Getter and setter of AvpTime agree on what a datetime without time zone means."""
    cons = "AvpTime.value:time-zone-convention"
    ctx.inst(cons, rule="C01-R5")
    getter, setter = ci.methods.get("value"), ci.setters.get("value")
    if getter is None or setter is None:
        return

    def naive_dt(e, depth=2):
        """datetime(...) without tzinfo, directly or through a class constant / module constant"""
        if isinstance(e, ast.Call) and A.call_name(e) in ("datetime.datetime", "datetime"):
            return not any(k.arg == "tzinfo" for k in e.keywords) and len(e.args) < 8
        if depth and isinstance(e, ast.Attribute) and A.dotted(e.value) in ("self", "cls", ci.name):
            r = model.class_attr_expr(ci, e.attr)
            return naive_dt(r[1], depth - 1) if r else None
        if depth and isinstance(e, ast.Name):
            b = mod.lookup(e.id)
            v = getattr(b.node, "value", None) if b is not None and b.kind == "assign" else None
            return naive_dt(v, depth - 1) if v is not None else None
        return None
    produced = set()
    for n in ast.walk(getter.node):
        if isinstance(n, ast.Call):
            nm = A.call_name(n)
            if nm.endswith("utcfromtimestamp"):
                produced.add(("naive-utc", n))
            elif nm.endswith("fromtimestamp"):
                aware = len(n.args) > 1 or any(k.arg == "tz" for k in n.keywords)
                produced.add(("aware" if aware else "naive-local", n))
        elif isinstance(n, ast.BinOp) and isinstance(n.op, ast.Add) and \
                any("timedelta" in ast.unparse(x) for x in (n.left, n.right)):
            for side in (n.left, n.right):
                nd = naive_dt(side)
                if nd is True:
                    produced.add(("naive-utc", n))
                elif nd is False:
                    produced.add(("aware", n))
    consumed = set()
    for n in ast.walk(setter.node):
        if isinstance(n, ast.Call):
            nm = A.call_name(n)
            if nm.endswith(".timestamp") and not n.args:
                consumed.add("timestamp()")      # naive = local time, aware = exact
            elif nm.endswith("timegm"):
                consumed.add("timegm")           # naive = UTC
            elif nm.endswith(".replace") and any(k.arg == "tzinfo" for k in n.keywords):
                consumed.add("replace(tzinfo)")  # naive = that zone (UTC by convention)
    ctx.rules["C01-R5"]["nontrivial"].add(cons)
    kinds = {k for k, _ in produced}
    if "naive-utc" in kinds and consumed == {"timestamp()"}:
        n = [x for k, x in produced if k == "naive-utc"][0]
        ctx.fail(cons, getter.loc(n), f"the getter builds a datetime without time zone that means UTC "
                 f"(`{ast.unparse(n)[:70]}`) while the setter reads a datetime without time zone as "
                 f"local time (`.timestamp()`): wherever the local zone is not UTC a decoded Time, "
                 f"assigned again, is shifted by the UTC offset - decode(encode(x)) != x and "
                 f"encode-decode-encode changes the bytes", rule="C01-R5",
                 expected="both sides local-naive (fromtimestamp / timestamp()) or both zone-aware",
                 observed="getter naive-UTC, setter naive-local")
    if "naive-local" in kinds and consumed and consumed <= {"timegm", "replace(tzinfo)"}:
        n = [x for k, x in produced if k == "naive-local"][0]
        ctx.fail(cons, getter.loc(n), f"the getter builds a local-time datetime "
                 f"(`{ast.unparse(n)[:70]}`) while the setter reads a datetime without time zone as "
                 f"UTC ({sorted(consumed)}): values are shifted by the UTC offset on every round trip",
                 rule="C01-R5")


def _grouped(ctx: Ctx, model, mod):
    """The encoder of AvpGrouped reads the member list it hands out."""
    ci = mod.classes.get("AvpGrouped")
    cons = "AvpGrouped:payload-cached-at-assignment"
    ctx.inst(cons, rule="C01-R3")
    if ci is None:
        return
    getter = ci.methods.get("value")
    hands_out_list = getter is not None and any(
        isinstance(r, ast.Return) and r.value is not None and "_avps" in ast.unparse(r.value)
        for r in ast.walk(getter.node))
    # does anything on the encode path (as_packed / length / payload property) consult _avps?
    enc = [ci.methods.get(n) for n in ("as_packed", "as_bytes", "length", "payload")]
    rereads = any(m is not None and "_avps" in ast.unparse(m.node) or
                  (m is not None and any(isinstance(c, ast.Call) and "_avps" in ast.unparse(
                      (ci.methods.get(A.call_name(c).split(".")[-1]) or m).node)
                      for c in ast.walk(m.node) if isinstance(c, ast.Call) and A.call_name(c).startswith("self.")))
                  for m in enc)
    if hands_out_list and not rereads:
        ctx.fail(cons, ci.loc(), "AvpGrouped.value hands out the cached member list (the documented "
                 "`grp.value.append(avp)` usage), but the payload that as_packed()/length encode is "
                 "only rebuilt by the value setter: after an in-place change of the list (or of a "
                 "member) the AVP is encoded with the stale payload - e.g. an empty group of length 8 "
                 "although .value holds two members", rule="C01-R3")


def _address(ctx: Ctx, model, mod, E):
    ctx.rule("C01-R6", "Address: family table of the setter equals that of the getter", floor=2)
    ci = mod.classes.get("AvpAddress")
    if ci is None:
        raise AnalysisError("AvpAddress not found")
    g_, s_ = ci.methods.get("value"), ci.setters.get("value")
    # setter triples
    st = {}
    generic = []
    for c in _struct_calls(E, s_, "pack"):
        fam = model.try_fold(c.args[1], mod) if len(c.args) > 1 else None
        if fam is None and len(c.args) > 2 and isinstance(c.args[1], ast.Name) and isinstance(c.args[2], ast.Name):
            generic.append(c)      # family given by the caller: (family, text) pairs, see below
            continue
        fmt = c.args[0]
        fs = model.try_fold(fmt, mod)
        if fs is None and isinstance(fmt, ast.JoinedStr):
            fs = "".join(v.value if isinstance(v, ast.Constant) else "{}" for v in fmt.values)
        src = ast.unparse(c.args[2]) if len(c.args) > 2 else ""
        af = "AF_INET6" if "AF_INET6" in src else "AF_INET" if "AF_INET" in src else "utf-8"
        st[fam] = (fs, af)
    cons = "AvpAddress.value:setter-families"
    ctx.inst(cons, sample=st)
    want = {1: ("!h4s", "AF_INET"), 2: ("!h16s", "AF_INET6"), 8: ("!h{}s", "utf-8")}
    norm = {k: (v[0].replace(">", "!").replace("H", "h") if isinstance(v[0], str) else v[0], v[1])
            for k, v in st.items()}
    if norm != want:
        ctx.fail(cons, s_.loc(), f"address families written: {st}; RFC 6733/IANA: 1=IPv4 (4 bytes), "
                 f"2=IPv6 (16 bytes), 8=E.164 (text), 16-bit big-endian family prefix")
    # the (family, text) form: the inverse of the getter, family by family
    cons_g = "AvpAddress.value:setter-pairs"
    ctx.inst(cons_g)
    avp_new = mod.classes["Avp"].methods.get("new") if "Avp" in mod.classes else None
    drops = [n for n in ast.walk(avp_new.node) if isinstance(n, ast.Assign)
             and any(isinstance(t, ast.Attribute) and t.attr == "value" for t in n.targets)
             and isinstance(n.value, ast.Subscript) and isinstance(n.value.slice, ast.Constant)] if avp_new else []
    if not generic or drops:
        ctx.fail(cons_g, (avp_new.loc(drops[0]) if drops else s_.loc()),
                 "the address family of a (family, text) pair - the form the getter returns - is "
                 "discarded on encode (Avp.new keeps only the text / the setter guesses the family "
                 "from the text): a decoded family-6 address is re-encoded as E.164 text, "
                 "(8, '10.0.0.1') as IPv4, and a typed message holding such an address cannot be "
                 "encoded or dumped at all")
    if generic:
        gs = cfg_of(s_)
        ats = Atomizer(model, mod, ci)
        c = generic[0]
        famv, datav = c.args[1].id, c.args[2].id
        fmt = c.args[0]
        fs = "".join(v.value if isinstance(v, ast.Constant) else "{}" for v in fmt.values) \
            if isinstance(fmt, ast.JoinedStr) else model.try_fold(fmt, mod)
        got = {}
        for n in gs.nodes:
            if n.kind == "stmt" and isinstance(n.ast, ast.Assign) and any(A.dotted(t) == datav for t in n.ast.targets):
                src = ast.unparse(n.ast.value)
                kind = "AF_INET6" if "AF_INET6" in src else "AF_INET" if "AF_INET" in src else \
                    "utf-8" if ".encode(" in src else "hex" if "bytes.fromhex(" in src else src[:30]
                eq = [f_[2] for f_ in must_facts(gs, ats, n) if f_[0] == famv and f_[1] == "==" and f_[3] is True]
                got[eq[0] if eq else "other"] = kind
        if got != {1: "AF_INET", 2: "AF_INET6", 8: "utf-8", "other": "hex"} \
                or str(fs).replace(">", "!") != "!H{}s":
            ctx.fail(cons_g, s_.loc(c), f"a (family, text) pair is encoded as {got} with format {fs!r}; the "
                     f"getter's inverse is 1 -> inet_pton(AF_INET), 2 -> inet_pton(AF_INET6), 8 -> utf-8 "
                     f"text, any other family -> bytes.fromhex, behind a 16-bit big-endian family")
    # a variable-width `s` field is as wide as the bytes packed into it (struct truncates or
    # zero-pads silently otherwise)
    cons = "AvpAddress.value:setter-width"
    ctx.inst(cons)
    for c in _struct_calls(E, s_, "pack"):
        fmt = c.args[0] if c.args else None
        if not isinstance(fmt, ast.JoinedStr):
            continue
        widths = [v.value for v in fmt.values if isinstance(v, ast.FormattedValue)]
        data = c.args[len(c.args) - len(widths):] if widths else []
        for w, d in zip(widths, data):
            wt = A.resolve_local_chain(s_.node, w).replace(" ", "")
            dt = A.resolve_local_chain(s_.node, d).replace(" ", "")
            # locals reassigned before the call (x = x.encode()) are compared by name
            if wt != f"len({dt})" and ast.unparse(w).replace(" ", "") != f"len({ast.unparse(d).replace(' ', '')})":
                ctx.fail(cons, s_.loc(c), f"the width of the packed field is `{ast.unparse(w)}` but the "
                         f"bytes packed are `{ast.unparse(d)}`: when the two lengths differ (e.g. a "
                         f"non-ASCII text whose UTF-8 form is longer than its character count) "
                         f"struct silently truncates the value")
    # getter
    g = cfg_of(g_)
    at = Atomizer(model, mod, ci)
    gt = {}
    pref = [c for c in _struct_calls(E, g_, "unpack")]
    for n in g.nodes:
        if n.kind == "stmt" and isinstance(n.ast, ast.Return) and n.ast.value is not None:
            facts = must_facts(g, at, n)
            fam = [f_[2] for f_ in facts if f_[1] == "==" and f_[3] and isinstance(f_[2], int)]
            src = ast.unparse(n.ast.value)
            kind = "AF_INET6" if "AF_INET6" in src else "AF_INET" if "AF_INET" in src else \
                "utf-8" if "decode" in src else "hex"
            if fam:
                gt[fam[0]] = kind
            if "self.payload[2:]" not in src:
                ctx.inst("AvpAddress.value:getter-offset")
                ctx.fail("AvpAddress.value:getter-offset", g.loc(n), "the address bytes are not taken after the 2-byte family prefix")
    cons = "AvpAddress.value:getter-families"
    ctx.inst(cons, sample=gt)
    if gt != {1: "AF_INET", 2: "AF_INET6", 8: "utf-8"}:
        ctx.fail(cons, g_.loc(), f"address families decoded: {gt}; the setter writes {sorted(st)}")
    pf = norm_fmt(model.try_fold(pref[0].args[0], mod)) if pref else None
    if not pref or pf is None or pf[0] != "big" or pf[1] != 2 or ast.unparse(pref[0].args[1]) != "self.payload[:2]":
        ctx.fail(cons + "#prefix", g_.loc(), "the family prefix is not read as 16-bit big-endian from payload[:2]")


def _dictionary(ctx: Ctx, model, mod, avp):
    ctx.rule("C01-R7", "dictionary dispatch: base table iff vendor == 0, vendor table otherwise; "
                       "register() writes the same tables; entries are well-formed", floor=2500)
    dct = extract_dictionary(model)
    ctx.use(dct.module)
    for e in dct.all_entries:
        cons = f"dictionary:{e.vendor}/{e.code}"
        ctx.inst(cons, sample={"code": e.code, "vendor": e.vendor, "name": e.name, "type": e.type_name}
                 if e.code in (1, 263, 1022) else None)
        if e.type_cls is None or avp not in model.mro(e.type_cls):
            ctx.fail(cons, e.where(dct.module), f"dictionary entry {e.key_src} has type {e.type_name}, "
                     f"which is not an Avp subclass")
        if not isinstance(e.name, str) or not e.name:
            ctx.fail(cons + "#name", e.where(dct.module), f"dictionary entry {e.key_src} has no name")
        if not isinstance(e.code, int) or not (0 <= e.code < 2 ** 32):
            ctx.fail(cons + "#code", e.where(dct.module), f"dictionary key {e.key_src} is not a 32-bit code")
        if e.vendor and e.vendor_field not in (None, e.vendor):
            ctx.fail(cons + "#vendor", e.where(dct.module), f"entry {e.key_src} sits in the table of "
                     f"vendor {e.vendor} but says vendor {e.vendor_field}")
        if e.has_mandatory and not isinstance(e.mandatory, bool):
            ctx.fail(cons + "#mandatory", e.where(dct.module), f"entry {e.key_src}: 'mandatory' is not a bool")
    for a, b in dct.duplicates:
        cons = f"dictionary:duplicate:{b.vendor}/{b.code}"
        ctx.inst(cons)
        if (a.type_name, a.mandatory) != (b.type_name, b.mandatory):
            ctx.fail(cons, b.where(dct.module), f"keys {a.key_src} and {b.key_src} both fold to code "
                     f"{b.code} but disagree on type/mandatory: the later one silently wins")
        else:
            ctx.note(f"name-only alias in dictionary: {a.key_src} / {b.key_src} = {b.code}")
    gf = model.func("message.avp.avp", "get_avp_dictionary_entry")
    ctx.use(gf)
    g = cfg_of(gf)
    at = Atomizer(model, mod, None)
    c_, v_ = [a.arg for a in gf.node.args.args][:2]
    rets = [n for n in g.nodes if n.kind == "stmt" and isinstance(n.ast, ast.Return)]
    cons = "get_avp_dictionary_entry"
    ctx.inst(cons)
    kinds = {}
    for r in rets:
        s = ast.unparse(r.ast.value).replace(" ", "") if r.ast.value is not None else "None"
        facts = must_facts(g, at, r)
        if s == f"AVP_DICTIONARY[{c_}]":
            kinds["base"] = ((v_, "==", 0, True) in facts and (c_, "in-expr", "AVP_DICTIONARY", True) in facts)
        elif s == f"AVP_VENDOR_DICTIONARY[{v_}][{c_}]":
            kinds["vendor"] = ((v_, "==", 0, False) in facts
                               and (v_, "in-expr", "AVP_VENDOR_DICTIONARY", True) in facts
                               and (c_, "in-expr", f"AVP_VENDOR_DICTIONARY[{v_}]", True) in facts)
        elif s == "None":
            kinds["none"] = True
        else:
            kinds[s] = False
    if kinds != {"base": True, "vendor": True, "none": True}:
        ctx.fail(cons, gf.loc(), f"the dictionary lookup is not: base table iff vendor == 0, the "
                 f"vendor's table iff vendor != 0, else None ({kinds}): an AVP is decoded with the "
                 f"type of the same code under another vendor")
    rf = model.func("message.avp.avp", "register")
    ctx.use(rf)
    cons = "register"
    ctx.inst(cons)
    gr = cfg_of(rf)
    atr = Atomizer(model, mod, None)
    rp = [a.arg for a in rf.node.args.args]
    stores = [n for n in gr.nodes if n.kind == "stmt" and isinstance(n.ast, ast.Assign)
              and isinstance(n.ast.targets[0], ast.Subscript)]
    base_ok = vend_ok = False
    for s in stores:
        t = s.ast.targets[0]
        facts = must_facts(gr, atr, s)
        tv = ast.unparse(t.value)
        key = ast.unparse(t.slice)
        if tv == "AVP_DICTIONARY" and key == rp[0] and ("vendor", "truthy", None, False) in facts:
            base_ok = True
        elif tv == "AVP_DICTIONARY" and key == rp[0] and ("vendor", "is", None, True) in facts:
            base_ok = True
            ctx.fail(cons + "#vendor-zero", gr.loc(s), "register() files a definition in the base "
                     "dictionary only for `vendor is None`; vendor=0 (the value that means 'no "
                     "vendor' in Avp.new, from_unpacker and get_avp_dictionary_entry) goes to "
                     "AVP_VENDOR_DICTIONARY[0], which the lookup never consults: the registered "
                     "type is ignored by the codec")
        elif key == rp[0] and (("vendor", "is", None, False) in facts
                               or ("vendor", "truthy", None, True) in facts):
            # the dict stored into must be the one inside AVP_VENDOR_DICTIONARY
            src = t.value
            if isinstance(src, ast.Name):
                d = [n for n in gr.nodes if n.kind == "stmt" and isinstance(n.ast, ast.Assign)
                     and any(A.dotted(x) == src.id for x in n.ast.targets)]
                src = d[0].ast.value if d else None
            ss = ast.unparse(src).replace(" ", "") if src is not None else ""
            if ss in ("AVP_VENDOR_DICTIONARY.setdefault(vendor,{})", "AVP_VENDOR_DICTIONARY[vendor]"):
                vend_ok = True
                if ss == "AVP_VENDOR_DICTIONARY[vendor]" and "setdefault" not in ast.unparse(rf.node) \
                        and "not in AVP_VENDOR_DICTIONARY" not in ast.unparse(rf.node):
                    vend_ok = False
            else:
                ctx.fail(cons + "#vendor-table", gr.loc(s), f"a vendor-specific registration is stored "
                         f"into `{ss}`, which is not (guaranteed to be) the table inside "
                         f"AVP_VENDOR_DICTIONARY: registering under a new vendor id is silently lost")
                vend_ok = None
    if not base_ok or vend_ok is False:
        ctx.fail(cons, rf.loc(), "register() does not write AVP_DICTIONARY[code] for vendor None and "
                 "AVP_VENDOR_DICTIONARY[vendor][code] otherwise")
    for s in stores:
        val = s.ast.value
        if isinstance(val, ast.Name):
            d = [n for n in gr.nodes if n.kind == "stmt" and isinstance(n.ast, ast.Assign)
                 and any(A.dotted(x) == val.id for x in n.ast.targets)]
            val = d[0].ast.value if d else val
        if isinstance(val, ast.Dict):
            keys = {model.try_fold(k, mod) for k in val.keys if k is not None}
            if not {"name", "type", "mandatory"} <= keys:
                ctx.fail(cons + "#fields", gr.loc(s), f"a registered entry lacks fields "
                         f"{sorted({'name', 'type', 'mandatory'} - keys)}")
            tv_ = [v for k, v in zip(val.keys, val.values) if model.try_fold(k, mod) == "type"]
            if tv_ and A.dotted(tv_[0]) != rp[2]:
                ctx.fail(cons + "#type", gr.loc(s), "the registered type is not the given type class")
    # Avp.new default M flag / dispatch
    nw = avp.methods.get("new")
    fu = avp.methods.get("from_unpacker")
    for f, cons in ((nw, "Avp.new:dispatch"), (fu, "Avp.from_unpacker:dispatch")):
        ctx.inst(cons)
        ok = any(isinstance(n, ast.Call) and A.call_name(n) == "get_avp_dictionary_entry"
                 and len(n.args) == 2 for n in ast.walk(f.node)) and '["type"]' in ast.unparse(f.node).replace("'", '"')
        if not ok:
            ctx.fail(cons, f.loc(), f"{f.qualname} does not take the AVP type from "
                     f"get_avp_dictionary_entry(code, vendor)['type']")
        else:
            # ... on every call: the lookup is not skipped on some path (memoised misses, caches)
            gd = cfg_of(f)
            look = [n for n in gd.nodes if any(A.call_name(c) == "get_avp_dictionary_entry" for c in n.calls())]
            rets_ = [n for n in gd.nodes if n.kind == "stmt" and isinstance(n.ast, ast.Return)]
            for r in rets_:
                if not gd.dominated(r, look):
                    ctx.fail(cons + "#every-call", gd.loc(r), f"{f.qualname} can return an AVP without "
                             f"consulting get_avp_dictionary_entry on that call: the type comes from "
                             f"state remembered from earlier calls, so an AVP registered in between "
                             f"is still decoded/created with the old type")
                    break
    cons = "Avp.new:default-mandatory"
    ctx.inst(cons)
    gn = cfg_of(nw)
    atn = Atomizer(model, mod, avp)
    mparam = "is_mandatory"
    edef = [n for n in gn.nodes if n.kind == "stmt" and isinstance(n.ast, ast.Assign)
            and isinstance(n.ast.value, ast.Call) and A.call_name(n.ast.value) == "get_avp_dictionary_entry"]
    ev = A.dotted(edef[0].ast.targets[0]) if edef else "entry"
    st = [n for n in gn.nodes if n.kind == "stmt" and isinstance(n.ast, ast.Assign)
          and any(A.dotted(t) == mparam for t in n.ast.targets)]
    okm = st and (mparam, "is", None, True) in must_facts(gn, atn, st[0]) and \
        ast.unparse(st[0].ast.value).replace("'", '"') in (f'{ev}.get("mandatory")', f'{ev}["mandatory"]')
    apply = [n for n in gn.nodes if n.kind == "stmt" and any(A.dotted(t).endswith(".is_mandatory") for t in n.stores())]
    if not okm or not apply or A.dotted(apply[0].ast.value) != "is_mandatory":
        ctx.fail(cons, nw.loc(), "Avp.new does not default the M flag to the dictionary entry's "
                 "'mandatory' when the caller gives none")
    call = [n for n in ast.walk(nw.node) if isinstance(n, ast.Call) and A.call_name(n) == "get_avp_dictionary_entry"]
    params = [a.arg for a in nw.node.args.args][1:3]
    if call and [A.dotted(a) for a in call[0].args] != params:
        ctx.fail("Avp.new:dispatch#args", nw.loc(), "Avp.new looks the entry up with other keys than (avp_code, vendor_id)")
    ctor = [n for n in ast.walk(nw.node) if isinstance(n, ast.Call) and A.call_name(n) == "avp_type"]
    if ctor:
        kws = {k.arg: A.dotted(k.value) for k in ctor[0].keywords}
        if [A.dotted(a) for a in ctor[0].args] != [params[0]] or kws.get("vendor_id") != params[1]:
            ctx.fail("Avp.new:dispatch#ctor", nw.loc(), "the new AVP is not constructed with the requested code and vendor")


# The AVP table of RFC 6733 section 4.5 (code -> data format), frozen from the RFC text.  It is
# the reference the statement names ("exactly the RFC 6733 wire form ... type-specific data
# layout"): the dictionary decides which codec an AVP gets, and a base-protocol AVP declared with
# another format is encoded with the wrong layout or range.  DiameterIdentity / DiameterURI are
# OctetString-derived; the library may expose them as bytes or text (same wire form).
RFC6733_AVP_FORMATS = {
    1: "UTF8", 25: "OCT", 27: "U32", 33: "OCT", 44: "OCT", 50: "UTF8", 55: "TIME", 85: "U32",
    257: "ADDR", 258: "U32", 259: "U32", 260: "GRP", 261: "ENUM", 262: "U32", 263: "UTF8",
    264: "IDENT", 265: "U32", 266: "U32", 267: "U32", 268: "U32", 269: "UTF8", 270: "U32",
    271: "ENUM", 272: "U32", 273: "ENUM", 274: "ENUM", 276: "U32", 277: "ENUM", 278: "U32",
    279: "GRP", 280: "IDENT", 281: "UTF8", 282: "IDENT", 283: "IDENT", 284: "GRP", 285: "ENUM",
    287: "U64", 291: "U32", 292: "URI", 293: "IDENT", 294: "IDENT", 295: "ENUM", 296: "IDENT",
    297: "GRP", 298: "U32", 299: "U32", 480: "ENUM", 483: "ENUM", 485: "U32",
}
_FORMAT_CLASSES = {
    "U32": {"AvpUnsigned32"}, "U64": {"AvpUnsigned64"}, "ENUM": {"AvpEnumerated", "AvpInteger32"},
    "UTF8": {"AvpUtf8String"}, "OCT": {"AvpOctetString"}, "IDENT": {"AvpOctetString", "AvpUtf8String"},
    "URI": {"AvpOctetString", "AvpUtf8String"}, "TIME": {"AvpTime"}, "ADDR": {"AvpAddress"},
    "GRP": {"AvpGrouped"},
}


# Formats confirmed against the defining documents while triaging the third audit (each entry was a
# genuine finding or a sibling checked with it); keyed by (code, vendor)
OTHER_CONFIRMED_FORMATS = {
    (14, 0): ("OCT", "Login-IP-Host: RFC 7155 4.4.11.1, four octets, no address-family prefix"),
    (98, 0): ("OCT", "Login-IPv6-Host: RFC 7155 4.4.11.2"),
    (42, 0): ("U32", "Acct-Input-Octets: RFC 2866 5.3"),
    (43, 0): ("U32", "Acct-Output-Octets: RFC 2866 5.4"),
    (47, 0): ("U32", "Acct-Input-Packets: RFC 2866 5.8"),
    (48, 0): ("U32", "Acct-Output-Packets: RFC 2866 5.9"),
    (52, 0): ("U32", "Acct-Input-Gigawords: RFC 2869 5.1"),
    (53, 0): ("U32", "Acct-Output-Gigawords: RFC 2869 5.2"),
    (337, 0): ("U32", "MIP-Feature-Vector: RFC 4004 7.5"),
    (2708, 10415): ("UTF8", "From-Address: TS 32.299 7.2.77A, the SIP From header"),
    (11, 10415): ("OCT", "3GPP-Session-Stop-Indicator: TS 29.061 16.4.7.2, the single octet 0xFF (not valid UTF-8)"),
}


def _rfc6733_types(ctx: Ctx, model):
    ctx.rule("C01-R9", "every AVP of the RFC 6733 section 4.5 table is declared with the RFC's data "
                       "format in the dictionary", floor=40)
    dct = extract_dictionary(model)
    for code, fmt in sorted(RFC6733_AVP_FORMATS.items()):
        e = dct.get(code, 0)
        cons = f"dictionary[{code}]:rfc6733-format"
        ctx.inst(cons, rule="C01-R9")
        if e is None:
            ctx.fail(cons, dct.module.relpath, f"the RFC 6733 AVP {code} has no dictionary entry", rule="C01-R9")
        elif e.type_name not in _FORMAT_CLASSES[fmt]:
            ctx.fail(cons, e.where(dct.module),
                     f"{e.name} ({code}) is declared {e.type_name}; RFC 6733 section 4.5 defines it as "
                     f"{fmt} ({'/'.join(sorted(_FORMAT_CLASSES[fmt]))}): values of the RFC's domain are "
                     f"rejected or decoded as something else (e.g. 0xffffffff as -1)", rule="C01-R9",
                     expected=sorted(_FORMAT_CLASSES[fmt]), observed=e.type_name)


    for (code, vendor), (fmt, why) in sorted(OTHER_CONFIRMED_FORMATS.items()):
        e = dct.get(code, vendor)
        cons = f"dictionary[{code}/{vendor}]:confirmed-format"
        ctx.inst(cons, rule="C01-R9")
        if e is None:
            continue       # the dictionary need not know it
        if e.type_name not in _FORMAT_CLASSES[fmt]:
            ctx.fail(cons, e.where(dct.module),
                     f"{e.name} ({code}/{vendor}) is declared {e.type_name}; it is {fmt} "
                     f"({'/'.join(sorted(_FORMAT_CLASSES[fmt]))}) - {why}: conformant values are refused, "
                     f"wrapped, or go out in another layout", rule="C01-R9",
                     expected=sorted(_FORMAT_CLASSES[fmt]), observed=e.type_name)


def _float32_nan(ctx: Ctx, model, mod):
    """Float32 values travel through struct's "f" format, i.e. through a C float <-> double
    conversion: every finite value, the infinities, signed zeros and quiet NaNs survive it bit
    for bit, a signalling NaN is quieted (its top mantissa bit is set) by the conversion itself.
    The quantifier compares NaNs bitwise, so a codec that does not handle NaNs by bit pattern
    cannot hold it."""
    ci = mod.classes.get("AvpFloat32")
    cons = "AvpFloat32.value:nan-payload"
    ctx.cur("C01-R5")
    ctx.inst(cons, rule="C01-R5")
    if ci is None:
        return
    for fn in (ci.methods.get("value"), ci.setters.get("value")):
        if fn is None:
            continue
        src = ast.unparse(fn.node)
        uses_f = any(isinstance(c, ast.Call) and A.call_name(c) in ("struct.pack", "struct.unpack") and c.args
                     and isinstance(c.args[0], ast.Constant) and str(c.args[0].value).lstrip("!<>=@") == "f"
                     for c in ast.walk(fn.node))
        if uses_f and "isnan" not in src and "0x7f8" not in src.lower():
            ctx.fail(cons, fn.loc(), "AvpFloat32 converts through struct's 'f' format without treating NaNs "
                     "by bit pattern: the float<->double conversion quiets signalling NaNs, so the wire "
                     "value 7fa00000 is re-encoded as 7fe00000 (7f800001 -> 7fc00001) and a double "
                     "sNaN is packed as a quiet one", rule="C01-R5")
            return
